"""Runner core: context, engines (product enumerator P, history explorer E), evidence,
replay files and the known-findings matcher.

Every check is a *pure function of a JSON-serialisable case*:

    fn(case) -> {"v": [violation, ...],   # each {"key": finding-key, "msg": str, ...}
                 "t": int,               # library operations executed (transitions)
                 "o": hashable/str,      # observed outcome summary (vacuity alarm)
                 "nt": bool,             # case is non-trivial by the check's rule
                 # engine E only:
                 "key": str,             # canonical state key (dedup)
                 "ops": [op, ...]}       # ops enabled in the reached *model* state

so that a violation replays by calling the same function on the recorded case, without
the explorer.
"""
import fnmatch
import hashlib
import importlib
import itertools
import json
import multiprocessing as mp
import os
import subprocess
import sys
import time
import traceback

VERIF = os.path.dirname(os.path.dirname(os.path.abspath(__file__)))
NPROC = int(os.environ.get("VERIF_WORKERS", "16"))
MAX_VIOLATION_LINES = 12
MAX_REPLAYS_PER_KEY = 2


def resolve(fn_name):
    mod, name = fn_name.split(":")
    return getattr(importlib.import_module(mod), name)


def jsonable(x):
    """Convert numpy scalars / arrays / tuples / sets to plain JSON types."""
    try:
        import numpy as np
    except Exception:  # pragma: no cover
        np = None
    if isinstance(x, dict):
        return {str(k): jsonable(v) for k, v in x.items()}
    if isinstance(x, (list, tuple)):
        return [jsonable(v) for v in x]
    if isinstance(x, (set, frozenset)):
        return sorted((jsonable(v) for v in x), key=repr)
    if np is not None:
        if isinstance(x, np.ndarray):
            if x.dtype.kind == "c":
                return [jsonable(v) for v in x.tolist()]
            return jsonable(x.tolist())
        if isinstance(x, np.generic):
            return jsonable(x.item())
    if isinstance(x, complex):
        return {"re": x.real, "im": x.imag}
    if isinstance(x, float):
        if x != x:
            return "NaN"
        if x in (float("inf"), float("-inf")):
            return "inf" if x > 0 else "-inf"
        return x
    if isinstance(x, (str, int, bool)) or x is None:
        return x
    return repr(x)


def _safe_call(fn_name, case):
    """Run one case; library exceptions that escape the check body are violations."""
    fn = resolve(fn_name)
    try:
        r = fn(case)
        if r is None:
            r = {}
        if isinstance(r, list):
            r = {"v": r}
        return r
    except Exception as e:  # the check body lets in-domain library exceptions escape
        tb = traceback.extract_tb(e.__traceback__)
        site = "?"
        for fr in reversed(tb):
            if "/geometry_tools/" in fr.filename:
                site = "%s:%s" % (os.path.basename(fr.filename), fr.name)
                break
        else:
            if tb:
                fr = tb[-1]
                site = "HARNESS:%s:%s:%d" % (os.path.basename(fr.filename), fr.name, fr.lineno)
        return {"v": [{"key": "exception/%s/%s" % (type(e).__name__, site),
                       "msg": "%s: %s" % (type(e).__name__, str(e)[:300])}],
                "t": 1, "o": "EXC:" + type(e).__name__, "nt": True}


def _run_chunk(args):
    fn_name, cases = args
    out = []
    for c in cases:
        out.append(_safe_call(fn_name, c))
    return out


def _chunks(it, n):
    it = iter(it)
    while True:
        ch = list(itertools.islice(it, n))
        if not ch:
            return
        yield ch


class Section:
    def __init__(self, name, engine, fn):
        self.name, self.engine, self.fn = name, engine, fn
        self.evaluations = 0
        self.states = 0
        self.transitions = 0
        self.nontrivial = 0
        self.outcomes = set()
        self.samples = []
        self.domains = {}
        self.exhaustive = True
        self.depth = None
        self.extra = {}
        self.violations = 0
        self.wall = 0.0

    def as_dict(self):
        d = {"name": self.name, "engine": self.engine, "fn": self.fn,
             "evaluations": self.evaluations, "states": self.states,
             "transitions": self.transitions, "distinct_nontrivial": self.nontrivial,
             "distinct_outcomes": len(self.outcomes), "domains": self.domains,
             "exhaustive": self.exhaustive, "violations": self.violations,
             "wall_s": round(self.wall, 2)}
        if self.depth is not None:
            d["depth_completed"] = self.depth
        d.update(self.extra)
        return d


class Ctx:
    def __init__(self, prop, tier, seed):
        self.prop, self.tier, self.seed = prop, tier, seed
        self.quick = tier == "quick"
        self.sections = []
        self.violations = []      # (section, fn, case, violation)
        self.assumptions = []
        self.tolerances = {}
        self.rule = ""
        self._pool = None
        self.t0 = time.time()
        self.harness_errors = []

    # ------------------------------------------------------------------ pool
    def pool(self):
        if self._pool is None:
            ctx = mp.get_context("fork")
            self._pool = ctx.Pool(NPROC)
        return self._pool

    def close(self):
        if self._pool is not None:
            self._pool.terminate()
            self._pool.join()
            self._pool = None

    def _map(self, fn_name, cases, chunk, parallel):
        """Yield (case, result) in input order."""
        if not parallel or NPROC <= 1:
            for c in cases:
                yield c, _safe_call(fn_name, c)
            return
        pool = self.pool()
        chunks = _chunks(cases, chunk)
        pending = []
        WINDOW = NPROC * 4
        timeout = float(os.environ.get("VERIF_CHUNK_TIMEOUT", "900"))

        def submit():
            try:
                ch = next(chunks)
            except StopIteration:
                return False
            pending.append((ch, pool.apply_async(_run_chunk, ((fn_name, ch),))))
            return True
        for _ in range(WINDOW):
            if not submit():
                break
        while pending:
            ch, ar = pending.pop(0)
            try:
                res = ar.get(timeout=timeout)
            except mp.TimeoutError:
                self.close()
                res = [{"v": [{"key": "timeout/" + fn_name,
                               "msg": "chunk of %d cases exceeded %.0fs (first case recorded)" % (len(ch), timeout)}],
                        "t": 0, "o": "TIMEOUT", "nt": True}] + [{} for _ in ch[1:]]
                for c, r in zip(ch, res):
                    yield c, r
                return
            submit()
            for c, r in zip(ch, res):
                yield c, r

    # --------------------------------------------------------------- engines
    def product(self, name, fn, cases, domains=None, chunk=64, parallel=True,
                exhaustive=True, nsamples=3):
        """Engine P: evaluate fn on every case of a finite enumeration."""
        s = Section(name, "P:product-enumeration", fn)
        s.domains = domains or {}
        s.exhaustive = exhaustive
        t0 = time.time()
        for case, r in self._map(fn, cases, chunk, parallel):
            s.evaluations += 1
            s.states += 1
            s.transitions += int(r.get("t", 1))
            if r.get("nt", True):
                s.nontrivial += 1
            o = r.get("o")
            if o is not None:
                s.outcomes.add(o if isinstance(o, (str, int)) else repr(o))
            if len(s.samples) < nsamples or (s.evaluations in (101, 5003)):
                s.samples.append(jsonable(case))
            for v in r.get("v", []):
                s.violations += 1
                self.violations.append((name, fn, case, v))
        s.wall = time.time() - t0
        self.sections.append(s)
        return s

    def bfs(self, name, fn, roots, depth, dedup=True, chunk=16, parallel=True,
            domains=None, nsamples=3, max_states=None):
        """Engine E: level-synchronous BFS over histories of real objects.

        fn(history) executes the history on fresh real objects and on the reference
        model, evaluates the invariants in the reached state and returns the canonical
        key and the ops enabled in the reached model state.
        """
        s = Section(name, "E:history-bfs" + ("" if dedup else "(no-dedup)"), fn)
        s.domains = domains or {}
        t0 = time.time()
        seen = set()
        frontier = []
        level = [list(h) for h in roots]
        d = 0
        s.depth = 0
        capped = False
        nstates = 0
        while level:
            nxt = []
            for hist, r in self._map(fn, level, chunk, parallel):
                s.evaluations += 1
                s.transitions += 1
                if r.get("nt", True):
                    s.nontrivial += 1
                o = r.get("o")
                if o is not None:
                    s.outcomes.add(o if isinstance(o, (str, int)) else repr(o))
                if len(s.samples) < nsamples or s.evaluations in (211, 7919):
                    s.samples.append(jsonable(hist))
                for v in r.get("v", []):
                    s.violations += 1
                    self.violations.append((name, fn, hist, v))
                k = r.get("key")
                if k is None:
                    continue
                if dedup and k in seen:
                    continue
                seen.add(k)
                nstates += 1
                if d < depth:
                    for op in r.get("ops", []):
                        nxt.append(hist + [op])
            s.depth = d
            d += 1
            if d > depth:
                break
            if max_states is not None and len(seen) > max_states:
                capped = True
                break
            level = nxt
        s.states = nstates
        s.exhaustive = not capped
        s.extra["depth_bound"] = depth
        s.wall = time.time() - t0
        self.sections.append(s)
        return s

    # ---------------------------------------------------------------- output
    def assume(self, text):
        if text not in self.assumptions:
            self.assumptions.append(text)


def load_findings(prop):
    path = os.path.join(VERIF, "known_findings.json")
    if not os.path.exists(path):
        return []
    with open(path) as f:
        data = json.load(f)
    return [e for e in data.get("findings", []) if e.get("property") == prop]


def match_finding(findings, vkey):
    for e in findings:
        if e.get("status") != "open":
            continue
        for pat in e.get("keys", [e.get("key")]):
            if pat and fnmatch.fnmatchcase(vkey, pat):
                return e
    return None


def write_replay(prop, section, fn, case, v, tier, seed):
    os.makedirs(os.path.join(VERIF, "out", "replay"), exist_ok=True)
    if os.environ.get("VERIF_EVIDENCE_DIR"):
        pass
    body = {"property": prop, "section": section, "fn": fn, "case": jsonable(case),
            "violation": jsonable(v), "tier": tier, "seed": seed}
    h = hashlib.sha1(json.dumps([fn, body["case"], v.get("key")], sort_keys=True).encode()).hexdigest()[:12]
    path = os.path.join(VERIF, "out", "replay", "%s-%s.json" % (prop, h))
    with open(path, "w") as f:
        json.dump(body, f, indent=1, sort_keys=True)
    return path


def finish(ctx, evidence_extra=None):
    """Print VIOLATION / KNOWN-FINDING lines, write evidence, return exit code."""
    findings = load_findings(ctx.prop)
    known_hit = {}
    new = []
    for (section, fn, case, v) in ctx.violations:
        e = match_finding(findings, v.get("key", ""))
        if e is not None:
            known_hit.setdefault(e["id"], [e, 0, (section, fn, case, v)])
            known_hit[e["id"]][1] += 1
        else:
            new.append((section, fn, case, v))
    for fid, (e, n, first) in sorted(known_hit.items()):
        print("KNOWN-FINDING: property=%s %s [%s; %d cases this run, e.g. %s]" % (
            ctx.prop, e["what"], fid, n, json.dumps(jsonable(first[2]))[:160]))
    per_key = {}
    lines = 0
    for (section, fn, case, v) in new:
        k = v.get("key", "")
        per_key[k] = per_key.get(k, 0) + 1
        if per_key[k] <= MAX_REPLAYS_PER_KEY and lines < MAX_VIOLATION_LINES:
            path = write_replay(ctx.prop, section, fn, case, v, ctx.tier, ctx.seed)
            print("VIOLATION property=%s replay=%s" % (ctx.prop, path))
            print("   section=%s key=%s :: %s" % (section, k, str(v.get("msg", ""))[:300]))
            lines += 1
    if new:
        print("violation keys (count):")
        for k, n in sorted(per_key.items(), key=lambda kv: -kv[1])[:40]:
            print("   %6d  %s" % (n, k))
    wall = time.time() - ctx.t0
    secs = [s.as_dict() for s in ctx.sections]
    samples = []
    for s in ctx.sections:
        for c in s.samples[:2]:
            samples.append({"section": s.name, "case": c})
    cov = {
        "evaluations": sum(s.evaluations for s in ctx.sections),
        "distinct_nontrivial": sum(s.nontrivial for s in ctx.sections),
        "rule": ctx.rule,
        "samples": samples[:40],
        "states": sum(s.states for s in ctx.sections),
        "transitions": sum(s.transitions for s in ctx.sections),
        "traces_validated_against_impl": sum(s.evaluations for s in ctx.sections),
        "exhaustive": all(s.exhaustive for s in ctx.sections),
        "distinct_outcomes": sum(len(s.outcomes) for s in ctx.sections),
        "sections": secs,
        "tolerances": ctx.tolerances,
        "known_findings_reported": sorted(known_hit),
        "explanation": ("every case/history listed under sections was executed against the "
                        "implementation imported from /repo and compared with the reference model; "
                        "traces_validated_against_impl counts executed cases/histories"),
    }
    if evidence_extra:
        cov.update(evidence_extra)
    ev = {"property_id": ctx.prop, "tier": ctx.tier, "seed": ctx.seed, "level": "model_checking",
          "coverage": cov, "assumptions": ctx.assumptions, "wall_s": round(wall, 2),
          "violations": len(new)}
    evdir = os.environ.get("VERIF_EVIDENCE_DIR") or os.path.join(VERIF, "evidence")
    os.makedirs(evdir, exist_ok=True)
    evpath = os.path.join(evdir, ctx.prop + ".json")
    with open(evpath, "w") as f:
        json.dump(jsonable(ev), f, indent=1)
    ok_schema = validate_evidence(evpath)
    print("%s tier=%s seed=%d: sections=%d evaluations=%d states=%d transitions=%d "
          "distinct_outcomes=%d nontrivial=%d known=%d new_violations=%d wall=%.1fs%s" % (
              ctx.prop, ctx.tier, ctx.seed, len(ctx.sections), cov["evaluations"], cov["states"],
              cov["transitions"], cov["distinct_outcomes"], cov["distinct_nontrivial"],
              sum(n for _, n, _ in known_hit.values()), len(new), wall,
              "" if ok_schema else "  [EVIDENCE SCHEMA INVALID]"))
    for s in ctx.sections:
        print("   - %-34s %-22s eval=%-8d states=%-8d outcomes=%-7d viol=%-5d %s%.1fs" % (
            s.name, s.engine, s.evaluations, s.states, len(s.outcomes), s.violations,
            ("depth=%s " % s.depth) if s.depth is not None else "", s.wall))
    if ctx.harness_errors:
        for h in ctx.harness_errors:
            print("HARNESS-ERROR: " + h)
        return 2
    if not ok_schema:
        return 2
    return 1 if new else 0


def validate_evidence(path):
    """Structural validation; second opinion from python3-vt's jsonschema when present."""
    with open(path) as f:
        ev = json.load(f)
    for k in ("property_id", "tier", "seed", "level", "coverage", "wall_s"):
        if k not in ev:
            print("evidence: missing key " + k)
            return False
    c = ev["coverage"]
    if not (isinstance(c.get("states"), int) and c["states"] >= 1 and
            isinstance(c.get("transitions"), int) and c["transitions"] >= 1 and
            isinstance(c.get("samples"), list) and len(c["samples"]) >= 1 and
            isinstance(c.get("traces_validated_against_impl"), int)):
        print("evidence: model_checking keys incomplete")
        return False
    if os.environ.get("VERIF_NO_JSONSCHEMA"):
        return True
    schema = "/root/.vp/EVIDENCE.schema.json"
    if os.path.exists(schema):
        try:
            r = subprocess.run(
                ["python3-vt", "-c",
                 "import json,sys,jsonschema;"
                 "jsonschema.validate(json.load(open(sys.argv[1])),json.load(open(sys.argv[2])))",
                 path, schema], capture_output=True, text=True, timeout=60)
            if r.returncode != 0 and "ValidationError" in (r.stderr or ""):
                print("evidence: jsonschema says:\n" + r.stderr[-600:])
                return False
        except Exception:
            pass
    return True


def replay(prop, path):
    with open(path) as f:
        body = json.load(f)
    fn = body["fn"]
    r1 = _safe_call(fn, body["case"])
    r2 = _safe_call(fn, body["case"])
    v1 = json.dumps(jsonable(r1.get("v", [])), sort_keys=True)
    v2 = json.dumps(jsonable(r2.get("v", [])), sort_keys=True)
    if v1 != v2:
        print("HARNESS-ERROR: replay of %s is not deterministic" % path)
        return 2
    vs = r1.get("v", [])
    if not vs:
        print("replay %s: no violation (case passes on this tree)" % path)
        return 0
    findings = load_findings(body.get("property", prop))
    new = [v for v in vs if match_finding(findings, v.get("key", "")) is None]
    for v in vs:
        tag = "VIOLATION" if v in new else "KNOWN-FINDING:"
        if v in new:
            print("VIOLATION property=%s replay=%s" % (body.get("property", prop), path))
        else:
            print("KNOWN-FINDING: property=%s %s" % (body.get("property", prop), v.get("key")))
        print("   key=%s :: %s" % (v.get("key"), str(v.get("msg"))[:400]))
    return 1 if new else 0
