"""Finite alphabets shared by the numerical checks: points of the Klein ball, ideal directions,
composite shapes, homogeneous rescalings.  Deterministic; VERIF_SEED only selects one of a
family of generic lattice offsets (never sampling)."""
import itertools
import math

import numpy as np

LAMBDAS = [1.0, -1.0, 2.5, -0.3]
_ALPHA = [math.sqrt(2), math.sqrt(3), math.sqrt(5), math.sqrt(7), math.sqrt(11), math.sqrt(13)]


def _frac(x):
    return x - math.floor(x)


def generic_dir(n, k, seed=0):
    """k-th direction of an irrational (Kronecker) lattice on the cube, projected to the sphere."""
    off = 0.137 * (seed % 97)
    v = np.array([_frac((k + 1) * _ALPHA[i] + off * (i + 1)) - 0.5 for i in range(n)])
    if np.linalg.norm(v) < 0.05:
        v = v + 0.3
    return v / np.linalg.norm(v)


def klein_points(n, m_generic=6, seed=0, rmax=0.9):
    """CORNER(n) + GENERIC(n): list of float Klein coordinate vectors with |k| <= rmax."""
    pts = [np.zeros(n)]
    for i in range(n):
        for s in (0.5, -0.5):
            e = np.zeros(n)
            e[i] = s
            pts.append(e)
    pts.append(0.6 * np.ones(n) / math.sqrt(n))
    mixed = np.ones(n)
    mixed[::2] = -1.0
    pts.append(0.6 * mixed / math.sqrt(n))
    e = np.zeros(n)
    e[0] = rmax
    pts.append(e)
    radii = [0.1, 0.35, 0.6, 0.8, rmax, 0.5, 0.25, 0.7]
    for k in range(m_generic):
        pts.append(radii[k % len(radii)] * generic_dir(n, k, seed))
    # de-duplicate (n = 1 has coincidences)
    out = []
    for p in pts:
        if not any(np.allclose(p, q) for q in out):
            out.append(p)
    return out


def ideal_dirs(n, m_generic=4, seed=0, avoid_infinity=0.2):
    """Unit vectors of R^n (ideal points in Klein/Poincare coordinates), at angle >= avoid_infinity
    from e1 (the half-space point at infinity) when avoid_infinity > 0."""
    ds = []
    for i in range(n):
        for s in (1.0, -1.0):
            e = np.zeros(n)
            e[i] = s
            ds.append(e)
    if n >= 2:
        d = np.ones(n) / math.sqrt(n)
        ds.append(d)
        d2 = d.copy()
        d2[0] = -d2[0]
        ds.append(d2)
    for k in range(m_generic):
        ds.append(generic_dir(n, 100 + k, seed))
    out = []
    for d in ds:
        if avoid_infinity > 0 and n >= 1:
            e1 = np.zeros(n)
            e1[0] = 1.0
            if math.acos(max(-1.0, min(1.0, float(d @ e1)))) < avoid_infinity:
                continue
        if not any(np.allclose(d, q) for q in out):
            out.append(d)
    return out


def shapes(max_rank=3, sizes=(1, 2, 3)):
    out = []
    for r in range(max_rank + 1):
        out.extend(itertools.product(sizes, repeat=r))
    return out


SHAPES_QUICK = [s for s in shapes(2)] + [(2, 1, 3), (1, 1, 1), (3, 2, 2)]


def tile(units, shape):
    """Array of the given composite shape whose entries cycle through `units` (each an ndarray of
    a common unit shape); consecutive entries are distinct."""
    units = [np.asarray(u, dtype=float) for u in units]
    n = int(np.prod(shape)) if len(shape) else 1
    flat = np.stack([units[i % len(units)] for i in range(n)])
    return flat.reshape(tuple(shape) + units[0].shape)
