"""./check Cxx --tier quick|thorough [--replay file]"""
import argparse
import importlib
import os
import sys


def main():
    ap = argparse.ArgumentParser()
    ap.add_argument("prop")
    ap.add_argument("--tier", default=os.environ.get("VERIF_TIER", "quick"), choices=["quick", "thorough"])
    ap.add_argument("--replay")
    ap.add_argument("--only", help="comma-separated section-name prefixes to run (debugging)")
    a = ap.parse_args()
    seed = int(os.environ.get("VERIF_SEED", "0") or 0)
    import geometry_tools
    src = os.path.realpath(os.path.dirname(geometry_tools.__file__))
    want = os.environ.get("VERIF_REPO", "/repo")
    if not src.startswith(os.path.realpath(want) + os.sep):
        print("HARNESS-ERROR: geometry_tools imported from %s, expected under %s" % (src, want))
        return 2
    from mc import core
    prop = a.prop.upper()
    if a.replay:
        return core.replay(prop, a.replay)
    mod = importlib.import_module("checks." + prop.lower())
    ctx = core.Ctx(prop, a.tier, seed)
    ctx.only = a.only.split(",") if a.only else None
    try:
        mod.run(ctx)
    finally:
        ctx.close()
    return core.finish(ctx)


if __name__ == "__main__":
    try:
        rc = main()
    except SystemExit:
        raise
    except BaseException:            # a crash of the harness is never a verdict about the property
        import traceback
        traceback.print_exc()
        print("HARNESS-ERROR: the check crashed (exit 2); this is not a violation report")
        rc = 2
    sys.exit(rc)
