"""Plane reference geometry for C19 (what is drawn is the object), dimension 2 only.
NumPy only; never imports geometry_tools or matplotlib.

Points are handled in Klein coordinates k (|k| <= 1); a drawing transform is a 3x3 matrix M acting
on column vectors (1, k) of R^(2,1).  Model coordinates come from mc/oracle/hyp.py.

  * geodesic_circle: the Euclidean circle carrying the geodesic through two points, from the
    textbook description of each model (Poincare disc: the circle orthogonal to the unit circle,
    whose centre is the pole n/h of the Klein chord {x.n = h}; half-plane: the circle centred on
    the boundary line through both points), independent of the library's midpoint/inversion route.
  * line_distance / edge_excess: closed-form hyperbolic distance of a point from a geodesic line
    (sinh d = |<x,n>| for the unit Minkowski normal n) and the metric betweenness defect
    d(A,x) + d(x,B) - d(A,B).
  * horocycle / busemann: the circle tangent to the boundary at the centre through the reference
    point, and the Busemann function that is constant on it.
"""
import math

import numpy as np

from mc.oracle import hyp

TWO_PI = 2.0 * math.pi
E1 = np.array([1.0, 0.0])          # Klein/Poincare coordinates of the half-plane's point at infinity


def rot(a):
    c, s = math.cos(a), math.sin(a)
    return np.array([[1.0, 0.0, 0.0], [0.0, c, -s], [0.0, s, c]])


def boost(t):
    c, s = math.cosh(t), math.sinh(t)
    return np.array([[c, s, 0.0], [s, c, 0.0], [0.0, 0.0, 1.0]])


def apply_klein(M, k):
    """Klein coordinates of the image of the (possibly ideal) Klein point(s) k under x -> M x."""
    k = np.asarray(k, dtype=float)
    x = np.concatenate([np.ones(k.shape[:-1] + (1,)), k], axis=-1)
    y = x @ np.asarray(M, dtype=float).T
    return y[..., 1:] / y[..., :1]


def model_coords(model, k):
    """Model coordinates of Klein point(s) k (klein / poincare / halfspace)."""
    return hyp.klein_to(model, np.asarray(k, dtype=float))


def is_infinity(k, tol=1e-12):
    """Is the Klein point k the half-plane's point at infinity (1,0)?"""
    k = np.asarray(k, dtype=float)
    return bool(np.linalg.norm(k - E1) <= tol)


def angle_from_infinity(k):
    """Angle at the origin between the ideal Klein point k and the point at infinity."""
    k = np.asarray(k, dtype=float)
    return abs(math.atan2(k[1], k[0]))


# ----------------------------------------------------------------------------------------------
# geodesics
# ----------------------------------------------------------------------------------------------
def geodesic_circle(model, ka, kb):
    """(centre, radius) of the circle carrying the geodesic through the Klein points ka, kb
    (interior or ideal, distinct) in `model` (poincare or halfspace).  (None, inf) when the
    geodesic is a straight line of the model (a diameter; a vertical line)."""
    ka = np.asarray(ka, dtype=float)
    kb = np.asarray(kb, dtype=float)
    if model == "poincare":
        d = kb - ka
        n = np.array([-d[1], d[0]]) / math.hypot(d[0], d[1])
        h = float(n @ ka)
        if h < 0:
            n, h = -n, -h
        if h < 1e-300:
            return None, math.inf
        r2 = 1.0 / (h * h) - 1.0
        if not math.isfinite(r2):
            return None, math.inf
        return n / h, math.sqrt(max(r2, 0.0))
    if model == "halfspace":
        if is_infinity(ka) or is_infinity(kb):
            return None, math.inf
        A = hyp.klein_to("halfspace", ka)
        B = hyp.klein_to("halfspace", kb)
        dx = B[0] - A[0]
        if dx == 0.0:
            return None, math.inf
        with np.errstate(over="ignore", divide="ignore", invalid="ignore"):
            cx = (float(B @ B) - float(A @ A)) / (2.0 * dx)
            r = math.hypot(A[0] - cx, A[1])
        if not (math.isfinite(cx) and math.isfinite(r)):
            return None, math.inf
        return np.array([cx, 0.0]), r
    raise ValueError(model)


def ccw_delta(t0, t1):
    """Length in [0, 2 pi) of the counter-clockwise sweep from angle t0 to angle t1."""
    d = math.fmod(t1 - t0, TWO_PI)
    if d < 0.0:
        d += TWO_PI
    return d


def angle_diff(a, b):
    """|a - b| modulo 2 pi, in [0, pi]."""
    d = ccw_delta(a, b)
    return min(d, TWO_PI - d)


def inside_arc_angles(model, c, A, B):
    """(theta1, theta2) in radians such that the counter-clockwise arc from theta1 to theta2 of the
    circle centred c is the piece of the geodesic between the model points A and B: in the disc the
    arc shorter than a half circle, in the half-plane the upper arc (right end first)."""
    ta = math.atan2(A[1] - c[1], A[0] - c[0])
    tb = math.atan2(B[1] - c[1], B[0] - c[0])
    if model == "poincare":
        return (ta, tb) if ccw_delta(ta, tb) < math.pi else (tb, ta)
    if model == "halfspace":
        # both angles lie in [0, pi] up to rounding at the boundary
        return (ta, tb) if math.cos(ta) >= math.cos(tb) else (tb, ta)
    raise ValueError(model)


def hyperboloid_vec(model, x):
    """(1, klein coordinates) of the model point(s) x (..., 2): timelike vectors of R^(2,1)."""
    k = hyp.to_klein(model, np.asarray(x, dtype=float))
    return np.concatenate([np.ones(k.shape[:-1] + (1,)), k], axis=-1)


def mink_normal(u, v):
    """Vector Minkowski-orthogonal to u and v in R^(2,1): J (u x v)."""
    c = np.cross(u, v)
    return np.array([-c[0], c[1], c[2]])


def line_distance(model, A, B, X):
    """Hyperbolic distance of the model point(s) X (..., 2) from the full geodesic line through the
    model points A and B (closed form: sinh d = |<x,n>| / sqrt(<n,n> |<x,x>|), n the Minkowski
    normal of the plane spanned by A and B).  inf for points that are not inside the model."""
    a, b = hyperboloid_vec(model, A), hyperboloid_vec(model, B)
    p = hyperboloid_vec(model, X)
    n = mink_normal(a, b)
    nn = float(hyp.mink(n, n))
    pp = hyp.mink(p, p)
    with np.errstate(invalid="ignore", divide="ignore"):
        d = np.arcsinh(np.abs(hyp.mink(p, n)) / np.sqrt(nn * (-pp)))
    return np.where((pp < 0.0) & (nn > 0.0), d, np.inf)


def edge_excess(model, A, B, X):
    """d(A,x) + d(x,B) - d(A,B) in the closed-form metric of the model (0 iff x on the edge),
    for the model point(s) X (..., 2)."""
    X = np.asarray(X, dtype=float)
    A = np.asarray(A, dtype=float)
    B = np.asarray(B, dtype=float)
    with np.errstate(invalid="ignore", divide="ignore"):
        return (hyp.dist_in_model(model, A, X) + hyp.dist_in_model(model, X, B)
                - hyp.dist_in_model(model, A, B))


def inside(model, X):
    """Boolean (array): the model point(s) X lie strictly inside the model's region."""
    X = np.asarray(X, dtype=float)
    if model in ("poincare", "klein"):
        return np.sum(X * X, axis=-1) < 1.0
    if model == "halfspace":
        return X[..., 1] > 0.0
    raise ValueError(model)


def conformal_bound(model, X, delta):
    """Upper bound of the conformal factor (hyperbolic length / Euclidean length) on the Euclidean
    ball of radius delta around each model point of X (..., 2); nan where that ball leaves the
    model."""
    X = np.asarray(X, dtype=float)
    with np.errstate(invalid="ignore", divide="ignore"):
        if model == "poincare":
            rr = np.sqrt(np.sum(X * X, axis=-1)) + delta
            return np.where(rr < 1.0, 2.0 / (1.0 - rr * rr), np.nan)
        if model == "halfspace":
            y = X[..., 1] - delta
            return np.where(y > 0.0, 1.0 / y, np.nan)
    raise ValueError(model)


def dist_to_segment(x, A, B):
    """Euclidean distance of x from the straight segment [A, B]."""
    x, A, B = (np.asarray(v, dtype=float) for v in (x, A, B))
    d = B - A
    dd = float(d @ d)
    s = 0.0 if dd == 0.0 else min(1.0, max(0.0, float((x - A) @ d) / dd))
    return float(np.linalg.norm(x - A - s * d))


def circle_arc_residual(c, r, A, B, x):
    """(radial distance of x from the circle (c, r); overshoot of x beyond the end points A, B
    measured along the chord direction, 0 when between them).  Valid for arcs below a half turn."""
    x, A, B, c = (np.asarray(v, dtype=float) for v in (x, A, B, c))
    rad = abs(float(np.linalg.norm(x - c)) - r)
    d = B - A
    L = float(np.linalg.norm(d))
    s = float((x - A) @ d) / L
    over = max(0.0, -s, s - L)
    return rad, over


# ----------------------------------------------------------------------------------------------
# horocycles
# ----------------------------------------------------------------------------------------------
def horocycle(model, kxi, kp):
    """Circle (centre, radius) of the horocycle centred at the ideal Klein point kxi through the
    interior Klein point kp: tangent to the model's boundary at the centre.  Half-plane with the
    centre at infinity: (None, inf) - the horizontal line through the reference point."""
    kxi = np.asarray(kxi, dtype=float)
    kxi = kxi / np.linalg.norm(kxi)
    if model == "poincare":
        p = hyp.klein_to_poincare(kp)
        r = float((p - kxi) @ (p - kxi)) / (2.0 * (1.0 - float(p @ kxi)))
        return (1.0 - r) * kxi, r
    if model == "halfspace":
        if is_infinity(kxi):
            return None, math.inf
        a = hyp.klein_to("halfspace", kxi)[0]
        p = hyp.klein_to("halfspace", kp)
        r = ((p[0] - a) ** 2 + p[1] ** 2) / (2.0 * p[1])
        return np.array([a, r]), float(r)
    raise ValueError(model)


def busemann(model, kxi, x):
    """Busemann function of the ideal Klein point kxi at the model point x (up to the additive
    constant fixed by the formula); constant exactly on the horocycles centred at kxi."""
    kxi = np.asarray(kxi, dtype=float)
    kxi = kxi / np.linalg.norm(kxi)
    x = np.asarray(x, dtype=float)
    if model == "poincare":
        return math.log(float((x - kxi) @ (x - kxi)) / (1.0 - float(x @ x)))
    if model == "halfspace":
        if is_infinity(kxi):
            return -math.log(float(x[1]))
        a = hyp.klein_to("halfspace", kxi)[0]
        return math.log(((x[0] - a) ** 2 + x[1] ** 2) / x[1])
    raise ValueError(model)


def horocycle_point(kxi, kp, turn):
    """Klein coordinates of the point of the horocycle (centre kxi, through kp) obtained from kp by
    turning by `turn` radians about the Euclidean centre of the horocycle's Poincare circle."""
    c, r = horocycle("poincare", kxi, kp)
    p = hyp.klein_to_poincare(kp)
    t = math.atan2(p[1] - c[1], p[0] - c[0]) + turn
    q = c + r * np.array([math.cos(t), math.sin(t)])
    return hyp.poincare_to_klein(q)


# ----------------------------------------------------------------------------------------------
# projective plane
# ----------------------------------------------------------------------------------------------
def affine_chart(x, i):
    """Affine coordinates of the projective point(s) x (…,3) in the standard chart x_i = 1."""
    x = np.asarray(x, dtype=float)
    keep = [j for j in range(x.shape[-1]) if j != i]
    return x[..., keep] / x[..., i:i + 1]
