"""Reference model for group representations and the Lie-group functors (C05, C17).

Independent of geometry_tools (numpy + fractions only).  Everything is written from the
textbook definitions:

* a word is a tuple/list of generator *names*; the inverse of a name is the case-swapped name;
* a representation is a dict name -> matrix, the inverse name carrying the exact inverse
  (adjugate formula, integer arithmetic for integer matrices);
* the value of a word is the left-to-right product of its letters, starting from the identity;
* Kronecker product, dual (inverse transpose), symmetric square (action on the monomials
  e_i e_j, i <= j), GL(n)/SL(n) adjoint (matrix of X -> g X g^-1 in the elementary-matrix
  basis), realification, block inclusion, symmetric powers of 2x2 matrices (action on binary
  forms, by polynomial multiplication), SL(2,C) acting on Hermitian matrices;
* the Fox derivative by its defining recursion D(uv) = D(u) + u D(v) on the group ring of the
  free group, stored as dict reduced-word(tuple) -> int.
"""
import itertools
from fractions import Fraction

import numpy as np


# ------------------------------------------------------------------------------------------
# words
# ------------------------------------------------------------------------------------------
def inv_name(g):
    """Inverse of a generator name: lower-case name <-> upper-case name."""
    return g.upper() if g == g.lower() else g.lower()


def free_reduce(word):
    """Free reduction (cancel adjacent x x^-1 until none is left); returns a tuple."""
    out = []
    for x in word:
        if out and out[-1] == inv_name(x):
            out.pop()
        else:
            out.append(x)
    return tuple(out)


def formal_inverse(word):
    return tuple(inv_name(x) for x in reversed(list(word)))


def all_words(letters, maxlen):
    """All words (tuples) of length <= maxlen over `letters`, by length then lexicographic."""
    letters = list(letters)
    for k in range(maxlen + 1):
        for w in itertools.product(letters, repeat=k):
            yield w


def substitute(word, table):
    """Image of `word` under the free-group homomorphism name -> word given by `table`
    (inverse names are sent to formal inverses)."""
    out = []
    for x in word:
        if x in table:
            out.extend(table[x])
        else:
            out.extend(formal_inverse(table[inv_name(x)]))
    return tuple(out)


# ------------------------------------------------------------------------------------------
# exact linear algebra on small matrices
# ------------------------------------------------------------------------------------------
def _is_integral(M):
    M = np.asarray(M)
    if M.dtype.kind in "iu":
        return True
    if M.dtype.kind == "f":
        return bool(np.all(M == np.round(M)))
    if M.dtype.kind == "c":
        return bool(np.all(M.real == np.round(M.real)) and np.all(M.imag == np.round(M.imag)))
    return False


def _det_py(rows):
    """Determinant by cofactor expansion along the first row (python numbers, exact for
    int / Fraction / Gaussian integers held as python complex with small entries)."""
    n = len(rows)
    if n == 0:
        return 1
    if n == 1:
        return rows[0][0]
    tot = 0
    for j in range(n):
        if rows[0][j] == 0:
            continue
        minor = [r[:j] + r[j + 1:] for r in rows[1:]]
        tot = tot + (-1) ** j * rows[0][j] * _det_py(minor)
    return tot


def det(M):
    M = np.asarray(M)
    return _det_py([list(r) for r in M.tolist()])


def det_int(M):
    """Exact determinant of an integer-valued matrix (python ints)."""
    rows = [[int(round(x)) for x in r] for r in np.asarray(M).tolist()]
    return _det_py(rows)


def inverse(M):
    """Inverse by the adjugate formula inv = adj / det.  Integer-valued real matrices are
    inverted in exact rational arithmetic; the result has an integer dtype iff the input has one
    and the inverse is integral, else float64 / complex128."""
    M = np.asarray(M)
    n = M.shape[0]
    if M.dtype.kind in "iu" or (M.dtype.kind == "f" and _is_integral(M)):
        rows = [[Fraction(int(x)) for x in r] for r in M.tolist()]
    else:
        rows = [list(r) for r in M.tolist()]
    d = _det_py(rows)
    if d == 0:
        raise ZeroDivisionError("singular matrix in the oracle")
    adj = [[None] * n for _ in range(n)]
    for i in range(n):
        for j in range(n):
            minor = [r[:j] + r[j + 1:] for k, r in enumerate(rows) if k != i]
            adj[j][i] = (-1) ** (i + j) * _det_py(minor)
    inv = [[adj[i][j] / d for j in range(n)] for i in range(n)]
    if isinstance(d, Fraction):
        if all(x.denominator == 1 for r in inv for x in r) and M.dtype.kind in "iu":
            return np.array([[int(x) for x in r] for r in inv], dtype=M.dtype)
        return np.array([[float(x) for x in r] for r in inv], dtype="float64")
    return np.array(inv, dtype=M.dtype)


def identity(n):
    return np.identity(n, dtype="int64")


def matmul(A, B):
    return A @ B


# ------------------------------------------------------------------------------------------
# the representation model
# ------------------------------------------------------------------------------------------
class RepModel:
    """name -> matrix, insertion ordered like a generator table."""

    def __init__(self, gens=None, dim=None):
        self.gens = dict(gens or {})
        self.dim = dim

    def copy(self):
        return RepModel(self.gens, self.dim)

    def assign(self, g, M):
        M = np.asarray(M)
        if self.dim is None:
            self.dim = M.shape[0]
        self.gens[g] = M
        self.gens[inv_name(g)] = inverse(M)
        return self

    def letters(self):
        return list(self.gens.keys())

    def lower_names(self):
        return [g for g in self.gens if g == g.lower()]

    def value(self, word):
        out = identity(self.dim)
        for x in word:
            out = out @ self.gens[x]
        return out

    def table(self, maxlen, letters=None):
        """dict word(tuple) -> matrix for all words of length <= maxlen (prefix products)."""
        letters = self.letters() if letters is None else list(letters)
        tab = {(): identity(self.dim)}
        level = [()]
        for _ in range(maxlen):
            nxt = []
            for w in level:
                for x in letters:
                    wx = w + (x,)
                    tab[wx] = tab[w] @ self.gens[x]
                    nxt.append(wx)
            level = nxt
        return tab

    def integral(self):
        return all(_is_integral(M) for M in self.gens.values())

    def key(self):
        return repr([(g, str(M.dtype), M.tolist()) for g, M in self.gens.items()])


# ------------------------------------------------------------------------------------------
# functors (all accept a single square matrix)
# ------------------------------------------------------------------------------------------
def kron(A, B):
    """(A (x) B)[i*q+k, j*q+l] = A[i,j] B[k,l] for B of size q."""
    A, B = np.asarray(A), np.asarray(B)
    p, q = A.shape[0], B.shape[0]
    out = np.zeros((p * q, p * q), dtype=np.result_type(A, B))
    for i in range(p):
        for j in range(p):
            for k in range(q):
                for l in range(q):
                    out[i * q + k, j * q + l] = A[i, j] * B[k, l]
    return out


def kron_stack(As, Bs):
    """Vectorised kron over a leading axis (same index convention as `kron`)."""
    As, Bs = np.asarray(As), np.asarray(Bs)
    N, p, q = As.shape[0], As.shape[-1], Bs.shape[-1]
    return np.einsum("nij,nkl->nikjl", As, Bs).reshape(N, p * q, p * q)


def dual(M):
    return inverse(M).T


def sym_pairs(n):
    """Monomial basis of Sym^2: pairs (i, j), i <= j, in lexicographic order."""
    return [(i, j) for i in range(n) for j in range(i, n)]


def sym2(M):
    """Matrix of Sym^2(M) in the monomial basis e_i e_j (i <= j, lexicographic):
    e_i e_j -> (M e_i)(M e_j) = sum_{k,l} M[k,i] M[l,j] e_k e_l."""
    M = np.asarray(M)
    n = M.shape[0]
    pairs = sym_pairs(n)
    out = np.zeros((len(pairs), len(pairs)), dtype=np.result_type(M, np.int64))
    for c, (i, j) in enumerate(pairs):
        for r, (p, q) in enumerate(pairs):
            if p == q:
                out[r, c] = M[p, i] * M[p, j]
            else:
                out[r, c] = M[p, i] * M[q, j] + M[q, i] * M[p, j]
    return out


def gl_adjoint(M, Minv=None):
    """Matrix of X -> M X M^-1 on n x n matrices in the basis E_ij at position i*n+j:
    (M E_ij M^-1)[k,l] = M[k,i] Minv[j,l]."""
    M = np.asarray(M)
    n = M.shape[0]
    if Minv is None:
        Minv = inverse(M)
    out = np.zeros((n * n, n * n), dtype=np.result_type(M, Minv))
    for i in range(n):
        for j in range(n):
            for k in range(n):
                for l in range(n):
                    out[k * n + l, i * n + j] = M[k, i] * Minv[j, l]
    return out


def gl_adjoint_stack(Ms, Minvs):
    Ms, Minvs = np.asarray(Ms), np.asarray(Minvs)
    N, n = Ms.shape[0], Ms.shape[-1]
    # out[k,l,i,j] = M[k,i] Minv[j,l]
    return np.einsum("nki,njl->nklij", Ms, Minvs).reshape(N, n * n, n * n)


def sl_basis(n):
    """Basis of traceless matrices: E_ij (i != j) and E_ii - E_(n-1)(n-1), at position i*n+j,
    (i,j) != (n-1,n-1)."""
    out = []
    for i in range(n):
        for j in range(n):
            if (i, j) == (n - 1, n - 1):
                continue
            B = np.zeros((n, n), dtype="int64")
            B[i, j] = 1
            if i == j:
                B[n - 1, n - 1] = -1
            out.append(B)
    return out


def sl_coords(X):
    """Coordinates of a traceless matrix in `sl_basis`: all entries but the last."""
    X = np.asarray(X)
    return X.reshape(X.shape[:-2] + (-1,))[..., :-1]


def sl_adjoint(M, Minv=None):
    M = np.asarray(M)
    n = M.shape[0]
    if Minv is None:
        Minv = inverse(M)
    cols = [sl_coords(M @ B @ Minv) for B in sl_basis(n)]
    return np.stack(cols, axis=-1)


def sl_adjoint_stack(Ms, Minvs):
    Ms, Minvs = np.asarray(Ms), np.asarray(Minvs)
    n = Ms.shape[-1]
    cols = [sl_coords(Ms @ B @ Minvs) for B in sl_basis(n)]
    return np.stack(cols, axis=-1)


def sl_trace_form(n):
    """Gram matrix tr(B_p B_q) of the trace form on `sl_basis(n)` (a multiple of the Killing
    form)."""
    bs = sl_basis(n)
    return np.array([[int(np.trace(p @ q)) for q in bs] for p in bs], dtype="int64")


def realify(M):
    """C^n -> R^2n, z = x + iy -> (x, y):  [[Re, -Im], [Im, Re]]."""
    M = np.asarray(M)
    re, im = np.real(M), np.imag(M)
    top = np.concatenate([re, -im], axis=-1)
    bot = np.concatenate([im, re], axis=-1)
    return np.concatenate([top, bot], axis=-2)


def block_include(M, N):
    """diag(M, I_(N-n))."""
    M = np.asarray(M)
    n = M.shape[-1]
    out = np.zeros(M.shape[:-2] + (N, N), dtype=M.dtype)
    out[..., :n, :n] = M
    for k in range(n, N):
        out[..., k, k] = 1
    return out


def _polymul(p, q):
    out = [0] * (len(p) + len(q) - 1)
    for i, x in enumerate(p):
        for j, y in enumerate(q):
            out[i + j] = out[i + j] + x * y
    return out


def sym_power(A, n):
    """Action of the 2x2 matrix A = [[a,b],[c,d]] on binary forms of degree r = n-1 in the
    monomial basis m_k = e1^k e2^(r-k), k = 0..r, where e1 -> a e1 + c e2, e2 -> b e1 + d e2.
    Column k holds the coefficients of (a t + c)^k (b t + d)^(r-k) in powers of t = e1/e2.
    Python numbers throughout (exact for ints)."""
    (a, b), (c, d) = np.asarray(A).tolist()
    r = n - 1
    cols = []
    for k in range(n):
        p = [1]
        for _ in range(k):
            p = _polymul(p, [c, a])
        for _ in range(r - k):
            p = _polymul(p, [d, b])
        cols.append(p)
    return [[cols[k][j] for k in range(n)] for j in range(n)]


HERM_BASIS = [np.array([[1, 0], [0, 0]], dtype=complex), np.array([[0, 0], [0, 1]], dtype=complex),
              np.array([[0, 1], [1, 0]], dtype=complex), np.array([[0, 1j], [-1j, 0]], dtype=complex)]


def herm_coords(X):
    """Real coordinates of a Hermitian 2x2 matrix in HERM_BASIS."""
    return np.array([X[0, 0].real, X[1, 1].real, X[0, 1].real, X[0, 1].imag])


def herm_action(g):
    """Matrix of X -> g X g^* on Hermitian 2x2 matrices in HERM_BASIS."""
    g = np.asarray(g, dtype=complex)
    return np.stack([herm_coords(g @ B @ g.conj().T) for B in HERM_BASIS], axis=-1)


def herm_action_stack(gs):
    """`herm_action` over a leading axis."""
    gs = np.asarray(gs, dtype=complex)
    cols = []
    for B in HERM_BASIS:
        X = gs @ B @ gs.conj().swapaxes(-1, -2)
        cols.append(np.stack([X[..., 0, 0].real, X[..., 1, 1].real, X[..., 0, 1].real, X[..., 0, 1].imag], axis=-1))
    return np.stack(cols, axis=-1)


def herm_det_form():
    """Polarisation of det on Hermitian matrices: B(X,Y) = (det(X+Y) - det X - det Y)/2."""
    def d(X):
        return (X[0, 0] * X[1, 1] - X[0, 1] * X[1, 0]).real
    return np.array([[(d(X + Y) - d(X) - d(Y)) / 2 for Y in HERM_BASIS] for X in HERM_BASIS])


# ------------------------------------------------------------------------------------------
# Fox calculus
# ------------------------------------------------------------------------------------------
def ring_add(x, y, sign=1):
    out = dict(x)
    for w, c in y.items():
        out[w] = out.get(w, 0) + sign * c
        if out[w] == 0:
            del out[w]
    return out


def ring_left_mul(u, x):
    out = {}
    for w, c in x.items():
        k = free_reduce(tuple(u) + tuple(w))
        out[k] = out.get(k, 0) + c
        if out[k] == 0:
            del out[k]
    return out


def fox(g, word):
    """Fox derivative d(word)/d(g) in Z[F]:  D(1) = 0, D(g) = 1, D(g^-1) = -g^-1,
    D(h) = 0 for the other letters, D(uv) = D(u) + u D(v) (split in the middle)."""
    word = tuple(word)
    if len(word) == 0:
        return {}
    if len(word) == 1:
        if word[0] == g:
            return {(): 1}
        if word[0] == inv_name(g):
            return {word: -1}
        return {}
    m = len(word) // 2
    u, v = word[:m], word[m:]
    return ring_add(fox(g, u), ring_left_mul(u, fox(g, v)))


def ring_value(model, x):
    """Image of a group-ring element under the linear extension of the representation."""
    out = np.zeros((model.dim, model.dim), dtype="int64")
    for w, c in sorted(x.items()):
        out = out + c * model.value(w)
    return out
