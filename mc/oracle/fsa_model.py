"""Reference model of a finite-state automaton: (V: frozenset, E: frozenset of (u, v, label)).

Pure Python, imports nothing from geometry_tools.  Everything is a set comprehension or an
explicit path enumeration.
"""
import itertools


class M:
    __slots__ = ("V", "E")

    def __init__(self, V=(), E=()):
        self.V = frozenset(V)
        self.E = frozenset(tuple(e) for e in E)

    def copy(self):
        return M(self.V, self.E)

    def key(self):
        return (tuple(sorted(self.V, key=repr)), tuple(sorted(self.E, key=repr)))

    # ---- construction -------------------------------------------------------------
    @staticmethod
    def from_label_dict(d):
        """d: vertex -> {label: target}; targets not listed as keys become vertices."""
        V = set(d)
        E = set()
        for u, nb in d.items():
            for l, v in nb.items():
                V.add(v)
                E.add((u, v, l))
        return M(V, E)

    @staticmethod
    def from_out_dict(d):
        """d: vertex -> {target: [labels]}; only keys are vertices (library semantics:
        the target->labels route does not add unlisted targets; our alphabets always list
        every vertex as a key)."""
        V = set(d)
        E = set()
        for u, nb in d.items():
            for v, ls in nb.items():
                for l in ls:
                    E.add((u, v, l))
        return M(V, E)

    def label_dict(self):
        d = {v: {} for v in self.V}
        for (u, v, l) in self.E:
            d[u][l] = v
        return d

    def out_dict(self):
        d = {v: {} for v in self.V}
        for (u, v, l) in sorted(self.E, key=repr):
            d[u].setdefault(v, []).append(l)
        return d

    # ---- predicates ---------------------------------------------------------------
    def deterministic(self):
        seen = {}
        for (u, v, l) in self.E:
            if seen.setdefault((u, l), v) != v:
                return False
        return True

    def target(self, u, l):
        for (a, b, m) in self.E:
            if a == u and m == l:
                return b
        return None

    # ---- edits ----------------------------------------------------------------------
    def add_vertices(self, vs):
        return M(self.V | set(vs), self.E)

    def add_edges(self, edges):
        V = set(self.V)
        E = set(self.E)
        for (u, v, l) in edges:
            V.add(u)
            V.add(v)
            E.add((u, v, l))
        return M(V, E)

    def delete_vertices(self, vs):
        vs = set(vs)
        return M(self.V - vs, {e for e in self.E if e[0] not in vs and e[1] not in vs})

    def recurrent(self):
        """Greatest fixpoint of 'has an incoming and an outgoing edge'."""
        m = self
        while True:
            bad = {v for v in m.V
                   if not any(e[0] == v for e in m.E) or not any(e[1] == v for e in m.E)}
            if not bad:
                return m
            m = m.delete_vertices(bad)

    def rename(self, mp):
        return M(self.V, {(u, v, mp[l]) for (u, v, l) in self.E})

    # ---- language -------------------------------------------------------------------
    def walk(self, word, start):
        """End vertex of the walk reading the sequence `word` of labels, or None."""
        v = start
        for l in word:
            v = self.target(v, l)
            if v is None:
                return None
        return v

    def paths(self, length, start):
        """All (label-sequence, end) of exactly `length` edges from start."""
        out = [((), start)]
        adj = {}
        for (u, v, l) in self.E:
            adj.setdefault(u, []).append((l, v))
        for _ in range(length):
            out = [(w + (l,), v2) for (w, v) in out for (l, v2) in adj.get(v, [])]
        return out

    def dist_from(self, root):
        dist = {root: 0}
        frontier = [root]
        while frontier:
            nxt = []
            for u in frontier:
                for (a, b, l) in self.E:
                    if a == u and b not in dist:
                        dist[b] = dist[u] + 1
                        nxt.append(b)
            frontier = nxt
        return dist


def all_deterministic(k, labels, vertices=None):
    """Every deterministic automaton on vertices 0..k-1 over `labels`: each (vertex, label)
    has no edge or one target.  (k+1)^(k*len(labels)) automata, simplest (fewest edges) first
    within itertools order."""
    vs = list(range(k)) if vertices is None else list(vertices)
    slots = [(u, l) for u in vs for l in labels]
    for choice in itertools.product([None] + vs, repeat=len(slots)):
        E = [(u, t, l) for (u, l), t in zip(slots, choice) if t is not None]
        yield M(vs, E)


# ---- additions for C10 / C06 (language-level oracles) ------------------------------------
def all_words(labels, maxlen, minlen=0):
    """Every sequence (tuple) over `labels` of length minlen..maxlen, shortest first."""
    for n in range(minlen, maxlen + 1):
        for w in itertools.product(labels, repeat=n):
            yield w


def language(m, maxlen, start, exact=False):
    """List of (label-tuple, end vertex) for every path from `start` with <= maxlen edges
    (exactly maxlen edges when exact).  In a deterministic automaton the label tuples are
    pairwise distinct."""
    out = []
    for n in range(maxlen + 1):
        if exact and n != maxlen:
            continue
        out.extend(m.paths(n, start))
    return out


def longest_accepted_prefix(m, word, start):
    v = start
    n = 0
    for l in word:
        v = m.target(v, l)
        if v is None:
            break
        n += 1
    return tuple(word[:n])


def shortest_path_edges(m, root):
    """Edges (u, v, l) with u reachable from root and dist(v) == dist(u) + 1."""
    dist = m.dist_from(root)
    return {(u, v, l) for (u, v, l) in m.E if u in dist and dist.get(v) == dist[u] + 1}, dist


def multiple_model(m, k, starts):
    """The k-step automaton: vertices = closure of `starts` under k-edge paths, edges
    (v, end, label-tuple of the k-edge path).  Labels are tuples of the original labels."""
    V = set()
    E = set()
    todo = list(starts)
    while todo:
        v = todo.pop()
        if v in V:
            continue
        V.add(v)
        for (w, end) in m.paths(k, v):
            E.add((v, end, w))
            if end not in V:
                todo.append(end)
    return M(V, E)


def read_kbmag_table(text):
    """Regex reading of a kbmag word-acceptor file (independent of gap_parse): returns
    (names, table, initial); table[i][j] = target (1-based, 0 = fail) of state i+1 on names[j]."""
    import re
    names = re.search(r"names\s*:=\s*\[([^\]]*)\]", text).group(1)
    names = [n.strip().strip('"') for n in names.split(",") if n.strip()]
    tr = re.search(r"transitions\s*:=\s*\[(.*?)\]\s*\]", text, re.S).group(1) + "]"
    rows = re.findall(r"\[([^\[\]]*)\]", tr)
    table = [[int(x) for x in r.replace(" ", "").split(",") if x.strip() != ""] for r in rows]
    initial = re.search(r"initial\s*:=\s*\[([^\]]*)\]", text).group(1)
    initial = [int(x) for x in initial.split(",") if x.strip()]
    return names, table, initial


def model_of_table(names, table):
    E = [(i + 1, t, names[j]) for i, row in enumerate(table) for j, t in enumerate(row) if t != 0]
    return M(range(1, len(table) + 1), E)


def adjacency(m):
    """u -> {label: target} (fast walks on larger automata)."""
    d = {v: {} for v in m.V}
    for (u, v, l) in m.E:
        d[u][l] = v
    return d


def walk_adj(adj, word, start):
    v = start
    for l in word:
        v = adj.get(v, {}).get(l)
        if v is None:
            return None
    return v


def paths_adj(adj, length, start):
    out = [((), start)]
    for _ in range(length):
        out = [(w + (l,), v2) for (w, v) in out for (l, v2) in sorted(adj.get(v, {}).items(), key=repr)]
    return out
