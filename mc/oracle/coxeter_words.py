"""Reference model for Coxeter groups: words, lengths, normal forms, cosine form.
NumPy only; never imports geometry_tools.

A Coxeter matrix is a symmetric list of lists of ints with 1 on the diagonal; an entry <= 0 means
"infinite order" (the two encodings 0 and negative are identified by `normalize`, which maps them
to INF = 0).  Letters are generator indices 0..n-1, words are tuples of letters.

Two independent solutions of the word problem live here and are compared with each other by the
checks (a disagreement is a harness error, never a library finding):

* `Braid` - Tits' theorem: every word can be brought to a reduced word by braid moves
  (sts.. -> tst.., m_st letters, m_st finite) and deletions of factors ss, never lengthening.  Hence a
  word is reduced iff no word of its braid class (closure under braid moves only, which keep the
  length) contains a factor ss; two reduced words represent the same element iff they are in one braid
  class; the shortlex normal form of the element is the lexicographic minimum of the class.
* `TitsRep` - enumeration of matrices in the (faithful) Tits reflection representation
  sigma_i(v) = v - 2 B(e_i, v) e_i with B_ij = -cos(pi/m_ij) (-1 for infinite m_ij), built here from
  the definition.  The length of an element is the first level of the breadth-first enumeration of
  matrix products at which its matrix appears.
"""
import itertools
import math

import numpy as np

INF = 0


def normalize(m):
    """Coxeter matrix with every infinite label written INF (=0)."""
    return [[(int(x) if int(x) > 0 else INF) for x in row] for row in m]


def is_coxeter_matrix(m):
    n = len(m)
    return all(len(r) == n for r in m) and all(m[i][i] == 1 for i in range(n)) and all(
        m[i][j] == m[j][i] and (m[i][j] <= 0 or m[i][j] >= 2) for i in range(n) for j in range(n) if i != j)


def encode(m, inf_code):
    """Write the infinite labels of a normalized matrix with the integer `inf_code` (0 or negative)."""
    return [[(x if x > 0 else inf_code) for x in row] for row in m]


def has_infinite_label(m):
    return any(x <= 0 for row in m for x in row)


# ----------------------------------------------------------------------------------------------
# cosine form, signature
# ----------------------------------------------------------------------------------------------
def cosine_form(m):
    """B_ij = -cos(pi / m_ij), B_ii = 1, B_ij = -1 for an infinite label."""
    n = len(m)
    B = np.empty((n, n), dtype=float)
    for i in range(n):
        for j in range(n):
            if i == j:
                B[i, j] = 1.0
            elif m[i][j] <= 0:
                B[i, j] = -1.0
            elif m[i][j] == 2:
                B[i, j] = 0.0
            elif m[i][j] == 3:
                B[i, j] = -0.5
            else:
                B[i, j] = -math.cos(math.pi / m[i][j])
    return B


def signature(m, margin=1e-6):
    """(n_positive, n_negative, n_null, clear): eigenvalue signs of the cosine form; `clear` is False
    when some eigenvalue lies in the ambiguous band margin*1e-3 < |ev| <= margin."""
    ev = np.linalg.eigvalsh(cosine_form(m))
    pos = int(np.sum(ev > margin))
    neg = int(np.sum(ev < -margin))
    small = np.abs(ev) <= margin
    clear = bool(np.all(np.abs(ev[small]) <= margin * 1e-3))
    return pos, neg, int(np.sum(small)), clear


def is_spherical(m):
    """Finite group <=> cosine form positive definite."""
    pos, neg, null, clear = signature(m)
    return clear and pos == len(m)


# ----------------------------------------------------------------------------------------------
# Tits' word problem
# ----------------------------------------------------------------------------------------------
class Braid:
    """Braid classes of words of one Coxeter matrix, memoised per word."""

    def __init__(self, m):
        self.m = normalize(m)
        self.n = len(self.m)
        self.memo = {}     # word -> (reduced?, minimum of class, class id)
        self.nclasses = 0

    def neighbours(self, w):
        m = self.m
        L = len(w)
        for i in range(L - 1):
            s, t = w[i], w[i + 1]
            if s == t:
                continue
            k = m[s][t]
            if k == INF or i + k > L:
                continue
            ok = True
            for j in range(k):
                if w[i + j] != (s if j % 2 == 0 else t):
                    ok = False
                    break
            if ok:
                yield w[:i] + tuple((t if j % 2 == 0 else s) for j in range(k)) + w[i + k:]

    def braid_class(self, w):
        w = tuple(w)
        seen = {w}
        todo = [w]
        while todo:
            u = todo.pop()
            for v in self.neighbours(u):
                if v not in seen:
                    seen.add(v)
                    todo.append(v)
        return seen

    def classify(self, w):
        """(reduced?, shortlex minimum of the braid class, class id)."""
        w = tuple(w)
        r = self.memo.get(w)
        if r is None:
            cls = self.braid_class(w)
            red = not any(u[i] == u[i + 1] for u in cls for i in range(len(u) - 1))
            r = (red, min(cls), self.nclasses)
            self.nclasses += 1
            for u in cls:
                self.memo[u] = r
        return r

    def is_reduced(self, w):
        return self.classify(w)[0]

    def normal_form(self, w):
        """Shortlex normal form of a REDUCED word."""
        red, mn, _ = self.classify(w)
        if not red:
            raise ValueError("normal_form of a non-reduced word")
        return mn

    def reduce(self, w):
        """Length of the element of an arbitrary word (repeated ss-deletion inside braid classes)."""
        w = tuple(w)
        while True:
            cls = self.braid_class(w)
            hit = None
            for u in cls:
                for i in range(len(u) - 1):
                    if u[i] == u[i + 1]:
                        hit = u[:i] + u[i + 2:]
                        break
                if hit is not None:
                    break
            if hit is None:
                return min(cls)
            w = hit

    def levels(self, L, cap=None):
        """Breadth-first: list over n=0..L of the reduced words of length n (in shortlex order);
        every one-letter extension of a reduced word is classified.  Stops early when a level is
        empty (finite group).  When the number of reduced words exceeds `cap` the level under
        construction is dropped, `self.capped` is set and the completed levels are returned."""
        out = [[()]]
        total = 1
        self.capped = False
        for n in range(L):
            nxt = []
            for w in out[-1]:
                for s in range(self.n):
                    u = w + (s,)
                    if self.classify(u)[0]:
                        nxt.append(u)
                if cap is not None and total + len(nxt) > cap:
                    self.capped = True
                    return out
            if not nxt:
                break
            total += len(nxt)
            out.append(nxt)
        return out


def growth_from_levels(levels, braid):
    """Number of group elements of each length = number of braid classes per level."""
    return [len({braid.classify(w)[2] for w in lv}) for lv in levels]


# ----------------------------------------------------------------------------------------------
# Tits representation (independent of the braid oracle)
# ----------------------------------------------------------------------------------------------
class TitsRep:
    """sigma_i = I - 2 e_i (B e_i)^T as matrices acting on column vectors (basis of simple roots):
    sigma_i e_j = e_j - 2 B_ij e_i."""

    def __init__(self, m):
        self.m = normalize(m)
        self.n = len(self.m)
        self.B = cosine_form(self.m)
        self.gens = []
        for i in range(self.n):
            S = np.eye(self.n)
            S[i, :] -= 2.0 * self.B[i, :]
            self.gens.append(S)

    def matrix(self, w):
        M = np.eye(self.n)
        for s in w:
            M = M @ self.gens[s]
        return M

    @staticmethod
    def key(M, digits=6):
        # entries are algebraic integers of moderate size for the word lengths used; two distinct
        # elements never came closer than 1e-3 in any enumeration, rounding to 1e-6 separates them
        return tuple(np.round(M, digits).ravel().tolist())

    def levels(self, L, cap=None):
        """list over n of dict key -> matrix of the elements of length exactly n (n <= L);
        stops at an empty level (finite group) or beyond `cap` elements."""
        I = np.eye(self.n)
        seen = {self.key(I)}
        out = [{self.key(I): I}]
        total = 1
        for n in range(L):
            nxt = {}
            for M in out[-1].values():
                for S in self.gens:
                    P = M @ S
                    k = self.key(P)
                    if k in seen:
                        continue
                    seen.add(k)
                    nxt[k] = P
            if not nxt:
                break
            out.append(nxt)
            total += len(nxt)
            if cap is not None and total > cap:
                break
        return out

    def length_table(self, L):
        """dict matrix key -> length for all elements of length <= L."""
        return {k: n for n, lv in enumerate(self.levels(L)) for k in lv}


def growth_by_matrices(m, L, cap=None):
    return [len(lv) for lv in TitsRep(m).levels(L, cap=cap)]


def group_order(m, cap=20000):
    """Order of a finite Coxeter group by closure of the matrix enumeration (None if > cap)."""
    lv = TitsRep(m).levels(10 ** 6, cap=cap)
    tot = sum(len(x) for x in lv)
    if tot > cap:
        return None, None
    return tot, [len(x) for x in lv]


# ----------------------------------------------------------------------------------------------
# known growth series (third source, for the self check of the two oracles)
# ----------------------------------------------------------------------------------------------
def poincare_from_degrees(degrees):
    """prod_i (1 + q + ... + q^(d_i - 1)) as a coefficient list."""
    p = [1]
    for d in degrees:
        q = [0] * (len(p) + d - 1)
        for i, a in enumerate(p):
            for j in range(d):
                q[i + j] += a
        p = q
    return p


def path_matrix(labels):
    """Coxeter matrix of the path diagram 0 - 1 - ... - k with the given edge labels."""
    n = len(labels) + 1
    m = [[1 if i == j else 2 for j in range(n)] for i in range(n)]
    for i, l in enumerate(labels):
        m[i][i + 1] = m[i + 1][i] = l
    return m


def star_matrix(labels, centre=0):
    """Coxeter matrix of the star: `centre` joined to every other node with the given labels."""
    n = len(labels) + 1
    m = [[1 if i == j else 2 for j in range(n)] for i in range(n)]
    others = [i for i in range(n) if i != centre]
    for i, l in zip(others, labels):
        m[centre][i] = m[i][centre] = l
    return m


def cycle_matrix(labels):
    n = len(labels)
    m = [[1 if i == j else 2 for j in range(n)] for i in range(n)]
    for i, l in enumerate(labels):
        j = (i + 1) % n
        m[i][j] = m[j][i] = l
    return m


def permute(m, perm):
    """Matrix of the same group with generator i renamed perm[i]."""
    n = len(m)
    out = [[None] * n for _ in range(n)]
    for i in range(n):
        for j in range(n):
            out[perm[i]][perm[j]] = m[i][j]
    return out


KNOWN_FINITE = [
    # (name, matrix, degrees)
    ("A1", [[1]], [2]),
    ("A2", path_matrix([3]), [2, 3]),
    ("B2", path_matrix([4]), [2, 4]),
    ("A3", path_matrix([3, 3]), [2, 3, 4]),
    ("B3", path_matrix([3, 4]), [2, 4, 6]),
    ("H3", path_matrix([3, 5]), [2, 6, 10]),
    ("A1xA1xA1", path_matrix([2, 2]), [2, 2, 2]),
    ("A4", path_matrix([3, 3, 3]), [2, 3, 4, 5]),
    ("B4", path_matrix([3, 3, 4]), [2, 4, 6, 8]),
    ("D4", star_matrix([3, 3, 3]), [2, 4, 4, 6]),
    ("F4", path_matrix([3, 4, 3]), [2, 6, 8, 12]),
] + [("I2(%d)" % k, path_matrix([k]), [2, k]) for k in range(2, 13)]

# growth series of some infinite groups, written down from the closed forms:
#  free product of n copies of Z/2: 1, n, n(n-1), n(n-1)^2, ...
#  affine A~1 (infinite dihedral): 1,2,2,2,...
#  affine A~2 (3,3,3): 1,3,6,9,12,...  (3n for n>=1)
#  PGL2(Z) ~ (2,3,inf): from 1/f(q) with f the standard alternating sum over finite parabolics.


def growth_rational(m, L):
    """Growth coefficients up to q^L from Steinberg's formula
    1/W(1/q) = sum over spherical subsets T of (-1)^|T| / W_T(q), evaluated as power series, where
    W_T is the Poincare polynomial of the finite parabolic W_T obtained here by matrix enumeration.
    Third independent source (uses neither braid moves nor lengths of W itself beyond finite
    parabolics).  Returns None for finite W (formula is for infinite groups) ."""
    m = normalize(m)
    n = len(m)
    if is_spherical(m):
        return None
    # series arithmetic mod q^(L+1) with Fractions
    from fractions import Fraction

    def inv(p):
        out = [Fraction(0)] * (L + 1)
        out[0] = Fraction(1) / p[0]
        for k in range(1, L + 1):
            s = Fraction(0)
            for j in range(1, min(k, len(p) - 1) + 1):
                s += p[j] * out[k - j]
            out[k] = -s / p[0]
        return out

    # Steinberg: sum_{T subset S, W_T finite} (-1)^|T| / W_T(q^-1) = 1 / W(q)   (for infinite W the
    # usual form is  1/W(q^-1) = sum (-1)^|T| / W_T(q) ); we use the equivalent
    # 1/W(q) = sum_T (-1)^|T| q^{N_T} / W_T(q) with N_T the length of the longest element of W_T.
    total = [Fraction(0)] * (L + 1)
    for k in range(0, n + 1):
        for T in itertools.combinations(range(n), k):
            sub = [[m[i][j] for j in T] for i in T]
            if k > 0 and not is_spherical(sub):
                continue
            if k == 0:
                poly = [1]
            else:
                order, poly = group_order(sub, cap=200000)
                if order is None:
                    return None
            N = len(poly) - 1
            iv = inv([Fraction(c) for c in poly])
            sign = -1 if k % 2 else 1
            for i in range(L + 1 - N):
                total[i + N] += sign * iv[i]
    series = inv(total)
    return [int(x) for x in series]


def selfcheck(m, L, cap=200000):
    """Compare the oracles on one matrix; returns a list of complaint strings (empty = consistent)."""
    m = normalize(m)
    br = Braid(m)
    lv = br.levels(L, cap=cap)
    g1 = growth_from_levels(lv, br)
    tr = TitsRep(m)
    tl = tr.levels(len(lv) - 1)
    g2 = [len(x) for x in tl]
    out = []
    if g1 != g2[:len(g1)] or len(g2) != len(g1):
        out.append("growth by braid classes %r != growth by matrices %r" % (g1, g2))
    table = {k: n for n, x in enumerate(tl) for k in x}
    # same class <=> same matrix, and every classified non-reduced extension has a shorter matrix
    for n, words in enumerate(lv):
        cls_of = {}
        for w in words:
            k = tr.key(tr.matrix(w))
            if table.get(k) != n:
                out.append("reduced word %r has matrix length %r" % (w, table.get(k)))
                break
            c = br.classify(w)[2]
            if cls_of.setdefault(k, c) != c:
                out.append("two braid classes share the matrix of %r" % (w,))
                break
        for w in words:
            for s in range(len(m)):
                u = w + (s,)
                if len(u) > len(tl) - 1:
                    continue
                red = br.classify(u)[0]
                ln = table.get(tr.key(tr.matrix(u)))
                if red != (ln == len(u)):
                    out.append("word %r: braid says reduced=%r, matrix length %r" % (u, red, ln))
                    break
    return out, g1
