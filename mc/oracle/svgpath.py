"""Evaluation of matplotlib `Path` data (vertices + codes) without a renderer.
NumPy only; imports neither matplotlib nor geometry_tools.

A path is the pair (vertices (N,2), codes (N,) or None) with matplotlib's documented code values

    STOP = 0, MOVETO = 1, LINETO = 2, CURVE3 = 3 (1 control + 1 end point),
    CURVE4 = 4 (2 control + 1 end point), CLOSEPOLY = 79 (vertex ignored, line to the last MOVETO).

`pieces` turns it into the list of drawn pieces, each with its full control polygon (start point
included), `bezier` evaluates a piece by de Casteljau's recursion, `sample` gives points of the drawn
curve.  Malformed code sequences raise `PathError` (a curve code without enough vertices, a drawing
code before any MOVETO, an unknown code).
"""
import numpy as np

STOP, MOVETO, LINETO, CURVE3, CURVE4, CLOSEPOLY = 0, 1, 2, 3, 4, 79
_NCTRL = {LINETO: 1, CURVE3: 2, CURVE4: 3}
_KIND = {LINETO: "L", CURVE3: "C3", CURVE4: "C4"}

# 8 parameters per Bezier piece (end points included), as fixed by DESIGN C19
T8 = tuple(j / 7.0 for j in range(8))


class PathError(ValueError):
    pass


class Piece:
    """kind: 'M' (pen moved, nothing drawn), 'L', 'C3', 'C4', 'Z' (closing line);
    ctrl: (k,2) control polygon, ctrl[0] = pen position before the piece, ctrl[-1] = after;
    index: position of the piece's first code in the path."""
    __slots__ = ("kind", "ctrl", "index")

    def __init__(self, kind, ctrl, index):
        self.kind, self.ctrl, self.index = kind, np.asarray(ctrl, dtype=float), index

    @property
    def start(self):
        return self.ctrl[0]

    @property
    def end(self):
        return self.ctrl[-1]

    def drawn(self):
        return self.kind != "M"

    def length_bound(self):
        """Length of the control polygon (an upper bound of the length of the piece)."""
        d = np.diff(self.ctrl, axis=0)
        return float(np.sum(np.sqrt(np.sum(d * d, axis=1))))

    def __repr__(self):
        return "Piece(%s, %s)" % (self.kind, self.ctrl.tolist())


def pieces(vertices, codes=None):
    """List of `Piece`s of the path.  codes=None means MOVETO followed by LINETOs (matplotlib's
    convention)."""
    v = np.asarray(vertices, dtype=float)
    if v.ndim != 2 or v.shape[1] != 2:
        raise PathError("vertices must have shape (N,2), got %r" % (v.shape,))
    n = len(v)
    if codes is None:
        codes = [MOVETO] + [LINETO] * (n - 1) if n else []
    codes = [int(c) for c in np.asarray(codes).ravel()]
    if len(codes) != n:
        raise PathError("%d codes for %d vertices" % (len(codes), n))
    out = []
    pen = None
    start = None
    i = 0
    while i < n:
        c = codes[i]
        if c == STOP:
            break
        if c == MOVETO:
            pen = v[i]
            start = v[i]
            out.append(Piece("M", [pen], i))
            i += 1
            continue
        if pen is None:
            raise PathError("code %d at index %d before any MOVETO" % (c, i))
        if c == CLOSEPOLY:
            out.append(Piece("Z", [pen, start], i))
            pen = start
            i += 1
            continue
        if c not in _NCTRL:
            raise PathError("unknown path code %d at index %d" % (c, i))
        k = _NCTRL[c]
        if i + k > n or any(codes[j] != c for j in range(i, i + k)):
            raise PathError("code %d at index %d needs %d vertices with the same code" % (c, i, k))
        ctrl = np.vstack([pen[None, :], v[i:i + k]])
        out.append(Piece(_KIND[c], ctrl, i))
        pen = v[i + k - 1]
        i += k
    return out


def bezier(ctrl, ts=T8):
    """Points of the Bezier curve with control polygon ctrl (k,2) at parameters ts, by de
    Casteljau's recursion (repeated linear interpolation)."""
    pts = np.asarray(ctrl, dtype=float)
    ts = np.asarray(ts, dtype=float)
    # work[j] = current polygon for parameter ts[j]
    work = np.repeat(pts[None, :, :], len(ts), axis=0)
    t = ts[:, None, None]
    while work.shape[1] > 1:
        work = (1.0 - t) * work[:, :-1, :] + t * work[:, 1:, :]
    return work[:, 0, :]


def sample_piece(piece, ts=T8):
    """Points of one drawn piece at parameters ts (a line is the degree-1 Bezier curve)."""
    if not piece.drawn():
        return np.zeros((0, 2))
    return bezier(piece.ctrl, ts)


def sample(vertices, codes=None, ts=T8):
    """All sampled points of the drawn curve, piece after piece: list of (Piece, points)."""
    return [(p, sample_piece(p, ts)) for p in pieces(vertices, codes) if p.drawn()]


def code_summary(codes):
    """Compact string of the code sequence, e.g. 'MLCCCCCCL' (one letter per vertex)."""
    if codes is None:
        return "None"
    m = {STOP: "S", MOVETO: "M", LINETO: "L", CURVE3: "Q", CURVE4: "C", CLOSEPOLY: "Z"}
    return "".join(m.get(int(c), "?") for c in np.asarray(codes).ravel())
