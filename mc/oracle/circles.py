"""Reference geometry for C14/C15: chords and flats of the Klein ball, the arcs/spheres that carry
them in the conformal models, arc membership.  NumPy only; never imports geometry_tools.

Everything is computed from the textbook description of the Klein model (geodesic subspaces are
the affine flats meeting the open unit ball; their ideal points are the flat's intersection with the
unit sphere) and mapped to the conformal models with the point maps of mc/oracle/hyp.py.
"""
import math

import numpy as np

from mc.oracle import hyp

TWO_PI = 2.0 * math.pi


def chord_ends(a, b):
    """Unit vectors where the Klein line through a and b (distinct points of the closed ball) meets
    the unit sphere: (e_a, e_b) with e_a on a's side and e_b on b's side."""
    a = np.asarray(a, dtype=float)
    b = np.asarray(b, dtype=float)
    d = b - a
    dd = float(d @ d)
    ad = float(a @ d)
    cc = float(a @ a) - 1.0
    disc = max(ad * ad - dd * cc, 0.0)
    s1 = (-ad - math.sqrt(disc)) / dd
    s2 = (-ad + math.sqrt(disc)) / dd
    e1 = a + s1 * d
    e2 = a + s2 * d
    return e1 / np.linalg.norm(e1), e2 / np.linalg.norm(e2)


def line_origin_dist(a, b):
    """Euclidean distance from the origin to the line through a and b."""
    a = np.asarray(a, dtype=float)
    b = np.asarray(b, dtype=float)
    u = (b - a) / np.linalg.norm(b - a)
    return float(np.linalg.norm(a - (a @ u) * u))


def line_residual(x, a, b):
    """(distance of x from the line through a,b ; parameter s with foot = a + s (b-a))."""
    x = np.asarray(x, dtype=float)
    a = np.asarray(a, dtype=float)
    b = np.asarray(b, dtype=float)
    d = b - a
    s = float((x - a) @ d) / float(d @ d)
    return float(np.linalg.norm(x - a - s * d)), s


def angle_between(u, v):
    u = np.asarray(u, dtype=float)
    v = np.asarray(v, dtype=float)
    c = float(u @ v) / (np.linalg.norm(u) * np.linalg.norm(v))
    return math.acos(max(-1.0, min(1.0, c)))


def infinity(n):
    e1 = np.zeros(n)
    e1[0] = 1.0
    return e1


def flat_frame(K):
    """Affine flat through the rows of K (k+1 affinely independent points of R^n):
    (foot m of the perpendicular from the origin, orthonormal direction basis Q (n,k), smallest
    singular value of the difference matrix relative to the largest)."""
    K = np.asarray(K, dtype=float)
    D = K[1:] - K[0]
    U, S, Vt = np.linalg.svd(D, full_matrices=False)
    Q = Vt.T                       # (n, k) orthonormal columns spanning the direction space
    m = K[0] - Q @ (Q.T @ K[0])
    cond = float(S[-1] / S[0]) if S[0] > 0 else 0.0
    return m, Q, cond


def flat_ideal_points(m, Q):
    """A fixed finite family of ideal points (unit vectors) of the flat m + span(Q), |m| < 1:
    m + rho u for u in {+-q_i} and the normalised sums / alternating sums of the q_i."""
    k = Q.shape[1]
    rho = math.sqrt(max(1.0 - float(m @ m), 0.0))
    us = []
    for i in range(k):
        us.append(Q[:, i])
        us.append(-Q[:, i])
    if k >= 2:
        s = Q.sum(axis=1)
        us.append(s / np.linalg.norm(s))
        alt = Q @ np.array([(-1.0) ** i * (i + 1) for i in range(k)])
        us.append(alt / np.linalg.norm(alt))
        w = Q @ np.array([math.cos(0.7 + i) for i in range(k)])
        us.append(w / np.linalg.norm(w))
    return [m + rho * u for u in us]


def flat_min_angle_to(m, Q, e):
    """Smallest angle between the unit vector e and an ideal point of the flat m + span(Q)."""
    rho = math.sqrt(max(1.0 - float(m @ m), 0.0))
    w = Q @ (Q.T @ (e - m))
    nw = np.linalg.norm(w)
    if nw < 1e-13:
        p = m + rho * Q[:, 0]
    else:
        p = m + rho * w / nw
    return angle_between(p, e)


def hyperplane_flat(normal):
    """Klein flat {x : <(1,x), w> = 0} of the spacelike vector w = (w0, w1..wn): foot m and an
    orthonormal basis Q of the direction space (w1..wn)^perp."""
    w = np.asarray(normal, dtype=float)
    w0, wv = w[0], w[1:]
    m = w0 * wv / float(wv @ wv)
    U, S, Vt = np.linalg.svd(wv[None, :], full_matrices=True)
    Q = Vt[1:].T
    return m, Q


def ccw_delta(theta0, theta1):
    """Length in (0, 2 pi] of the counter-clockwise arc from theta0 to theta1."""
    d = math.fmod(theta1 - theta0, TWO_PI)
    if d <= 0.0:
        d += TWO_PI
    return d


def arc_points(c, r, theta0, theta1, count=9):
    """count points of the counter-clockwise arc from theta0 to theta1 of the circle (c, r),
    parameters j/(count-1), end points included."""
    c = np.asarray(c, dtype=float)
    d = ccw_delta(theta0, theta1)
    out = []
    for j in range(count):
        t = theta0 + d * j / (count - 1.0)
        out.append(c + r * np.array([math.cos(t), math.sin(t)]))
    return out


def angle_in_ccw_arc(theta, theta0, theta1):
    """(inside?, margin): is theta on the counter-clockwise arc from theta0 to theta1, and its
    angular distance from the nearer end of the arc (positive inside, negative outside)."""
    d = ccw_delta(theta0, theta1)
    x = math.fmod(theta - theta0, TWO_PI)
    if x < 0.0:
        x += TWO_PI
    if x <= d:
        return True, min(x, d - x)
    return False, -min(x - d, TWO_PI - x)


def inside_model(model, x):
    """Signed 'depth' of the conformal-model point x: > 0 inside the model."""
    x = np.asarray(x, dtype=float)
    if model == "poincare":
        return 1.0 - float(np.linalg.norm(x))
    if model == "halfspace":
        return float(x[-1])
    raise ValueError(model)


def horo_poincare(xi, p):
    """Horosphere centred at the unit vector xi through the Poincare point p: the Euclidean sphere
    tangent to the unit sphere at xi from inside; (centre, radius) from |p - (1-r) xi| = r."""
    xi = np.asarray(xi, dtype=float)
    p = np.asarray(p, dtype=float)
    r = float((p - xi) @ (p - xi)) / (2.0 * (1.0 - float(xi @ p)))
    return (1.0 - r) * xi, r


def is_nonfinite_or_huge(r, huge=1e6):
    try:
        r = float(r)
    except Exception:
        return False
    return (not math.isfinite(r)) or abs(r) > huge
