"""Exact / reference linear algebra for the C16 and C18 checks.

Python ints and fractions for everything that decides membership of a case in the domain
(determinants, ranks, Gram minors, circumcentres); NumPy only for floating comparisons.
Never imports geometry_tools.
"""
import functools
import itertools
import math
from fractions import Fraction

import numpy as np


# ------------------------------------------------------------------------------------------
# exact integer / rational helpers
# ------------------------------------------------------------------------------------------
def fmat(M):
    return [[Fraction(x) for x in row] for row in M]


def exact_det(M):
    """Determinant of a square matrix of ints/Fractions (fraction Gaussian elimination)."""
    A = fmat(M)
    n = len(A)
    if n == 0:
        return Fraction(1)
    d = Fraction(1)
    for c in range(n):
        piv = None
        for r in range(c, n):
            if A[r][c] != 0:
                piv = r
                break
        if piv is None:
            return Fraction(0)
        if piv != c:
            A[c], A[piv] = A[piv], A[c]
            d = -d
        d *= A[c][c]
        for r in range(c + 1, n):
            f = A[r][c] / A[c][c]
            if f != 0:
                for k in range(c, n):
                    A[r][k] -= f * A[c][k]
    return d


def int_det(M):
    """Determinant of a square integer matrix by fraction-free (Bareiss) elimination."""
    A = [list(r) for r in M]
    n = len(A)
    if n == 0:
        return 1
    sign, prev = 1, 1
    for c in range(n - 1):
        if A[c][c] == 0:
            piv = next((r for r in range(c + 1, n) if A[r][c] != 0), None)
            if piv is None:
                return 0
            A[c], A[piv] = A[piv], A[c]
            sign = -sign
        for r in range(c + 1, n):
            for k in range(c + 1, n):
                A[r][k] = (A[r][k] * A[c][c] - A[r][c] * A[c][k]) // prev
        prev = A[c][c]
    return sign * A[n - 1][n - 1]


def exact_rank(M):
    A = fmat(M)
    if not A or not A[0]:
        return 0
    m, n = len(A), len(A[0])
    r = 0
    for c in range(n):
        piv = None
        for i in range(r, m):
            if A[i][c] != 0:
                piv = i
                break
        if piv is None:
            continue
        A[r], A[piv] = A[piv], A[r]
        for i in range(r + 1, m):
            f = A[i][c] / A[r][c]
            if f != 0:
                for k in range(c, n):
                    A[i][k] -= f * A[r][k]
        r += 1
        if r == m:
            break
    return r


def exact_solve(A, b):
    """Solve the square system A x = b over the rationals (A invertible)."""
    n = len(A)
    M = [[Fraction(x) for x in A[i]] + [Fraction(b[i])] for i in range(n)]
    for c in range(n):
        piv = next(r for r in range(c, n) if M[r][c] != 0)
        M[c], M[piv] = M[piv], M[c]
        pv = M[c][c]
        M[c] = [x / pv for x in M[c]]
        for r in range(n):
            if r != c and M[r][c] != 0:
                f = M[r][c]
                M[r] = [x - f * y for x, y in zip(M[r], M[c])]
    return [M[i][n] for i in range(n)]


def imatmul(A, B):
    return [[sum(A[i][k] * B[k][j] for k in range(len(B))) for j in range(len(B[0]))]
            for i in range(len(A))]


def itranspose(A):
    return [list(r) for r in zip(*A)]


def iidentity(n):
    return [[1 if i == j else 0 for j in range(n)] for i in range(n)]


def elementary(n, i, j, c):
    E = iidentity(n)
    E[i][j] = c
    return E


def unimodular_family(n):
    """A small fixed family of unimodular integer matrices of size n (index 0 = identity)."""
    return [[list(r) for r in Q] for Q in _unimodular_family(n)]


@functools.lru_cache(maxsize=None)
def _unimodular_family(n):
    fam = [iidentity(n)]
    if n == 1:
        return fam + [[[-1]]]
    # a shear chain and a denser product of elementary matrices
    Q1 = iidentity(n)
    for i in range(n - 1):
        Q1 = imatmul(Q1, elementary(n, i, i + 1, 1))
    Q2 = iidentity(n)
    for i in range(n - 1):
        Q2 = imatmul(Q2, elementary(n, i + 1, i, 1 if i % 2 == 0 else -1))
        Q2 = imatmul(Q2, elementary(n, i, i + 1, -1 if i % 2 == 0 else 2))
    # a signed cyclic permutation composed with a shear
    P = [[0] * n for _ in range(n)]
    for i in range(n):
        P[i][(i + 1) % n] = -1 if i == 0 else 1
    Q3 = imatmul(P, elementary(n, 0, n - 1, 1))
    for Q in (Q1, Q2, Q3):
        assert abs(exact_det(Q)) == 1
        if Q not in fam:
            fam.append(Q)
    return fam


def unimodular_inverse(Q):
    n = len(Q)
    cols = [exact_solve(Q, [1 if i == j else 0 for i in range(n)]) for j in range(n)]
    inv = [[cols[j][i] for j in range(n)] for i in range(n)]
    assert all(x.denominator == 1 for r in inv for x in r)
    return [[int(x) for x in r] for r in inv]


def diag_form(p, q):
    """diag(-1 (p times), +1 (q times)): p negative directions first (Minkowski is (1, n))."""
    n = p + q
    return [[(-1 if i < p else 1) if i == j else 0 for j in range(n)] for i in range(n)]


def conj_form(D, Q):
    """Q^T D Q, exact."""
    return imatmul(itranspose(Q), imatmul(D, Q))


def gram(B, rows):
    return imatmul(rows, imatmul(B, itranspose(rows)))


def leading_minors(G):
    """Leading principal minors of an integer matrix (exact Python ints)."""
    return [int_det([r[:j] for r in G[:j]]) for j in range(1, len(G) + 1)]


def row_alphabet(n, m, seed=0):
    """m integer rows of Z^n with entries in [-3, 3]: a structured part (basis vectors, the
    all-ones vector, the F11 witness (0,-1,..,-1), an alternating vector) and a generic part
    chosen by a deterministic congruential formula (seed only shifts the generic part)."""
    rows = []

    def add(v):
        v = [int(x) for x in v]
        if any(v) and v not in rows and [-x for x in v] not in rows:
            rows.append(v)
    add([1] + [0] * (n - 1))
    if n >= 2:
        add([0] + [-1] * (n - 1))                     # F11 witness: normal (0,-1,-1)
        add([2] + [1] * (n - 1))
        add([(1 if i % 2 == 0 else -1) * (1 + i // 2) for i in range(n)])
    j = 0
    while len(rows) < m and j < 200:
        add([(((j + seed + 1) * (2 * i + 1) + (i * i + 1) * (j + 2) + seed * i) % 7) - 3 for i in range(n)])
        j += 1
    return rows[:m]


# ------------------------------------------------------------------------------------------
# floating helpers
# ------------------------------------------------------------------------------------------
def num_rank(M, rtol=1e-9):
    M = np.asarray(M)
    if M.size == 0:
        return 0
    s = np.linalg.svd(M, compute_uv=False)
    if s.size == 0 or s[0] == 0:
        return 0
    return int(np.count_nonzero(s > rtol * s[0]))


def rows_normalised(M):
    M = np.asarray(M)
    nr = np.linalg.norm(M, axis=-1, keepdims=True)
    nr = np.where(nr == 0, 1.0, nr)
    return M / nr


def span_contained(A, R, rtol=1e-9):
    """rows of R lie in the row span of A (A has independent rows): rank test on the stack of
    row-normalised matrices."""
    A = rows_normalised(A)
    R = rows_normalised(R)
    return num_rank(np.concatenate([A, R], axis=0), rtol) == num_rank(A, rtol)


def same_span(A, R, rtol=1e-9):
    A = rows_normalised(A)
    R = rows_normalised(R)
    ra, rr = num_rank(A, rtol), num_rank(R, rtol)
    return ra == rr == num_rank(np.concatenate([A, R], axis=0), rtol)


def offdiag_and_unit_error(G):
    """(max |off-diagonal|, max | |diagonal| - 1 |) of a square matrix."""
    G = np.asarray(G)
    n = G.shape[-1]
    d = np.diagonal(G, axis1=-2, axis2=-1)
    off = G - np.eye(n) * d[..., None, :]
    return float(np.max(np.abs(off))) if n else 0.0, float(np.max(np.abs(np.abs(d) - 1.0))) if n else 0.0


def exact_circumcentre(points):
    """Centre (Fractions) and squared radius of the sphere through d+1 affinely independent
    points of Q^d: 2 (p_i - p_0).c' = |p_i - p_0|^2."""
    p0 = [Fraction(x) for x in points[0]]
    A, b = [], []
    for p in points[1:]:
        dlt = [Fraction(x) - y for x, y in zip(p, p0)]
        A.append([2 * x for x in dlt])
        b.append(sum(x * x for x in dlt))
    c = exact_solve(A, b)
    return [x + y for x, y in zip(c, p0)], sum(x * x for x in c)


def affinely_independent(points):
    p0 = points[0]
    return exact_det([[Fraction(x) - Fraction(y) for x, y in zip(p, p0)] for p in points[1:]]) != 0


def mod2pi(x):
    return np.mod(x, 2 * math.pi)


def ccw_len(a, b, tau=1e-9):
    """Length in [0, 2pi) of the counter-clockwise arc from a to b; values within tau of 2pi
    count as 0 (the two angles coincide on the circle)."""
    d = np.mod(np.asarray(b, dtype=float) - np.asarray(a, dtype=float), 2 * math.pi)
    return np.where(d > 2 * math.pi - tau, 0.0, d)


def same_angle_pair(out, inp, tau=1e-9):
    """out (..,2) is inp (..,2) up to order and multiples of 2pi."""
    def close(x, y):
        d = np.mod(x - y, 2 * math.pi)
        return np.minimum(d, 2 * math.pi - d) <= tau
    straight = close(out[..., 0], inp[..., 0]) & close(out[..., 1], inp[..., 1])
    swapped = close(out[..., 0], inp[..., 1]) & close(out[..., 1], inp[..., 0])
    return straight | swapped


def permutations(n):
    return [list(p) for p in itertools.permutations(range(n))]
