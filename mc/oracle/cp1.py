"""Reference model of the complex projective line CP^1 = C u {oo} as the Riemann sphere.

NumPy / math only; never imports geometry_tools.  Everything is written from the textbook
definitions, not from the library's factoring:

  * a point is an *extended complex number*: a Python ``complex`` or ``INF``;
  * stereographic projection from the pole (0, 0, pole) identifies the equatorial plane
    {Z = 0} with C by x + iy -> (x, y, 0):  z -> (2x, 2y, pole (|z|^2 - 1)) / (|z|^2 + 1),
    oo -> (0, 0, pole);
  * a *generalised circle* is ("circle", c, r) or ("line", p, u) (u a unit direction);
  * a *disk* of CP^1 is one side of a generalised circle:
        ("disk", c, r, True)    {z : |z - c| < r}
        ("disk", c, r, False)   {z : |z - c| > r} u {oo}
        ("half", p, n)          {z : Re((z - p) conj(n)) > 0}      (oo is on the boundary)
  * a spherical cap is ("cap", p, alpha): {s in S^2 : angle(s, p) < alpha}.  In the Fubini-Study
    metric of CP^1 (diameter pi/2) the distance of two points is half the angle of their images
    on the sphere, so the cap is the Fubini-Study disk of radius alpha/2 and diameter alpha.
  * Moebius maps: ``mobius_row`` is the action on homogeneous *row* vectors (w0, w1) -> (w0, w1) M
    written in the affine coordinate z = w1/w0; ``mobius_col`` the action on columns (z, 1)^T.
    Which of the two a library uses is a convention the caller has to read from the code.

Containment / intersection of two disks given by centre, radius and side are decided three
ways which must agree (``decide_pair`` raises OracleError otherwise):
  (1) the closed formulas in the distance d of the centres (``disk_relations``);
  (2) explicit witness points on the line of centres, eps away from the four points where the
      circles cross it (complete for pairs with margin > eps, see ``centre_line_witnesses``);
  (3) a lattice of probe points on the sphere (a probe point in both disks => they intersect;
      a probe point of the inner disk outside the outer => not contained).
"""
import cmath
import math

import numpy as np

INF = complex(float("inf"), 0.0)


class OracleError(Exception):
    """The reference model disagrees with itself (a harness defect, never a library defect)."""


def is_inf(z):
    z = complex(z)
    return math.isinf(z.real) or math.isinf(z.imag)


# ------------------------------------------------------------------------------------------
# Riemann sphere
# ------------------------------------------------------------------------------------------
def to_sphere(z, pole=1.0):
    """Stereographic projection C u {oo} -> S^2 from the pole (0, 0, pole)."""
    if is_inf(z):
        return np.array([0.0, 0.0, float(pole)])
    z = complex(z)
    n = z.real * z.real + z.imag * z.imag
    return np.array([2.0 * z.real / (1.0 + n), 2.0 * z.imag / (1.0 + n), pole * (n - 1.0) / (n + 1.0)])


def from_sphere(s, pole=1.0):
    """Inverse stereographic projection; uses the formula that is well conditioned in each
    hemisphere ((X+iY)/(1-Z) below the equator, (1+Z)/(X-iY) above it)."""
    X, Y, Z = float(s[0]), float(s[1]), pole * float(s[2])
    if Z <= 0.0:
        return complex(X, Y) / (1.0 - Z)
    if X == 0.0 and Y == 0.0:
        return INF
    return (1.0 + Z) / complex(X, -Y)


def sphere_angle(s, t):
    s, t = np.asarray(s, float), np.asarray(t, float)
    # atan2 form: accurate for small and for nearly flat angles alike
    return math.atan2(float(np.linalg.norm(np.cross(s, t))), float(s @ t))


def fs_distance(z, w):
    """Fubini-Study distance (diameter of CP^1 = pi/2) = half the angle on the sphere."""
    return 0.5 * sphere_angle(to_sphere(z), to_sphere(w))


def antipode(z):
    if is_inf(z):
        return 0j
    if z == 0:
        return INF
    return -1.0 / complex(z).conjugate()


# ------------------------------------------------------------------------------------------
# Moebius transformations
# ------------------------------------------------------------------------------------------
def _frac(num, den):
    if den == 0:
        if num == 0:
            raise ValueError("0/0: singular matrix or indeterminate image")
        return INF
    return num / den


def mobius_row(M, z):
    """(w0, w1) -> (w0, w1) M with z = w1/w0:  z -> (b + d z) / (a + c z),  oo -> d / c."""
    (a, b), (c, d) = [[complex(x) for x in row] for row in M]
    if is_inf(z):
        return _frac(d, c)
    z = complex(z)
    return _frac(b + d * z, a + c * z)


def mobius_col(M, z):
    """(z, 1)^T -> M (z, 1)^T:  z -> (a z + b) / (c z + d),  oo -> a / c."""
    (a, b), (c, d) = [[complex(x) for x in row] for row in M]
    if is_inf(z):
        return _frac(a, c)
    z = complex(z)
    return _frac(a * z + b, c * z + d)


def pole_row(M):
    """The point sent to oo by mobius_row(M, .)."""
    (a, b), (c, d) = [[complex(x) for x in row] for row in M]
    return _frac(-a, c)


def det2(M):
    (a, b), (c, d) = [[complex(x) for x in row] for row in M]
    return a * d - b * c


# ------------------------------------------------------------------------------------------
# generalised circles and disks
# ------------------------------------------------------------------------------------------
def circle_through(z1, z2, z3, tol=1e-9):
    """The generalised circle through three distinct points of C u {oo}."""
    fin = [complex(z) for z in (z1, z2, z3) if not is_inf(z)]
    if len(fin) < 2:
        raise ValueError("need at least two finite points")
    if len(fin) == 2:
        a, b = fin
        if a == b:
            raise ValueError("coincident points")
        return ("line", a, (b - a) / abs(b - a))
    a, b, c = fin
    B, C = b - a, c - a
    scale = abs(B) * abs(C)
    if scale == 0 or b == c:
        raise ValueError("coincident points")
    cross = (B.conjugate() * C).imag           # |B||C| sin(angle)
    if abs(cross) <= tol * scale:
        far = b if abs(B) >= abs(C) else c
        return ("line", a, (far - a) / abs(far - a))
    # circumcentre w (relative to a):  2 Re(w conj B) = |B|^2,  2 Re(w conj C) = |C|^2
    w = (abs(B) ** 2 * C - abs(C) ** 2 * B) / (B.conjugate() * C - B * C.conjugate())
    return ("circle", a + w, abs(w))


def dist_to_circle(C, z):
    """Euclidean distance of z to the generalised circle (oo: 0 for a line, inf for a circle)."""
    if C[0] == "circle":
        if is_inf(z):
            return float("inf")
        return abs(abs(complex(z) - C[1]) - C[2])
    if is_inf(z):
        return 0.0
    return abs(((complex(z) - C[1]) * C[2].conjugate()).imag)


def circle_points(C, k=3, phase=0.7):
    """k points of the generalised circle, at angles chosen by the oracle (not by the library)."""
    if C[0] == "circle":
        return [C[1] + C[2] * cmath.exp(1j * (phase + 2 * math.pi * j / k)) for j in range(k)]
    return [C[1] + C[2] * t for t in [(-1.3 + 1.1 * j) for j in range(k)]]


def side_of(C, q, tol=1e-12):
    """The disk bounded by C that contains q (q must not lie on C)."""
    if C[0] == "circle":
        if is_inf(q):
            return ("disk", C[1], C[2], False)
        rho = abs(complex(q) - C[1])
        if abs(rho - C[2]) <= tol * (1 + C[2]):
            raise ValueError("point on the circle")
        return ("disk", C[1], C[2], rho < C[2])
    if is_inf(q):
        raise ValueError("oo lies on every line")
    n = 1j * C[2]
    s = ((complex(q) - C[1]) * n.conjugate()).real
    if abs(s) <= tol:
        raise ValueError("point on the line")
    return ("half", C[1], n if s > 0 else -n)


def boundary(D):
    if D[0] == "disk":
        return ("circle", D[1], D[2])
    return ("line", D[1], D[2] / 1j)


def depth(D, z):
    """Signed Euclidean distance to the boundary, positive inside the disk."""
    if D[0] == "disk":
        if is_inf(z):
            return float("-inf") if D[3] else float("inf")
        s = D[2] - abs(complex(z) - D[1])
        return s if D[3] else -s
    if is_inf(z):
        return 0.0
    return ((complex(z) - D[1]) * D[2].conjugate()).real


def member(D, z, tol=1e-9):
    """True / False, or None when z is within tol (relative to the scale) of the boundary."""
    s = depth(D, z)
    scale = 1.0 + (abs(D[1]) + (D[2] if D[0] == "disk" else 0.0)) + (0.0 if is_inf(z) else abs(complex(z)))
    if math.isinf(s):
        return s > 0
    if abs(s) <= tol * scale:
        return None
    return s > 0


def complement(D):
    if D[0] == "disk":
        return ("disk", D[1], D[2], not D[3])
    return ("half", D[1], -D[2])


def mobius_disk_row(M, D, phase=0.7):
    """Image of the disk D under mobius_row(M, .) as a set: the generalised circle through the
    images of three boundary points, on the side of the image of an interior point.  The
    result is cross-checked with the pole criterion (the image contains oo iff D contains the
    pole of M)."""
    C = boundary(D)
    img = circle_through(*[mobius_row(M, z) for z in circle_points(C, 3, phase)])
    q = interior_witness(D)
    out = side_of(img, mobius_row(M, q))
    pm = member(D, pole_row(M))
    if img[0] == "circle" and pm is not None and out[3] == pm:
        raise OracleError("image side %r contradicts the pole criterion (pole in D: %r)" % (out, pm))
    return out


def interior_witness(D):
    """A point well inside D, chosen by the oracle."""
    if D[0] == "disk":
        if D[3]:
            return D[1] + 0.43 * D[2] * cmath.exp(1.1j)
        return D[1] + 2.3 * D[2] * cmath.exp(2.3j)
    return D[1] + 0.8 * D[2] + 0.3j * D[2]


# ------------------------------------------------------------------------------------------
# set relations of two disks ("disk" kind)
# ------------------------------------------------------------------------------------------
def pair_margin(A, B):
    """Distance of the pair from tangency (and from having equal boundaries)."""
    d = abs(A[1] - B[1])
    return min(abs(d - (A[2] + B[2])), abs(d - abs(A[2] - B[2])))


def disk_relations(A, B):
    """(A contains B, A intersects B) for A, B of kind "disk", in general position."""
    d = abs(A[1] - B[1])
    r1, r2 = A[2], B[2]
    if A[3] and B[3]:
        return (d + r2 < r1, d < r1 + r2)
    if A[3] and not B[3]:              # B contains oo, A does not
        return (False, not (d + r1 < r2))
    if not A[3] and B[3]:              # A = complement of A'; contains B iff B misses A'
        return (d > r1 + r2, not (d + r2 < r1))
    return (d + r1 < r2, True)         # A'^c contains B'^c iff A' inside B'


def centre_line_witnesses(A, B, eps=0.01):
    """Points eps on either side of the (up to) four crossings of the two circles with the line
    of centres, the centres, and oo.  The four regions cut out by two circles in general
    position are symmetric about that line and meet it in intervals whose lengths are
    2 r1, 2 r2, |d - r1 - r2|, |d - |r1 - r2||; so with margin > 2 eps every non-empty region
    contains one of these points."""
    c1, c2 = A[1], B[1]
    u = (c2 - c1) / abs(c2 - c1) if c2 != c1 else 1.0 + 0j
    pts = [c1, c2, INF]
    for c, r in ((c1, A[2]), (c2, B[2])):
        for s in (1.0, -1.0):
            for e in (eps, -eps):
                pts.append(c + s * (r + e) * u)
    return pts


def probe_lattice(n=41):
    """n x n lattice on the sphere (colatitude x longitude, both poles included) as extended
    complex numbers: (finite values array, mask of oo)."""
    zs, inf = [], []
    for i in range(n):
        th = math.pi * i / (n - 1)
        for j in range(n):
            ph = 2 * math.pi * (j + 0.37) / n
            s = (math.sin(th) * math.cos(ph), math.sin(th) * math.sin(ph), math.cos(th))
            if i == 0:
                s = (0.0, 0.0, 1.0)
            z = from_sphere(s)
            inf.append(is_inf(z))
            zs.append(0j if is_inf(z) else z)
    return np.array(zs), np.array(inf)


def probe_sphere_points(n=41):
    """The same lattice as unit vectors, shape (n, n, 3)."""
    out = np.zeros((n, n, 3))
    for i in range(n):
        th = math.pi * i / (n - 1)
        for j in range(n):
            ph = 2 * math.pi * (j + 0.37) / n
            out[i, j] = (math.sin(th) * math.cos(ph), math.sin(th) * math.sin(ph), math.cos(th))
    out[0, :] = (0.0, 0.0, 1.0)
    out[n - 1, :] = (0.0, 0.0, -1.0)
    return out


def member_array(D, zs, inf, tol=1e-9):
    """Vectorised membership for "disk" kind: (surely inside, surely outside)."""
    s = D[2] - np.abs(zs - D[1])
    if not D[3]:
        s = -s
    scale = 1.0 + abs(D[1]) + D[2] + np.abs(zs)
    inside = s > tol * scale
    outside = s < -tol * scale
    inside = np.where(inf, not D[3], inside)
    outside = np.where(inf, D[3], outside)
    return inside, outside


_PROBES = {}


def decide_pair(A, B, nprobe=41, eps=0.01):
    """(A contains B, A intersects B, info) for disks in general position; the closed formulas
    are validated on the centre-line witnesses (both directions) and on the probe lattice."""
    if pair_margin(A, B) <= 2.5 * eps:
        raise OracleError("pair not in general position: margin %.3g" % pair_margin(A, B))
    contains, intersects = disk_relations(A, B)
    wit = centre_line_witnesses(A, B, eps)
    both = any(member(A, z) is True and member(B, z) is True for z in wit)
    b_not_a = any(member(B, z) is True and member(A, z) is False for z in wit)
    if both != intersects:
        raise OracleError("intersects formula %r vs centre-line witnesses %r for %r %r" % (intersects, both, A, B))
    if b_not_a == contains:
        raise OracleError("contains formula %r vs centre-line witnesses (B minus A non-empty: %r) for %r %r"
                          % (contains, b_not_a, A, B))
    if nprobe not in _PROBES:
        _PROBES[nprobe] = probe_lattice(nprobe)
    zs, inf = _PROBES[nprobe]
    a_in, a_out = member_array(A, zs, inf)
    b_in, b_out = member_array(B, zs, inf)
    n_both = int(np.sum(a_in & b_in))
    n_bna = int(np.sum(b_in & a_out))
    if n_both > 0 and not intersects:
        raise OracleError("a probe point lies in both disks but the formula says disjoint: %r %r" % (A, B))
    if n_bna > 0 and contains:
        raise OracleError("a probe point of B lies outside A but the formula says contained: %r %r" % (A, B))
    return contains, intersects, {"probe_both": n_both, "probe_b_not_a": n_bna}


# ------------------------------------------------------------------------------------------
# spherical caps <-> disks
# ------------------------------------------------------------------------------------------
def _frame(p):
    """Two unit vectors orthogonal to p and to each other, from cross products."""
    p = np.asarray(p, float)
    p = p / np.linalg.norm(p)
    k = int(np.argmin(np.abs(p)))
    e = np.zeros(3)
    e[k] = 1.0
    a = np.cross(p, e)
    a /= np.linalg.norm(a)
    b = np.cross(p, a)
    return p, a, b


def cap_boundary_points(p, alpha, k=3, phase=0.4):
    p, a, b = _frame(p)
    return [math.cos(alpha) * p + math.sin(alpha) * (math.cos(phase + 2 * math.pi * j / k) * a
                                                     + math.sin(phase + 2 * math.pi * j / k) * b)
            for j in range(k)]


def cap_pole_margin(p, alpha, pole=1.0):
    """|angle(p, pole) - alpha|: zero when the boundary of the cap passes through oo."""
    return abs(sphere_angle(p, (0.0, 0.0, pole)) - alpha)


def cap_to_disk(p, alpha, pole=1.0):
    """Stereographic image of the cap {angle(s, p) < alpha} as a disk of kind "disk"."""
    pts = [from_sphere(s, pole) for s in cap_boundary_points(p, alpha)]
    C = circle_through(*pts)
    if C[0] != "circle":
        raise ValueError("cap boundary passes through the pole")
    contains_inf = sphere_angle(p, (0.0, 0.0, pole)) < alpha
    D = ("disk", C[1], C[2], not contains_inf)
    # cross-check: the centre of the cap must be in the disk
    pc = np.asarray(p, float) / np.linalg.norm(p)
    if member(D, from_sphere(pc, pole)) is False:
        raise OracleError("cap centre outside its own stereographic image")
    return D


def disk_to_cap(D, pole=1.0):
    """("cap", p, alpha) whose stereographic image is the disk D (kind "disk")."""
    s1, s2, s3 = [to_sphere(z, pole) for z in circle_points(boundary(D), 3, 0.3)]
    n = np.cross(s2 - s1, s3 - s1)
    n = n / np.linalg.norm(n)
    h = float(n @ s1)
    w = to_sphere(D[1], pole) if D[3] else np.array([0.0, 0.0, float(pole)])
    if float(n @ w) < h:
        n, h = -n, -h
    alpha = math.acos(max(-1.0, min(1.0, h)))
    # cross-check through the chord: boundary points are at angle alpha from p
    for s in (s1, s2, s3):
        if abs(sphere_angle(n, s) - alpha) > 1e-7:
            raise OracleError("cap reconstruction inconsistent")
    return ("cap", n, alpha)
