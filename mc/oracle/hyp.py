"""Reference formulas for the five models of H^n, written from the textbook definitions.
NumPy only; never imports geometry_tools.

Conventions fixed by the library's documentation and pinned tests:
  * Minkowski form J = diag(-1, 1, ..., 1) on R^(n+1); projective coordinates are rows (x0, x1..xn).
  * Klein coordinates k = (x1..xn)/x0.
  * Poincare ball coordinates p = k / (1 + sqrt(1 - |k|^2)).
  * Half-space: h = -sigma(p) with sigma the inversion in the sphere of radius sqrt(2) centred at
    e1 = (1,0,..,0), the first ball coordinate becoming the height and being written LAST:
    h = (-sigma(p)[1:], -sigma(p)[0]).  The point at infinity is p = e1.
"""
import numpy as np

MODELS = ["projective", "hyperboloid", "klein", "poincare", "halfspace"]


def J(n):
    j = np.eye(n + 1)
    j[0, 0] = -1.0
    return j


def mink(x, y):
    x = np.asarray(x, dtype=float)
    y = np.asarray(y, dtype=float)
    return -x[..., 0] * y[..., 0] + np.sum(x[..., 1:] * y[..., 1:], axis=-1)


def klein_to_projective(k, lam=1.0):
    k = np.asarray(k, dtype=float)
    one = np.ones(k.shape[:-1] + (1,))
    return lam * np.concatenate([one, k], axis=-1)


def klein_to_hyperboloid(k, sign=1.0):
    k = np.asarray(k, dtype=float)
    s = np.sqrt(1.0 - np.sum(k * k, axis=-1, keepdims=True))
    one = np.ones(k.shape[:-1] + (1,))
    return sign * np.concatenate([one, k], axis=-1) / s


def klein_to_poincare(k):
    k = np.asarray(k, dtype=float)
    r2 = np.sum(k * k, axis=-1, keepdims=True)
    return k / (1.0 + np.sqrt(np.maximum(1.0 - r2, 0.0)))


def poincare_to_klein(p):
    p = np.asarray(p, dtype=float)
    r2 = np.sum(p * p, axis=-1, keepdims=True)
    return 2.0 * p / (1.0 + r2)


def poincare_to_halfspace(p):
    p = np.asarray(p, dtype=float)
    e1 = np.zeros(p.shape[-1])
    e1[0] = 1.0
    d = p - e1
    q = e1 + 2.0 * d / np.sum(d * d, axis=-1, keepdims=True)     # inversion, radius sqrt 2
    q = -q
    return np.concatenate([q[..., 1:], q[..., :1]], axis=-1)


def halfspace_to_poincare(h):
    h = np.asarray(h, dtype=float)
    q = -np.concatenate([h[..., -1:], h[..., :-1]], axis=-1)
    e1 = np.zeros(h.shape[-1])
    e1[0] = 1.0
    d = q - e1
    return e1 + 2.0 * d / np.sum(d * d, axis=-1, keepdims=True)


def klein_to(model, k, lam=1.0):
    """Oracle coordinates of the point with Klein coordinates k in `model`."""
    if model == "projective":
        return klein_to_projective(k, lam)
    if model == "hyperboloid":
        return klein_to_hyperboloid(k)
    if model == "klein":
        return np.asarray(k, dtype=float)
    if model == "poincare":
        return klein_to_poincare(k)
    if model == "halfspace":
        return poincare_to_halfspace(klein_to_poincare(k))
    raise ValueError(model)


def to_klein(model, c):
    c = np.asarray(c, dtype=float)
    if model in ("projective", "hyperboloid"):
        return c[..., 1:] / c[..., :1]
    if model == "klein":
        return c
    if model == "poincare":
        return poincare_to_klein(c)
    if model == "halfspace":
        return poincare_to_klein(halfspace_to_poincare(c))
    raise ValueError(model)


# ---- closed-form metrics, one per model ------------------------------------------------------
def _acosh(x):
    return np.arccosh(np.maximum(x, 1.0))


def dist_projective(x, y):
    return _acosh(np.abs(mink(x, y)) / np.sqrt(mink(x, x) * mink(y, y)))


def dist_klein(a, b):
    a = np.asarray(a, dtype=float)
    b = np.asarray(b, dtype=float)
    num = 1.0 - np.sum(a * b, axis=-1)
    den = np.sqrt((1.0 - np.sum(a * a, axis=-1)) * (1.0 - np.sum(b * b, axis=-1)))
    return _acosh(num / den)


def dist_poincare(p, q):
    p = np.asarray(p, dtype=float)
    q = np.asarray(q, dtype=float)
    d2 = np.sum((p - q) ** 2, axis=-1)
    return _acosh(1.0 + 2.0 * d2 / ((1.0 - np.sum(p * p, axis=-1)) * (1.0 - np.sum(q * q, axis=-1))))


def dist_halfspace(g, h):
    g = np.asarray(g, dtype=float)
    h = np.asarray(h, dtype=float)
    d2 = np.sum((g - h) ** 2, axis=-1)
    return _acosh(1.0 + d2 / (2.0 * g[..., -1] * h[..., -1]))


def dist_in_model(model, a, b):
    return {"projective": dist_projective, "hyperboloid": dist_projective, "klein": dist_klein,
            "poincare": dist_poincare, "halfspace": dist_halfspace}[model](a, b)


def proj_equal_err(x, y):
    """Row-wise projective distance: | |<x,y>_euclid| / (|x||y|) - 1 | (0 iff same projective point)."""
    x = np.asarray(x)
    y = np.asarray(y)
    num = np.abs(np.sum(x * np.conjugate(y), axis=-1))
    den = np.sqrt(np.sum(np.abs(x) ** 2, axis=-1) * np.sum(np.abs(y) ** 2, axis=-1))
    with np.errstate(invalid="ignore", divide="ignore"):
        return np.abs(num / den - 1.0)


def proj_sin_err(x, y):
    """Row-wise chordal distance between the lines spanned by x and y: |x/|x| - u*y/|y|| with u the
    unit scalar aligning them (= 2 sin(angle/2); linear in the error and accurate to machine
    epsilon, unlike proj_equal_err which is quadratic).  NaN rows give NaN (never 'equal')."""
    x = np.asarray(x)
    y = np.asarray(y)
    with np.errstate(invalid="ignore", divide="ignore"):
        xn = x / np.sqrt(np.sum(np.abs(x) ** 2, axis=-1, keepdims=True))
        yn = y / np.sqrt(np.sum(np.abs(y) ** 2, axis=-1, keepdims=True))
        ip = np.sum(xn * np.conjugate(yn), axis=-1, keepdims=True)
        mag = np.abs(ip)
        u = np.where(mag > 0, ip / np.where(mag > 0, mag, 1), 1.0)
        return np.sqrt(np.sum(np.abs(xn - u * yn) ** 2, axis=-1))


def classify(x, margin=1e-9):
    """-1 timelike, 0 lightlike, +1 spacelike (relative margin)."""
    x = np.asarray(x, dtype=float)
    q = mink(x, x) / np.sum(x * x, axis=-1)
    return np.where(q < -margin, -1, np.where(q > margin, 1, 0))


def angle_at(p, a, b):
    """Angle at p of the hyperbolic triangle (Klein coordinates), via the law of cosines."""
    da, db, dc = dist_klein(p, a), dist_klein(p, b), dist_klein(a, b)
    c = (np.cosh(da) * np.cosh(db) - np.cosh(dc)) / (np.sinh(da) * np.sinh(db))
    return np.arccos(np.clip(c, -1.0, 1.0))


def proj_diff(x, y):
    """Row-wise projective difference without a square-root noise floor: both rows are scaled to
    Euclidean length 1, the sign is aligned, and the largest coordinate difference is returned
    (0 iff same projective point; linear in the error; NaN/inf rows give inf)."""
    x = np.asarray(x, dtype=float)
    y = np.asarray(y, dtype=float)
    with np.errstate(invalid="ignore", divide="ignore"):
        xh = x / np.sqrt(np.sum(x * x, axis=-1, keepdims=True))
        yh = y / np.sqrt(np.sum(y * y, axis=-1, keepdims=True))
        s = np.where(np.sum(xh * yh, axis=-1, keepdims=True) < 0, -1.0, 1.0)
        d = np.max(np.abs(xh - s * yh), axis=-1)
    return np.where(np.isfinite(d), d, np.inf)


def future(x):
    """Representative of the projective point x with non-negative time coordinate."""
    x = np.asarray(x, dtype=float)
    return np.where(x[..., :1] < 0, -x, x)


def unit_hyperboloid(x):
    """Future-pointing unit timelike representative of a timelike row vector."""
    x = future(x)
    return x / np.sqrt(-mink(x, x))[..., None]


def geodesic_point(p, q, t):
    """Point (hyperboloid coordinates) at signed distance t from p along the geodesic from p
    towards q (p, q timelike rows, p != q)."""
    P = unit_hyperboloid(p)
    Q = unit_hyperboloid(q)
    D = Q + mink(P, Q)[..., None] * P
    D = D / np.sqrt(mink(D, D))[..., None]
    return np.cosh(t) * P + np.sinh(t) * D


def unit_direction(p, q):
    """Unit tangent vector (spacelike row, Minkowski-orthogonal to p) at p pointing to q."""
    P = unit_hyperboloid(p)
    Q = unit_hyperboloid(q)
    D = Q + mink(P, Q)[..., None] * P
    return D / np.sqrt(mink(D, D))[..., None]
