"""Reference model of composite shapes: NumPy's broadcasting rule written out from its
definition, the index maps of elementwise / pairwise / pairwise_reversed application, and the
"ndarray of unit labels" model of reshape / flatten / index / stack histories.

NumPy only; never imports geometry_tools.

Conventions (from the property text C04 and the docstring of utils.matrix_product):
  * a composite object X has composite shape sX, a composite transformation T has shape sT;
  * elementwise: result shape = broadcast(sX, sT) (NumPy rule: align trailing axes, an axis of
    size 1 stretches); entry [idx] = T[idx restricted to sT] applied to X[idx restricted to sX];
  * pairwise: result shape sX + sT, entry [i + j] = T[j] applied to X[i]   (property text);
  * pairwise_reversed: result shape sT + sX, entry [j + i] = T[j] applied to X[i]
    ("use the axes of the second array first in the result").
"""
import itertools

import numpy as np

MODES = ["elementwise", "pairwise", "pairwise_reversed"]


def size(shape):
    n = 1
    for s in shape:
        n *= int(s)
    return n


def broadcast_shape(sa, sb):
    """NumPy's broadcasting rule from its definition; None when the shapes are incompatible."""
    sa, sb = tuple(int(x) for x in sa), tuple(int(x) for x in sb)
    r = max(len(sa), len(sb))
    pa = (1,) * (r - len(sa)) + sa
    pb = (1,) * (r - len(sb)) + sb
    out = []
    for a, b in zip(pa, pb):
        if a == b or b == 1:
            out.append(a)
        elif a == 1:
            out.append(b)
        else:
            return None
    return tuple(out)


def _restrict(idx, shape):
    """Index into an array of `shape` that the broadcast result index `idx` reads from."""
    k = len(shape)
    tail = idx[len(idx) - k:] if k else ()
    return tuple(0 if s == 1 else t for s, t in zip(shape, tail))


def result_shape(mode, sX, sT):
    sX, sT = tuple(sX), tuple(sT)
    if mode == "elementwise":
        return broadcast_shape(sX, sT)
    if mode == "pairwise":
        return sX + sT
    if mode == "pairwise_reversed":
        return sT + sX
    raise ValueError(mode)


def index_map(mode, sX, sT):
    """List of (result index, index into X, index into T); None if the mode is undefined for the
    pair (elementwise on incompatible shapes)."""
    sX, sT = tuple(sX), tuple(sT)
    rs = result_shape(mode, sX, sT)
    if rs is None:
        return None
    out = []
    for idx in itertools.product(*[range(s) for s in rs]):
        if mode == "elementwise":
            out.append((idx, _restrict(idx, sX), _restrict(idx, sT)))
        elif mode == "pairwise":
            out.append((idx, idx[:len(sX)], idx[len(sX):]))
        else:
            out.append((idx, idx[len(sT):], idx[:len(sT)]))
    return out


def same_size_shapes(n, max_rank=3):
    """All shapes of rank 0..max_rank with exactly n entries (axes of size >= 1), simplest first."""
    out = []
    if n == 1:
        out.append(())
    divs = [d for d in range(1, n + 1) if n % d == 0]
    for r in range(1, max_rank + 1):
        for t in itertools.product(divs, repeat=r):
            if size(t) == n:
                out.append(t)
    return out


# ---- the "ndarray of unit labels" model ------------------------------------------------------
def labels(shape, start=0):
    return (np.arange(size(shape), dtype=int) + start).reshape(tuple(shape))


def m_reshape(lab, shape):
    return lab.reshape(tuple(shape))


def m_flatten(lab):
    return lab.reshape((-1,))


def m_index(lab, i):
    return np.asarray(lab[i])


def m_stack(a, b):
    return np.stack([a, b])


def m_combine(ls):
    return np.concatenate([np.asarray(l).reshape((-1,)) for l in ls])


def m_setitem(lab, i, new_label):
    out = lab.copy()
    out[i] = new_label
    return out


def self_test():
    """Cross-check the hand-written rule against NumPy's own (used by the checks at start-up)."""
    S = []
    for r in range(4):
        S.extend(itertools.product((1, 2, 3), repeat=r))
    for a in S:
        for b in S:
            mine = broadcast_shape(a, b)
            try:
                ref = tuple(np.broadcast_shapes(a, b))
            except ValueError:
                ref = None
            if mine != ref:
                raise AssertionError("broadcast_shape%r: %r != numpy %r" % ((a, b), mine, ref))
            if mine is not None:
                # index map agrees with broadcasting of label arrays
                la, lb = labels(a), labels(b, 1000)
                A, B = np.broadcast_arrays(la, lb)
                for idx, ia, ib in index_map("elementwise", a, b):
                    if A[idx] != la[ia] or B[idx] != lb[ib]:
                        raise AssertionError("index_map elementwise %r %r at %r" % (a, b, idx))
    return True
