"""Reference computations of the DERIVED data that objects carry beside their primary data, from the
definitions (NumPy only, never imports geometry_tools):

  * a polygon's edges: edge i = (vertex i, vertex i+1 cyclically);
  * a segment's ideal endpoints: the two null points of the projective line through its endpoints;
  * a tangent vector's stored pair: (basepoint, vector projected Minkowski-orthogonally to the basepoint);

and the row-projective comparisons used for them (real or complex rows).
"""
import numpy as np

from mc.oracle.hyp import proj_sin_err


def mink(x, y):
    """Minkowski bilinear form diag(-1, 1, .., 1) on rows; bilinear (no conjugation), any dtype."""
    x, y = np.asarray(x), np.asarray(y)
    return -x[..., 0] * y[..., 0] + np.sum(x[..., 1:] * y[..., 1:], axis=-1)


def edges_of(vertices):
    vertices = np.asarray(vertices)
    return np.stack([vertices, np.roll(vertices, -1, axis=-2)], axis=-2)


def ideal_endpoints(pair):
    """Roots t of <x + t(y-x), x + t(y-x)> = 0 for x = pair[...,0,:], y = pair[...,1,:]; rows x + t d."""
    pair = np.asarray(pair)
    x, y = pair[..., 0, :], pair[..., 1, :]
    d = y - x
    a, b, c = mink(d, d), 2.0 * mink(x, d), mink(x, x)
    disc = np.sqrt(b * b - 4.0 * a * c + 0j) if np.iscomplexobj(pair) else np.sqrt(b * b - 4.0 * a * c)
    t1, t2 = (-b - disc) / (2.0 * a), (-b + disc) / (2.0 * a)
    return np.stack([x + t1[..., None] * d, x + t2[..., None] * d], axis=-2)


def tangent_aux(data):
    data = np.asarray(data)
    p, w = data[..., 0, :], data[..., 1, :]
    proj = w - (mink(w, p) / mink(p, p))[..., None] * p
    return np.stack([p, proj], axis=-2)


def rows_err(a, b):
    """Largest sine of the angle between corresponding rows; inf on a shape mismatch or non-finite data."""
    a, b = np.asarray(a), np.asarray(b)
    if a.shape != b.shape:
        return float("inf")
    if a.size == 0:
        return 0.0
    e = proj_sin_err(a, b)
    if not np.all(np.isfinite(e)):
        return float("inf")
    return float(np.max(e))


def pair_err_unordered(a, b):
    """As rows_err for arrays (..., 2, m) of UNORDERED pairs of projective points."""
    a, b = np.asarray(a), np.asarray(b)
    if a.shape != b.shape or a.shape[-2] != 2:
        return float("inf")
    if a.size == 0:
        return 0.0
    e1 = np.maximum(proj_sin_err(a[..., 0, :], b[..., 0, :]), proj_sin_err(a[..., 1, :], b[..., 1, :]))
    e2 = np.maximum(proj_sin_err(a[..., 0, :], b[..., 1, :]), proj_sin_err(a[..., 1, :], b[..., 0, :]))
    e = np.minimum(e1, e2)
    if not np.all(np.isfinite(e)):
        return float("inf")
    return float(np.max(e))


def canon_rows(a, digits=6):
    """Canonical representative of every row (unit Euclidean norm, first non-negligible entry real positive),
    rounded: a hashable summary of an array of projective rows."""
    a = np.asarray(a)
    if a.size == 0:
        return ()
    flat = a.reshape(-1, a.shape[-1]).astype(complex)
    out = []
    for r in flat:
        nrm = np.sqrt(np.sum(np.abs(r) ** 2))
        if not np.isfinite(nrm) or nrm == 0:
            out.append(("bad",))
            continue
        r = r / nrm
        piv = next((x for x in r if abs(x) > 1e-6), 1.0)
        r = r * (abs(piv) / piv)
        r = np.round(r, digits) + (0.0 + 0.0j)
        out.append(tuple((float(z.real), float(z.imag)) for z in r))
    return tuple(out)
