"""Differential history oracle shared by several checks.

A query asked of an object reached by some history of operations must give the same answer as the same
query asked of a FRESH object built from a copy of the current primary data.  Anything else means the
answer depends on the object's past (a memo that survived copy()/set(), a stale cache, leftover state of
an earlier call).  Answers are compared up to what recomputation can legitimately change: rescaling of
projective rows, the order of a segment's two ideal endpoints, and the sqrt-eps class for numbers that
pass through conformal coordinates of ideal points.  A stale answer differs by >= 1e-2 on the alphabets
used."""
import numpy as np

from mc.oracle.derived import rows_err, pair_err_unordered


def flatten_result(r):
    """Content of a query result as a list of ("rows", array) for library objects (compared projectively, row
    by row; derived 2-row data also with the two rows swapped) and ("num", array) for plain numbers."""
    if r is None:
        return []
    if hasattr(r, "proj_data"):
        out = [("rows", np.asarray(r.proj_data))]
        if getattr(r, "aux_data", None) is not None:
            out.append(("rows2", np.asarray(r.aux_data)))
        return out
    if isinstance(r, (tuple, list)):
        out = []
        for x in r:
            out += flatten_result(x)
        return out
    return [("num", np.asarray(r))]


def same_result(a, b, name=""):
    """Equality up to what recomputation from the same primary data can legitimately change: a rescaling of
    projective rows, and the sqrt-eps class (1e-6 (1+|v|)^2) for numbers that pass through conformal
    coordinates of ideal points.  A stale answer differs by >= 1e-2 on these alphabets."""
    if len(a) != len(b):
        return False
    if "circle_parameters" in name:
        # (centre, radius, angles) triples: the angle pair of a nearly straight / nearly vertical arc is below the
        # sqrt-eps noise of the centre (C14 documents this), so only centre and radius are compared here
        a = [t for i, t in enumerate(a) if i % 3 != 2]
        b = [t for i, t in enumerate(b) if i % 3 != 2]
    for (ka, x), (kb, y) in zip(a, b):
        if ka != kb or x.shape != y.shape:
            return False
        if ka in ("rows", "rows2"):
            e = rows_err(x, y)
            if ka == "rows2" and e > 1e-6 and x.ndim >= 2 and x.shape[-2] == 2:
                e = min(e, rows_err(x, y[..., ::-1, :]))
            if not e <= 1e-6:
                return False
            continue
        if x.dtype.kind in "biu" and y.dtype.kind in "biu":
            if not np.array_equal(x, y):
                return False
            continue
        if "projective" in name and x.ndim >= 1:
            # homogeneous coordinates returned as a plain array: rows up to scale (and, for the two ideal
            # endpoints of a segment, up to their order, which the property does not fix)
            e = rows_err(x, y)
            if "ideal_endpoint" in name and e > 1e-6 and x.ndim >= 2 and x.shape[-2] == 2:
                e = pair_err_unordered(x, y)
            if not e <= 1e-6:
                return False
            continue
        if "ideal_endpoint" in name and x.ndim >= 2 and x.shape[-2] == 2:
            # affine coordinates of an unordered pair of ideal points: try both orders, unit by unit
            xs, ys = x.reshape(-1, 2, x.shape[-1]).astype(float), y.reshape(-1, 2, y.shape[-1]).astype(float)
            for u, w_ in zip(xs, ys):
                tol = 1e-6 * (1.0 + float(np.max(np.abs(w_)))) ** 2
                if not (np.max(np.abs(u - w_)) <= tol or np.max(np.abs(u - w_[::-1])) <= tol):
                    return False
            continue
        try:
            xc, yc = x.astype(complex), y.astype(complex)
        except (TypeError, ValueError):
            if repr(x) != repr(y):
                return False
            continue
        nan = np.isnan(xc) | np.isnan(yc) | np.isinf(xc) | np.isinf(yc)
        if not np.array_equal(np.isnan(xc) | np.isinf(xc), np.isnan(yc) | np.isinf(yc)):
            return False
        d = np.abs(np.where(nan, 0, xc - yc))
        big = float(np.max(np.abs(np.where(nan, 0, yc)))) if d.size else 0.0
        if d.size and not np.all(d <= 1e-6 * (1.0 + big) ** 2):
            return False
    return True




def _flat_arrays(r):
    if r is None:
        return []
    if hasattr(r, "proj_data"):
        out = [np.array(r.proj_data, copy=True)]
        if getattr(r, "aux_data", None) is not None:
            out.append(np.array(r.aux_data, copy=True))
        return out
    if isinstance(r, (tuple, list)):
        out = []
        for x in r:
            out += _flat_arrays(x)
        return out
    return [np.array(r, copy=True)]


def purity_violations(name, f, args, key_prefix="purity", rtol=1e-12):
    """A function of the library called with array arguments must (i) leave the arguments bitwise unchanged,
    (ii) give the same answer from fresh copies of the arguments and from the same arrays again (no hidden
    state), (iii) not rewrite arrays it returned earlier.  Returns a list of violation dicts."""
    v = []
    base = name.split("/")[0]
    snaps = [np.array(a, copy=True) if isinstance(a, np.ndarray) else a for a in args]
    r1 = _flat_arrays(f(*args))
    for k, (a, s0) in enumerate(zip(args, snaps)):
        if isinstance(a, np.ndarray) and (a.shape != s0.shape or not np.array_equal(a, s0, equal_nan=(a.dtype.kind in "fc"))):
            v.append({"key": "%s/argument-modified/%s" % (key_prefix, base), "msg": "%s changed its argument %d in place: %r -> %r" % (name, k, s0.tolist(), a.tolist())})
    keep = [x.copy() for x in r1]
    r2 = _flat_arrays(f(*[np.array(s0, copy=True) if isinstance(s0, np.ndarray) else s0 for s0 in snaps]))
    r3 = _flat_arrays(f(*args)) if not v else r2

    def same(xs, ys):
        if len(xs) != len(ys):
            return False
        for x, y in zip(xs, ys):
            if x.shape != y.shape:
                return False
            try:
                if not np.allclose(x.astype(complex), y.astype(complex), rtol=rtol, atol=rtol, equal_nan=True):
                    return False
            except (TypeError, ValueError):
                if repr(x.tolist()) != repr(y.tolist()):
                    return False
        return True
    if not same(keep, r2):
        v.append({"key": "%s/answer-changes/%s/fresh-arguments" % (key_prefix, base), "msg": "%s answers differently the second time (fresh copies of the same arguments)" % name})
    if not same(keep, r3):
        v.append({"key": "%s/answer-changes/%s/same-arguments-again" % (key_prefix, base), "msg": "%s answers differently when called again with the same arrays" % name})
    if not same(r1, keep) or any(not np.array_equal(x, y, equal_nan=(x.dtype.kind in "fc")) for x, y in zip(r1, keep)):
        v.append({"key": "%s/returned-array-rewritten/%s" % (key_prefix, base), "msg": "%s: an array returned earlier was changed by a later call" % name})
    return v
