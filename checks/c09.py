"""C09 - an automaton's three views stay coherent however it was built or edited.

Engine E: BFS over operation histories on real FSA objects against the set model
(mc/oracle/fsa_model.py); engine P: kbmag record texts -> parse_record/_from_gap_record.
The histories include additions that re-use a label of the tail for another head (either edge may win, in all
three views alike), empty label lists (no edge, no neighbour) and, in the rich alphabet, ignore_redundant=False
with new labels; section start-vertex-lists: every automaton owns its list of start vertices.
"""
import copy
import itertools
import re

from mc.oracle.fsa_model import M

U_QUICK = {"V": [0, 1, 2], "L": ["a", "b"]}
U_THORO = {"V": [0, 1, 2], "L": ["a", "b", "c"]}
U_THORO4 = {"V": [0, 1, 2, 3], "L": ["a", "b"]}

# label->target dictionaries used as construction roots (as edge lists (u, v, l))
ROOT_GRAPHS = [
    [],
    [(0, 1, "a")],
    [(0, 1, "a"), (0, 1, "b")],                 # parallel edges: one shared label list
    [(0, 0, "a")],                              # self loop
    [(0, 1, "a"), (1, 0, "a"), (1, 1, "b")],
    [(0, 1, "a"), (1, 2, "a"), (2, 0, "a")],
    [(0, 1, "a"), (0, 2, "b"), (1, 2, "b"), (2, 2, "a")],
]


# ------------------------------------------------------------------------------------------
# building and applying
# ------------------------------------------------------------------------------------------
def _label_dict_for(edges, hide_targets):
    """label->target dict; with hide_targets the pure-target vertices are not keys (the
    library must discover them: _hidden_vertices)."""
    d = {}
    V = set()
    for (u, v, l) in edges:
        d.setdefault(u, {})[l] = v
        V.update((u, v))
    if not hide_targets:
        for v in V:
            d.setdefault(v, {})
    return d


def _out_dict_for(model, hide_targets):
    """target->labels dict; with hide_targets the vertices without outgoing edges are not keys."""
    od = model.out_dict()
    if hide_targets:
        od = {u: nb for u, nb in od.items() if nb}
    return od


def _with_empty_lists(od):
    """the target->labels dictionary with an EMPTY label list for every ordered pair of (key) vertices that has no edge:
    no labels, no edges - the same automaton"""
    return {u: dict([(w, []) for w in od if w not in nb] + list(nb.items())) for u, nb in od.items()}


def build_root(root):
    from geometry_tools.automata import fsa
    _, route, arg, U = root
    if route == "empty":
        return fsa.FSA({}), M(), U
    if route in ("graph", "graph_hidden", "deepcopy"):
        edges = [tuple(e) for e in arg]
        d = _label_dict_for(edges, route == "graph_hidden")
        model = M.from_label_dict(d)
        f = fsa.FSA(d, start_vertices=[0])
        if route == "deepcopy":
            f = copy.deepcopy(f)
        return f, model, U
    if route in ("out", "out_hidden", "out_empty_lists"):
        edges = [tuple(e) for e in arg]
        model = M.from_label_dict(_label_dict_for(edges, False))
        od = _out_dict_for(model, route == "out_hidden")
        if route == "out_empty_lists":
            od = _with_empty_lists(od)
        f = fsa.FSA(od, start_vertices=[0], graph_dict=False)
        return f, model, U
    if route in ("free", "free_iter", "free_tuple", "free_keys"):
        gens = list(arg)
        # the parameter is documented as an iterable of strings
        handed = {"free": gens, "free_iter": iter(gens), "free_tuple": tuple(gens), "free_keys": dict.fromkeys(gens).keys()}[route]
        f = fsa.free_automaton(handed)
        allg = gens + [g.swapcase() for g in gens]
        E = [(g, h, h) for g in [""] + allg for h in allg if h.swapcase() != g]
        return f, M([""] + allg, E), U
    if route == "kbmag":
        names, table = arg
        text = render_record(names, table, 0, False)
        from geometry_tools.automata import gap_parse
        rec, _ = gap_parse.parse_record(text)
        f = fsa._from_gap_record(rec)
        return f, model_of_table(names, table), U
    if route == "builtin":
        f = fsa.load_builtin(arg)
        names, table, initial = read_builtin_independently(arg)
        return f, model_of_table(names, table), U
    raise ValueError(route)


def enabled_ops(model, U, rich):
    V, L = U["V"], U["L"]
    ops = []
    for v in V:
        ops.append(["add_vertices", [v]])
    for u in V:
        for v in V:
            for l in L:
                if model.target(u, l) in (None, v):
                    ops.append(["add_edges", [[u, v, l]]])
    sizes = (1, 2, 3) if rich else (2,)
    for u in V:
        for v in V:
            for k in sizes:
                for ls in itertools.combinations(L, k):
                    if all(model.target(u, l) in (None, v) for l in ls):
                        ops.append(["add_edges_elist", [[u, v, list(ls)]]])
    if rich:
        # the vertices handed over as a one-shot iterable (the method only says 'vertices': any iterable, walked once)
        for vs in [[v] for v in V] + [[V[0], V[1]], [V[2], V[0]]]:
            ops.append(["add_vertices", vs, "iterator"])
        # ignore_redundant=False with labels that are all NEW between u and v (nothing is redundant: same result as the default)
        for u in V:
            for v in V:
                for k in (1, 2, 3):
                    for ls in itertools.combinations(L, k):
                        if all(model.target(u, l) is None for l in ls):
                            ops.append(["add_edges_elist", [[u, v, list(ls)]], "keep-redundant"])
        # a label repeated inside one elist entry (one call must not list it twice)
        for u in V[:2]:
            for v in V[:2]:
                for ls in ([L[0], L[1], L[0]], [L[0], L[0]]):
                    if all(model.target(u, l) in (None, v) for l in ls):
                        ops.append(["add_edges_elist", [[u, v, list(ls)]]])
        # two edges in one call
        for (u, v, l), (u2, v2, l2) in [((V[0], V[1], L[0]), (V[1], V[0], L[1])),
                                        ((V[0], V[1], L[0]), (V[0], V[1], L[1]))]:
            m2 = model
            if m2.target(u, l) in (None, v):
                m2 = m2.add_edges([(u, v, l)])
                if m2.target(u2, l2) in (None, v2):
                    ops.append(["add_edges", [[u, v, l], [u2, v2, l2]]])
    # an edge whose label already leaves the tail towards ANOTHER head (the automaton stays deterministic: see redirect())
    for (u, w, l) in sorted(model.E, key=repr):
        if u in V and l in L:
            for v in V:
                if v != w:
                    ops.append(["redirect", [[u, v, l]], False])
                    if rich:
                        ops.append(["redirect", [[u, v, [l]]], True])
                        for l2 in L:
                            if l2 != l:
                                ops.append(["redirect", [[u, v, [l, l2]]], True])
                                ops.append(["redirect", [[u, v, [l2, l]]], True])
    # no labels: no edges (the two vertices exist afterwards)
    for (u, v) in ((V[0], V[0]), (V[0], V[1]), (V[1], V[0])):
        ops.append(["add_edges_elist", [[u, v, []]]])
    mv = sorted(model.V, key=repr)
    for v in mv:
        ops.append(["delete_vertex", v])
    for a, b in itertools.combinations(mv, 2):
        ops.append(["delete_vertices", [a, b]])
    ops.append(["recurrent_inplace"])
    ops.append(["recurrent_copy"])
    used = {e[2] for e in model.E}
    if used <= set(L):
        perms = [p for p in itertools.permutations(L)]
        for p in (perms if rich else perms[1:2] + perms[:1]):
            mp = dict(zip(L, p))
            ops.append(["rename", mp, True])
            ops.append(["rename", mp, False])
    ops.append(["deepcopy"])
    if rich:
        for u in V[:2]:
            for v in V[:2]:
                ops.append(["query_has_edge", u, v])
    return ops


def redirect_outcomes(model, edges):
    """Models a call add_edges(edges) may lead to when some (tail, label) already has ANOTHER head.  The module
    documents 'at most one outgoing edge with a given label' and does not say which edge wins, so: the new edge replaces
    the old one, or the old one is kept and the new one dropped (edge by edge, in call order) - in ALL views alike."""
    rep, keep = model, model
    for (u, v, l) in edges:
        rep = M(rep.V | {u, v}, {e for e in rep.E if not (e[0] == u and e[2] == l)} | {(u, v, l)})
        keep = keep.add_vertices([u, v])
        if keep.target(u, l) is None:
            keep = keep.add_edges([(u, v, l)])
    return {"new-edge-replaces-old": rep, "old-edge-kept": keep}


def apply_op(f, model, op, retained, viol=None):
    """Apply op to the real automaton and to the model; returns (f, model)."""
    name = op[0]
    if name == "redirect":
        elist = op[2]
        if elist:
            f.add_edges([(u, v, list(ls)) for (u, v, ls) in op[1]], elist=True)
            flat = [(u, v, l) for (u, v, ls) in op[1] for l in ls]
        else:
            f.add_edges([tuple(e) for e in op[1]])
            flat = [tuple(e) for e in op[1]]
        cands = redirect_outcomes(model, flat)
        (Vl, Vo, Vi), Es = views(f)
        # the model follows the label view; the other two views must tell the same story (checked right here so that
        # the finding is named after the input class)
        chosen = None
        for nm, cand in cands.items():
            if set(Es[0]) == set(cand.E):
                chosen = cand
                break
        if chosen is None:
            chosen = cands["new-edge-replaces-old"]
            if viol is not None:
                viol.append({"key": "views/add-edge-with-used-label/label-view",
                             "msg": "add_edges(%r%s) on %r: label view %r is neither %r" % (
                                 op[1], ", elist=True" if elist else "", sorted(model.E, key=repr), sorted(set(Es[0]), key=repr),
                                 " nor ".join("%s %r" % (k_, sorted(c.E, key=repr)) for k_, c in cands.items()))})
        elif viol is not None:
            for nm, E in (("outgoing", Es[1]), ("incoming", Es[2])):
                if set(E) != set(chosen.E) or len(E) != len(set(E)):
                    viol.append({"key": "views/add-edge-with-used-label/%s-view" % nm,
                                 "msg": "add_edges(%r%s) on %r (the label is already used by an edge from the same tail to another head): "
                                        "label view %r, %s view %r" % (op[1], ", elist=True" if elist else "", sorted(model.E, key=repr),
                                                                       sorted(set(Es[0]), key=repr), nm, sorted(E, key=repr))})
        return f, chosen
    if name == "add_vertices":
        f.add_vertices(iter(list(op[1])) if len(op) > 2 and op[2] == "iterator" else list(op[1]))
        return f, model.add_vertices(op[1])
    if name == "add_edges":
        f.add_edges([tuple(e) for e in op[1]])
        return f, model.add_edges([tuple(e) for e in op[1]])
    if name == "add_edges_elist":
        if len(op) > 2 and op[2] == "keep-redundant":
            f.add_edges([(u, v, list(ls)) for (u, v, ls) in op[1]], elist=True, ignore_redundant=False)
        else:
            f.add_edges([(u, v, list(ls)) for (u, v, ls) in op[1]], elist=True)
        return f, model.add_vertices([x for (u, v, ls) in op[1] for x in (u, v)]).add_edges([(u, v, l) for (u, v, ls) in op[1] for l in ls])
    if name == "delete_vertex":
        f.delete_vertex(op[1])
        return f, model.delete_vertices([op[1]])
    if name == "delete_vertices":
        f.delete_vertices(list(op[1]))
        return f, model.delete_vertices(op[1])
    if name == "recurrent_inplace":
        r = f.recurrent(inplace=True)
        return f, model.recurrent()
    if name == "recurrent_copy":
        g = f.recurrent(inplace=False)
        retained.append((f, model, "receiver of recurrent(inplace=False)"))
        return g, model.recurrent()
    if name == "rename":
        mp, inplace = op[1], op[2]
        if inplace:
            f.rename_generators(dict(mp), inplace=True)
            return f, model.rename(mp)
        g = f.rename_generators(dict(mp), inplace=False)
        retained.append((f, model, "receiver of rename_generators(inplace=False)"))
        return g, model.rename(mp)
    if name == "deepcopy":
        g = copy.deepcopy(f)
        retained.append((f, model, "original of deepcopy"))
        return g, model
    if name == "query_has_edge":
        got = f.has_edge(op[1], op[2]) if op[1] in model.V else None
        return f, model
    raise ValueError(name)


# ------------------------------------------------------------------------------------------
# invariants
# ------------------------------------------------------------------------------------------
def views(f):
    """Raw labelled-edge lists of the three views, read without triggering defaultdicts."""
    gd, od, idd = f.graph_dict, f.out_dict, f.in_dict
    E_label = [(u, v, l) for u, nb in gd.items() for l, v in nb.items()]
    E_out = [(u, v, l) for u, nb in od.items() for v, ls in nb.items() for l in ls]
    E_in = [(u, v, l) for v, nb in idd.items() for u, ls in nb.items() for l in ls]
    return (set(gd.keys()), set(od.keys()), set(idd.keys())), (E_label, E_out, E_in)


def check_views(f, model, who="automaton"):
    out = []
    (Vl, Vo, Vi), (El, Eo, Ei) = views(f)
    if Vl != set(model.V):
        out.append({"key": "views/vertex-set/label-view", "msg": "%s: label view vertices %r, model %r" % (who, sorted(Vl, key=repr), sorted(model.V, key=repr))})
    if Vo != set(model.V):
        out.append({"key": "views/vertex-set/outgoing-view", "msg": "%s: outgoing view vertices %r, model %r" % (who, sorted(Vo, key=repr), sorted(model.V, key=repr))})
    if not Vi <= set(model.V):
        out.append({"key": "views/vertex-set/incoming-view", "msg": "%s: incoming view has foreign vertices %r" % (who, sorted(Vi - set(model.V), key=repr))})
    for nm, E in (("label", El), ("outgoing", Eo), ("incoming", Ei)):
        if len(E) != len(set(E)):
            dup = sorted({e for e in E if E.count(e) > 1}, key=repr)
            out.append({"key": "views/duplicate-edge/%s-view" % nm, "msg": "%s: %s view lists %r more than once" % (who, nm, dup)})
        if set(E) != set(model.E):
            out.append({"key": "views/edge-set/%s-view" % nm,
                        "msg": "%s: %s view edges %r, model %r" % (who, nm, sorted(set(E), key=repr), sorted(model.E, key=repr))})
    if out:
        return out
    # the public accessors must tell the same story
    api_l = list(f.edges(with_labels=True))
    api_o = [e for v in sorted(model.V, key=repr) for e in f.edges_out(v)]
    api_i = [e for v in sorted(model.V, key=repr) for e in f.edges_in(v)]
    for nm, E in (("edges", api_l), ("edges_out", api_o), ("edges_in", api_i)):
        if sorted(E, key=repr) != sorted(model.E, key=repr):
            out.append({"key": "views/api/%s" % nm, "msg": "%s: %s() gives %r, model %r" % (who, nm, sorted(E, key=repr), sorted(model.E, key=repr))})
    plain = sorted(f.edges(with_labels=False), key=repr)
    if plain != sorted(((u, v) for (u, v, l) in model.E), key=repr):
        out.append({"key": "views/api/edges-unlabelled", "msg": "%s: edges() gives %r" % (who, plain)})
    for v in sorted(model.V, key=repr):
        for nm, got, want in (("neighbors_out", list(f.neighbors_out(v)), {b for (a, b, l) in model.E if a == v}),
                              ("neighbors_in", list(f.neighbors_in(v)) if v in f.in_dict else [], {a for (a, b, l) in model.E if b == v})):
            if {w for w in got if w in want} != want or len(got) != len(set(got)):
                out.append({"key": "views/api/" + nm, "msg": "%s: %s(%r) = %r, model %r" % (who, nm, v, got, sorted(want, key=repr))})
            elif set(got) != want:
                out.append({"key": "views/api/%s/neighbour-without-edge" % nm,
                            "msg": "%s: %s(%r) = %r lists %r although there is no edge (model neighbours %r)"
                                   % (who, nm, v, got, sorted(set(got) - want, key=repr), sorted(want, key=repr))})
    return out


def real_signature(f):
    """Observable + hidden (aliasing, container kinds) real state, for de-duplication."""
    gd, od, idd = f.graph_dict, f.out_dict, f.in_dict
    sig = []
    for u in sorted(od.keys(), key=repr):
        for v in sorted(od[u].keys(), key=repr):
            ls = od[u][v]
            other = idd.get(v, {}).get(u) if v in idd else None
            sig.append((repr(u), repr(v), tuple(sorted(ls)), other is ls,
                        tuple(sorted(other)) if other is not None else None))
    kinds = tuple(sorted((repr(v), type(gd.get(v)).__name__, type(od.get(v)).__name__,
                          type(idd.get(v)).__name__ if v in idd else "-") for v in od.keys()))
    return (tuple(sig), kinds)


WHO_SLUG = {"receiver of recurrent(inplace=False)": "recurrent-copy", "receiver of rename_generators(inplace=False)": "rename-copy",
            "original of deepcopy": "deepcopy", "second automaton built from the same dictionary": "same-source-dictionary"}


def edit_start_list(f, edit):
    """In-place edit of the public start_vertices list; returns (list object, saved content) for the undo."""
    sv = f.start_vertices
    saved = list(sv)
    if edit == "append":
        sv.append("r")
    elif edit == "setitem":
        if len(sv):
            sv[0] = "r"
        else:
            sv.append("r")
    elif edit == "clear-extend":
        del sv[:]
        sv.extend(["r", "q"])
    else:
        raise ValueError(edit)
    return sv, saved


def start_lists_independent(f, retained):
    """The caller re-roots the automaton reached by the history in place; the automata left behind (receivers of
    non-in-place operations, originals of copies, the twin built from the same dictionary) keep their start vertices."""
    others = [(g, who) for (g, gm, who) in retained if g is not f]
    before = [list(g.start_vertices) for (g, who) in others]
    sv, saved = edit_start_list(f, "setitem")
    try:
        for (g, who), b in zip(others, before):
            if list(g.start_vertices) != b:
                return [{"key": "start-vertices/shared-list/" + WHO_SLUG.get(who, "other"),
                         "msg": "re-rooting the reached automaton in place changed the start vertices of the %s: %r -> %r"
                                % (who, b, list(g.start_vertices))}]
    finally:
        sv[:] = saved
    return []


def _source_dict(root):
    """(source dictionary handed to the constructor, graph_dict flag) for dictionary-built roots, else None."""
    _, route, arg, U = root
    if route in ("graph", "graph_hidden"):
        return _label_dict_for([tuple(e) for e in arg], route == "graph_hidden"), True
    if route in ("out", "out_hidden", "out_empty_lists"):
        od = _out_dict_for(M.from_label_dict(_label_dict_for([tuple(e) for e in arg], False)), route == "out_hidden")
        return (_with_empty_lists(od) if route == "out_empty_lists" else od), False
    return None


def run_history(hist, rich):
    root = hist[0]
    f, model, U = build_root(root)
    retained = []
    src = _source_dict(root)
    if src is not None:
        # the caller keeps his dictionary and builds TWO automata from it; the history edits the first one only
        from geometry_tools.automata import fsa as _fsa
        d, flag = src
        snapshot = copy.deepcopy(d)
        f = _fsa.FSA(d, start_vertices=[0], graph_dict=flag)
        twin = _fsa.FSA(d, start_vertices=[0], graph_dict=flag)
        retained.append((twin, model, "second automaton built from the same dictionary"))
    early = []
    for op in hist[1:]:
        f, model = apply_op(f, model, op, retained, early)
        if early:
            break
    v = early or check_views(f, model)
    for (g, gm, who) in retained:
        for x in check_views(g, gm, who):
            x["key"] = x["key"].replace("views/", "views-retained/")
            v.append(x)
    if not v:
        v += start_lists_independent(f, retained)
    if src is not None and not v and d != snapshot:
        v.append({"key": "views-retained/source-dictionary-modified", "msg": "the dictionary the automaton was built from was changed by the history: %r, was %r" % (d, snapshot)})
    key = repr((model.key(), real_signature(f) if not v else None))
    ops = [] if v else enabled_ops(model, U, rich)
    return {"v": v, "key": key, "ops": ops, "t": len(hist),
            "o": repr(model.key()), "nt": len(model.E) > 0}


def case_history(hist):
    return run_history(hist, False)


def case_history_rich(hist):
    return run_history(hist, True)


# ------------------------------------------------------------------------------------------
# kbmag records
# ------------------------------------------------------------------------------------------
def render_record(names, table, style, interval):
    """Our own printer of a kbmag word-acceptor record (independent of the parser).  Styles 1 and 2 write the
    alphabet names as quoted strings (GAP accepts both forms)."""
    quoted = style in (1, 2)
    k = len(table)
    # styles 4, 5: the other white space characters of GAP (carriage return: files with CRLF line ends; form feed)
    nl = {0: "\n", 1: "\n   ", 2: " ", 3: "\n\t", 4: "\r\n", 5: "\n\f"}[style]
    sp = {0: " ", 1: "  ", 2: "", 3: " ", 4: " ", 5: "\f"}[style]
    # interval == "spaced": ranges the way GAP itself prints them, [ 1 .. 2 ]
    rng = "[ %d .. %d ]" if interval == "spaced" else "[%d..%d]"
    def row_text(row):
        # GAP prints consecutive ascending integer lists as ranges [a..b]
        if interval and len(row) >= 2 and all(row[i + 1] == row[i] + 1 for i in range(len(row) - 1)):
            return rng % (row[0], row[-1])
        return "[" + ("," + {0: "", 2: "", 4: "\r\n", 5: "\f"}.get(style, " ")).join(str(t) for t in row) + "]"
    rows = ("," + nl + " " * (10 if style == 0 else 0)).join(
        row_text(row) + (" " if style == 1 else "") for row in table)
    acc = (rng % (1, k)) if (interval and k >= 1) else "[" + ",".join(str(i + 1) for i in range(k)) + "]"
    init = (rng % (1, 1)) if interval and style in (1, 3, 5) else "[1]"
    return ("_RWS.wa" + sp + ":=" + sp + "rec(" + nl +
            "isFSA" + sp + ":=" + sp + "true," + nl +
            "alphabet" + sp + ":=" + sp + "rec(" + nl +
            "type := \"identifiers\"," + nl + "size := %d," % len(names) + nl +
            "format" + sp + ":=" + sp + "\"dense\"," + nl +
            "names" + sp + ":=" + sp + "[" + ",".join(('"%s"' % x) if quoted else x for x in names) + "]" + nl + ")," + nl +
            "states := rec(" + nl + "type := \"simple\"," + nl + "size := %d" % k + nl + ")," + nl +
            "flags := [\"DFA\",\"minimized\",\"BFS\",\"accessible\",\"trim\"]," + nl +
            "initial" + sp + ":=" + sp + init + "," + nl +
            "accepting" + sp + ":=" + sp + acc + "," + nl +
            "table := rec(" + nl + "format := \"dense deterministic\"," + nl +
            "numTransitions := %d," % sum(1 for r in table for t in r if t) + nl +
            "transitions" + sp + ":=" + sp + "[" + rows + nl + "]" + nl + ")" + nl + ");" + "\n")


def model_of_table(names, table):
    k = len(table)
    E = [(i + 1, t, names[j]) for i, row in enumerate(table) for j, t in enumerate(row) if t != 0]
    return M(range(1, k + 1), E)


def read_builtin_independently(name):
    """Regex reading of a built-in kbmag file, independent of gap_parse."""
    import os
    import geometry_tools.automata as A
    path = os.path.join(os.path.dirname(A.__file__), "builtin", name)
    text = open(path).read()
    names = re.search(r"names\s*:=\s*\[([^\]]*)\]", text).group(1)
    names = [n.strip().strip('"') for n in names.split(",") if n.strip()]
    tr = re.search(r"transitions\s*:=\s*\[(.*?)\]\s*\]", text, re.S).group(1) + "]"
    rows = re.findall(r"\[([^\[\]]*)\]", tr)
    table = [[int(x) for x in r.replace(" ", "").split(",") if x.strip() != ""] for r in rows]
    initial = re.search(r"initial\s*:=\s*\[([^\]]*)\]", text).group(1)
    initial = [int(x) for x in initial.split(",") if x.strip()]
    return names, table, initial


def _kbmag_class(style, interval):
    return {4: "/CRLF-line-ends", 5: "/form-feed"}.get(style, "") + ("/interval-with-blanks" if interval == "spaced" else "")


def case_kbmag(case):
    from geometry_tools.automata import fsa, gap_parse
    names, table, style, interval = case["names"], case["table"], case["style"], case["interval"]
    text = render_record(names, table, style, interval)
    rec, _ = gap_parse.parse_record(text)
    v = []
    inner = [d for d in rec.values() if isinstance(d, dict) and d.get("isFSA") == "true"]
    if len(inner) != 1:
        return {"v": [{"key": "kbmag/record-shape" + _kbmag_class(style, interval), "msg": "parsed record %r" % (rec,)}]}
    d = inner[0]
    if list(d["alphabet"]["names"]) != list(names):
        v.append({"key": "kbmag/names", "msg": "names %r != %r" % (d["alphabet"]["names"], names)})
    if [list(r) for r in d["table"]["transitions"]] != [list(r) for r in table]:
        v.append({"key": "kbmag/transitions", "msg": "transitions %r != %r" % (d["table"]["transitions"], table)})
    if list(d["initial"]) != [1]:
        v.append({"key": "kbmag/initial", "msg": "initial %r" % (d["initial"],)})
    if list(d["accepting"]) != list(range(1, len(table) + 1)):
        v.append({"key": "kbmag/accepting", "msg": "accepting %r" % (d["accepting"],)})
    f = fsa._from_gap_record(rec)
    model = model_of_table(names, table)
    v += check_views(f, model)
    if list(f.start_vertices) != [1]:
        v.append({"key": "kbmag/start", "msg": "start vertices %r" % (f.start_vertices,)})
    for x in v:
        x["key"] += _kbmag_class(style, interval)
    return {"v": v, "t": 2, "o": repr(model.key()), "nt": len(model.E) > 0}


def case_builtin(case):
    from geometry_tools.automata import fsa
    name = case["name"]
    f = fsa.load_builtin(name)
    names, table, initial = read_builtin_independently(name)
    model = model_of_table(names, table)
    v = check_views(f, model)
    if list(f.start_vertices) != initial:
        v.append({"key": "kbmag/start", "msg": "start vertices %r != %r" % (f.start_vertices, initial)})
    g = copy.deepcopy(f)
    v += check_views(g, model, "deepcopy")
    return {"v": v, "t": 2, "o": len(model.E), "nt": True}


# ------------------------------------------------------------------------------------------
# start vertices: every automaton owns its list, however it was obtained
# ------------------------------------------------------------------------------------------
START_ROUTES = ["noargs", "empty-dict", "label-dict", "target-dict", "label-dict+start", "target-dict+start", "free", "kbmag", "builtin"]
DERIVED_ROUTES = ["deepcopy", "recurrent-copy", "rename-copy", "multiple", "shortest-paths"]
START_EDITS = ["append", "setitem", "clear-extend"]
_START_D = {0: {"a": 1}, 1: {"a": 0}}


def _start_build(route, handed):
    """(automaton, start list the construction route states); `handed` is the caller's own list for the +start routes."""
    from geometry_tools.automata import fsa, gap_parse
    if route == "noargs":
        return fsa.FSA(), []
    if route == "empty-dict":
        return fsa.FSA({}), []
    if route == "label-dict":
        return fsa.FSA(copy.deepcopy(_START_D)), []
    if route == "target-dict":
        return fsa.FSA({0: {1: ["a"]}, 1: {0: ["a"]}}, graph_dict=False), []
    if route == "label-dict+start":
        return fsa.FSA(copy.deepcopy(_START_D), start_vertices=handed), list(handed)
    if route == "target-dict+start":
        return fsa.FSA({0: {1: ["a"]}, 1: {0: ["a"]}}, start_vertices=handed, graph_dict=False), list(handed)
    if route == "free":
        return fsa.free_automaton(["a"]), [""]
    if route == "kbmag":
        rec, _ = gap_parse.parse_record(render_record(["a", "b"], [[2, 0], [2, 1]], 0, False))
        return fsa._from_gap_record(rec), [1]
    if route == "builtin":
        return fsa.load_builtin("f2.wa"), [1]
    raise ValueError(route)


def _start_derive(A, route):
    if route == "deepcopy":
        return copy.deepcopy(A)
    if route == "recurrent-copy":
        return A.recurrent(inplace=False)
    if route == "rename-copy":
        return A.rename_generators({"a": "b"}, inplace=False)
    if route == "multiple":
        return A.automaton_multiple(1)
    if route == "shortest-paths":
        return A.remove_long_paths(root=0)
    raise ValueError(route)


def case_start_lists(case):
    """Automaton A by route a (the +start routes hand in the caller's own list), automaton B by route b (a second
    construction, or derived from A) built before or after the edit; the caller edits ONE of the lists in place
    (A's start_vertices, or his own list): every other list keeps its content."""
    ra, rb, edit, order, target = case["a"], case["b"], case["edit"], case["order"], case["target"]
    handed_a, handed_b = [0], [1]
    A, exp_a = _start_build(ra, handed_a)
    undo = []
    v = []

    def build_b():
        if rb in DERIVED_ROUTES:
            return _start_derive(A, rb), None
        return _start_build(rb, handed_b)

    try:
        B = exp_b = None
        if order == "b-first":
            before_a = list(A.start_vertices)
            B, exp_b = build_b()
            if exp_b is None:                       # derived: whatever it has now (its content: C10), it keeps
                exp_b = list(B.start_vertices)
        if target == "automaton":
            undo.append(edit_start_list(A, edit))
            if list(handed_a) != [0]:
                v.append({"key": "start-vertices/shared-list/callers-list-follows-automaton/%s" % ra,
                          "msg": "editing A.start_vertices in place (%s) changed the list handed to the constructor: %r" % (edit, handed_a)})
        else:                                        # the caller goes on using the list he handed in
            saved = list(handed_a)
            handed_a.append("r")
            handed_a[0] = "q"
            if list(A.start_vertices) != exp_a:
                v.append({"key": "start-vertices/shared-list/automaton-follows-callers-list/%s" % ra,
                          "msg": "editing the list handed to the constructor changed A.start_vertices: %r, constructed with %r" % (list(A.start_vertices), saved)})
        if order == "b-after":
            B, exp_b = build_b()
        if exp_b is not None and list(B.start_vertices) != exp_b and not v:
            cls = rb if rb in DERIVED_ROUTES else "second-construction/%s" % rb
            v.append({"key": "start-vertices/shared-list/%s" % cls,
                      "msg": "A built by %r, B by %r (%s); after editing %s in place (%s) B.start_vertices = %r, expected %r"
                             % (ra, rb, order, "A.start_vertices" if target == "automaton" else "the caller's list", edit, list(B.start_vertices), exp_b)})
    finally:
        for sv, saved in undo:
            sv[:] = saved
    return {"v": v, "t": 3, "o": "%s/%s/%s" % (ra, rb, order), "nt": True}


def start_list_cases():
    for ra in START_ROUTES:
        for rb in START_ROUTES + DERIVED_ROUTES:
            if rb in DERIVED_ROUTES and ra in ("noargs", "empty-dict", "free", "kbmag", "builtin"):
                continue                            # derived routes use the two-vertex automaton over {a}
            # a B derived from A is built before the edit (derived afterwards it would inherit the edited roots)
            for order in (("b-first",) if rb in DERIVED_ROUTES else ("b-first", "b-after")):
                for edit in START_EDITS:
                    yield {"a": ra, "b": rb, "edit": edit, "order": order, "target": "automaton"}
                if ra.endswith("+start"):
                    yield {"a": ra, "b": rb, "edit": "-", "order": order, "target": "callers-list"}


def kbmag_cases(kmax, nnames, styles):
    for k in range(1, kmax + 1):
        for nn in range(1, nnames + 1):
            names = ["a", "b", "c"][:nn]
            for flat in itertools.product(range(0, k + 1), repeat=k * nn):
                table = [list(flat[i * nn:(i + 1) * nn]) for i in range(k)]
                for style in styles:
                    for interval in (False, True, "spaced"):
                        yield {"names": names, "table": table, "style": style, "interval": interval}


# ------------------------------------------------------------------------------------------
def run(ctx):
    q = ctx.quick
    ctx.rule = ("histories of FSA construction/edit operations explored breadth-first on real objects vs a "
                "set model, de-duplicated on (model state, real-view signature incl. list aliasing); "
                "kbmag tables enumerated completely; a case is non-trivial when the automaton has >=1 edge")
    ctx.assume("edits keep the automaton deterministic (enabled ops are computed from the model); adding an edge whose label already "
               "leaves the tail towards another head is in the domain (add_edges accepts it): the documented invariant 'at most one "
               "outgoing edge with a given label' leaves two coherent outcomes, the new edge replaces the old one or the old one is "
               "kept, and either is accepted provided that all three views show the same one")
    ctx.assume("an empty list of labels (target -> labels dictionary, add_edges(elist=True)) adds no edge: the target is a vertex, "
               "not a neighbour")
    ctx.assume("vertices without incoming edges may be absent from the incoming view (only foreign vertices are an error)")
    U = U_QUICK
    roots = [[["ctor", "empty", None, U]]]
    for g in ROOT_GRAPHS[1:]:
        roots.append([["ctor", "graph", g, U]])
        roots.append([["ctor", "out", g, U]])
    roots.append([["ctor", "graph_hidden", ROOT_GRAPHS[1], U]])
    roots.append([["ctor", "graph_hidden", ROOT_GRAPHS[6], U]])
    # several vertices that appear only as targets (the library has to invent their rows)
    roots.append([["ctor", "graph_hidden", [(0, 1, "a"), (0, 2, "b")], U]])
    roots.append([["ctor", "graph_hidden", [(2, 0, "a"), (2, 1, "b")], U]])
    roots.append([["ctor", "out_hidden", ROOT_GRAPHS[1], U]])
    roots.append([["ctor", "out_hidden", [(0, 1, "a"), (0, 2, "b")], U]])
    roots.append([["ctor", "out_hidden", [(2, 0, "a"), (2, 1, "b")], U]])
    roots.append([["ctor", "out_hidden", [(0, 1, "a"), (0, 1, "b")], U]])
    # target -> labels dictionaries that list some targets with an EMPTY label list (no labels, no edges)
    for g in (ROOT_GRAPHS[1], ROOT_GRAPHS[4], [(1, 0, "a")]):
        roots.append([["ctor", "out_empty_lists", g, U]])
    roots.append([["ctor", "deepcopy", ROOT_GRAPHS[2], U]])
    roots.append([["ctor", "free", ["a"], {"V": ["", "a", "A"], "L": ["a", "A"]}]])
    for r in ("free_iter", "free_tuple", "free_keys"):
        roots.append([["ctor", r, ["a"], {"V": ["", "a", "A"], "L": ["a", "A"]}]])
    roots.append([["ctor", "kbmag", [["a", "b"], [[2, 0], [2, 1]]], {"V": [1, 2, 3], "L": ["a", "b"]}]])
    roots.append([["ctor", "builtin", "f2.wa", {"V": [1, 2, 3], "L": ["a", "b"]}]])
    dom = {"vertices": U["V"], "labels": U["L"], "roots": len(roots),
           "ops": "add_vertices, add_edges(single), add_edges(elist, also an empty label list), add_edges re-using a label of the tail "
                  "for another head (single / elist), delete_vertex, delete_vertices, "
                  "recurrent(inplace/copy), rename_generators(inplace/copy), deepcopy"}
    ctx.bfs("histories", "checks.c09:case_history", roots, depth=3 if q else 5, domains=dom, chunk=64)
    # rich alphabet (3 labels, query ops, two-edge calls), and a 4-vertex universe
    roots_r = [[["ctor", "empty", None, U_THORO]], [["ctor", "graph", ROOT_GRAPHS[2], U_THORO]],
               [["ctor", "out", ROOT_GRAPHS[4], U_THORO]]]
    ctx.bfs("histories-rich", "checks.c09:case_history_rich", roots_r, depth=2 if q else 3,
            domains={"vertices": U_THORO["V"], "labels": U_THORO["L"], "extra ops": "elist subsets of size 1..3 (also with ignore_redundant=False when every label is new), add_vertices(iterator), two-edge calls, has_edge queries"},
            chunk=64)
    if not q:
        roots4 = [[["ctor", "empty", None, U_THORO4]], [["ctor", "graph", ROOT_GRAPHS[5], U_THORO4]]]
        ctx.bfs("histories-4-vertices", "checks.c09:case_history", roots4, depth=4,
                domains={"vertices": U_THORO4["V"], "labels": U_THORO4["L"]}, chunk=64)
        ctx.bfs("histories-no-dedup", "checks.c09:case_history", roots[:6], depth=3, dedup=False,
                domains={"note": "pure bounded DFS over all histories, no state merging"}, chunk=256)
    ctx.assume("start_vertices is a public list attribute: the caller may edit it in place (append, item assignment); two automata, "
               "or an automaton and the list handed to its constructor, never share one list")
    ctx.product("start-vertex-lists", "checks.c09:case_start_lists", list(start_list_cases()),
                domains={"A built by": START_ROUTES, "B built by": START_ROUTES + ["derived from A: " + r for r in DERIVED_ROUTES],
                         "B built": ["before the edit", "after the edit"], "in-place edit of A.start_vertices": START_EDITS,
                         "also": "the caller edits the list he handed to A's constructor"}, chunk=64)
    # kbmag records
    cases = list(kbmag_cases(2 if q else 3, 2, (0, 1, 2, 3, 4, 5)))
    ctx.product("kbmag-records", "checks.c09:case_kbmag", cases,
                domains={"states": "1..%d" % (2 if q else 3), "names": "1..2", "targets": "0..k (0 = failure state)",
                         "spacing styles": "6: blanks / newlines+indent / one line / tabs / CRLF line ends (also inside a row) / form feed",
                         "accepting syntax": ["explicit", "interval [1..k]", "interval with blanks [ 1 .. k ] (as GAP prints ranges)"]}, chunk=256)
    from geometry_tools.automata import fsa
    names = sorted(fsa.list_builtins())
    ctx.product("builtin-files", "checks.c09:case_builtin", [{"name": n} for n in names if not n.startswith("__")],
                domains={"files": len(names)}, chunk=1)
