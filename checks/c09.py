"""C09 - an automaton's three views stay coherent however it was built or edited.

Engine E: BFS over operation histories on real FSA objects against the set model
(mc/oracle/fsa_model.py); engine P: kbmag record texts -> parse_record/_from_gap_record.
"""
import copy
import itertools
import re

from mc.oracle.fsa_model import M

U_QUICK = {"V": [0, 1, 2], "L": ["a", "b"]}
U_THORO = {"V": [0, 1, 2], "L": ["a", "b", "c"]}
U_THORO4 = {"V": [0, 1, 2, 3], "L": ["a", "b"]}

# label->target dictionaries used as construction roots (as edge lists (u, v, l))
ROOT_GRAPHS = [
    [],
    [(0, 1, "a")],
    [(0, 1, "a"), (0, 1, "b")],                 # parallel edges: one shared label list
    [(0, 0, "a")],                              # self loop
    [(0, 1, "a"), (1, 0, "a"), (1, 1, "b")],
    [(0, 1, "a"), (1, 2, "a"), (2, 0, "a")],
    [(0, 1, "a"), (0, 2, "b"), (1, 2, "b"), (2, 2, "a")],
]


# ------------------------------------------------------------------------------------------
# building and applying
# ------------------------------------------------------------------------------------------
def _label_dict_for(edges, hide_targets):
    """label->target dict; with hide_targets the pure-target vertices are not keys (the
    library must discover them: _hidden_vertices)."""
    d = {}
    V = set()
    for (u, v, l) in edges:
        d.setdefault(u, {})[l] = v
        V.update((u, v))
    if not hide_targets:
        for v in V:
            d.setdefault(v, {})
    return d


def _out_dict_for(model, hide_targets):
    """target->labels dict; with hide_targets the vertices without outgoing edges are not keys."""
    od = model.out_dict()
    if hide_targets:
        od = {u: nb for u, nb in od.items() if nb}
    return od


def build_root(root):
    from geometry_tools.automata import fsa
    _, route, arg, U = root
    if route == "empty":
        return fsa.FSA({}), M(), U
    if route in ("graph", "graph_hidden", "deepcopy"):
        edges = [tuple(e) for e in arg]
        d = _label_dict_for(edges, route == "graph_hidden")
        model = M.from_label_dict(d)
        f = fsa.FSA(d, start_vertices=[0])
        if route == "deepcopy":
            f = copy.deepcopy(f)
        return f, model, U
    if route in ("out", "out_hidden"):
        edges = [tuple(e) for e in arg]
        model = M.from_label_dict(_label_dict_for(edges, False))
        od = _out_dict_for(model, route == "out_hidden")
        f = fsa.FSA(od, start_vertices=[0], graph_dict=False)
        return f, model, U
    if route in ("free", "free_iter", "free_tuple", "free_keys"):
        gens = list(arg)
        # the parameter is documented as an iterable of strings
        handed = {"free": gens, "free_iter": iter(gens), "free_tuple": tuple(gens), "free_keys": dict.fromkeys(gens).keys()}[route]
        f = fsa.free_automaton(handed)
        allg = gens + [g.swapcase() for g in gens]
        E = [(g, h, h) for g in [""] + allg for h in allg if h.swapcase() != g]
        return f, M([""] + allg, E), U
    if route == "kbmag":
        names, table = arg
        text = render_record(names, table, 0, False)
        from geometry_tools.automata import gap_parse
        rec, _ = gap_parse.parse_record(text)
        f = fsa._from_gap_record(rec)
        return f, model_of_table(names, table), U
    if route == "builtin":
        f = fsa.load_builtin(arg)
        names, table, initial = read_builtin_independently(arg)
        return f, model_of_table(names, table), U
    raise ValueError(route)


def enabled_ops(model, U, rich):
    V, L = U["V"], U["L"]
    ops = []
    for v in V:
        ops.append(["add_vertices", [v]])
    for u in V:
        for v in V:
            for l in L:
                if model.target(u, l) in (None, v):
                    ops.append(["add_edges", [[u, v, l]]])
    sizes = (1, 2, 3) if rich else (2,)
    for u in V:
        for v in V:
            for k in sizes:
                for ls in itertools.combinations(L, k):
                    if all(model.target(u, l) in (None, v) for l in ls):
                        ops.append(["add_edges_elist", [[u, v, list(ls)]]])
    if rich:
        # a label repeated inside one elist entry (one call must not list it twice)
        for u in V[:2]:
            for v in V[:2]:
                for ls in ([L[0], L[1], L[0]], [L[0], L[0]]):
                    if all(model.target(u, l) in (None, v) for l in ls):
                        ops.append(["add_edges_elist", [[u, v, list(ls)]]])
        # two edges in one call
        for (u, v, l), (u2, v2, l2) in [((V[0], V[1], L[0]), (V[1], V[0], L[1])),
                                        ((V[0], V[1], L[0]), (V[0], V[1], L[1]))]:
            m2 = model
            if m2.target(u, l) in (None, v):
                m2 = m2.add_edges([(u, v, l)])
                if m2.target(u2, l2) in (None, v2):
                    ops.append(["add_edges", [[u, v, l], [u2, v2, l2]]])
    mv = sorted(model.V, key=repr)
    for v in mv:
        ops.append(["delete_vertex", v])
    for a, b in itertools.combinations(mv, 2):
        ops.append(["delete_vertices", [a, b]])
    ops.append(["recurrent_inplace"])
    ops.append(["recurrent_copy"])
    used = {e[2] for e in model.E}
    if used <= set(L):
        perms = [p for p in itertools.permutations(L)]
        for p in (perms if rich else perms[1:2] + perms[:1]):
            mp = dict(zip(L, p))
            ops.append(["rename", mp, True])
            ops.append(["rename", mp, False])
    ops.append(["deepcopy"])
    if rich:
        for u in V[:2]:
            for v in V[:2]:
                ops.append(["query_has_edge", u, v])
    return ops


def apply_op(f, model, op, retained):
    """Apply op to the real automaton and to the model; returns (f, model)."""
    name = op[0]
    if name == "add_vertices":
        f.add_vertices(list(op[1]))
        return f, model.add_vertices(op[1])
    if name == "add_edges":
        f.add_edges([tuple(e) for e in op[1]])
        return f, model.add_edges([tuple(e) for e in op[1]])
    if name == "add_edges_elist":
        f.add_edges([(u, v, list(ls)) for (u, v, ls) in op[1]], elist=True)
        return f, model.add_edges([(u, v, l) for (u, v, ls) in op[1] for l in ls])
    if name == "delete_vertex":
        f.delete_vertex(op[1])
        return f, model.delete_vertices([op[1]])
    if name == "delete_vertices":
        f.delete_vertices(list(op[1]))
        return f, model.delete_vertices(op[1])
    if name == "recurrent_inplace":
        r = f.recurrent(inplace=True)
        return f, model.recurrent()
    if name == "recurrent_copy":
        g = f.recurrent(inplace=False)
        retained.append((f, model, "receiver of recurrent(inplace=False)"))
        return g, model.recurrent()
    if name == "rename":
        mp, inplace = op[1], op[2]
        if inplace:
            f.rename_generators(dict(mp), inplace=True)
            return f, model.rename(mp)
        g = f.rename_generators(dict(mp), inplace=False)
        retained.append((f, model, "receiver of rename_generators(inplace=False)"))
        return g, model.rename(mp)
    if name == "deepcopy":
        g = copy.deepcopy(f)
        retained.append((f, model, "original of deepcopy"))
        return g, model
    if name == "query_has_edge":
        got = f.has_edge(op[1], op[2]) if op[1] in model.V else None
        return f, model
    raise ValueError(name)


# ------------------------------------------------------------------------------------------
# invariants
# ------------------------------------------------------------------------------------------
def views(f):
    """Raw labelled-edge lists of the three views, read without triggering defaultdicts."""
    gd, od, idd = f.graph_dict, f.out_dict, f.in_dict
    E_label = [(u, v, l) for u, nb in gd.items() for l, v in nb.items()]
    E_out = [(u, v, l) for u, nb in od.items() for v, ls in nb.items() for l in ls]
    E_in = [(u, v, l) for v, nb in idd.items() for u, ls in nb.items() for l in ls]
    return (set(gd.keys()), set(od.keys()), set(idd.keys())), (E_label, E_out, E_in)


def check_views(f, model, who="automaton"):
    out = []
    (Vl, Vo, Vi), (El, Eo, Ei) = views(f)
    if Vl != set(model.V):
        out.append({"key": "views/vertex-set/label-view", "msg": "%s: label view vertices %r, model %r" % (who, sorted(Vl, key=repr), sorted(model.V, key=repr))})
    if Vo != set(model.V):
        out.append({"key": "views/vertex-set/outgoing-view", "msg": "%s: outgoing view vertices %r, model %r" % (who, sorted(Vo, key=repr), sorted(model.V, key=repr))})
    if not Vi <= set(model.V):
        out.append({"key": "views/vertex-set/incoming-view", "msg": "%s: incoming view has foreign vertices %r" % (who, sorted(Vi - set(model.V), key=repr))})
    for nm, E in (("label", El), ("outgoing", Eo), ("incoming", Ei)):
        if len(E) != len(set(E)):
            dup = sorted({e for e in E if E.count(e) > 1}, key=repr)
            out.append({"key": "views/duplicate-edge/%s-view" % nm, "msg": "%s: %s view lists %r more than once" % (who, nm, dup)})
        if set(E) != set(model.E):
            out.append({"key": "views/edge-set/%s-view" % nm,
                        "msg": "%s: %s view edges %r, model %r" % (who, nm, sorted(set(E), key=repr), sorted(model.E, key=repr))})
    if out:
        return out
    # the public accessors must tell the same story
    api_l = list(f.edges(with_labels=True))
    api_o = [e for v in sorted(model.V, key=repr) for e in f.edges_out(v)]
    api_i = [e for v in sorted(model.V, key=repr) for e in f.edges_in(v)]
    for nm, E in (("edges", api_l), ("edges_out", api_o), ("edges_in", api_i)):
        if sorted(E, key=repr) != sorted(model.E, key=repr):
            out.append({"key": "views/api/%s" % nm, "msg": "%s: %s() gives %r, model %r" % (who, nm, sorted(E, key=repr), sorted(model.E, key=repr))})
    plain = sorted(f.edges(with_labels=False), key=repr)
    if plain != sorted(((u, v) for (u, v, l) in model.E), key=repr):
        out.append({"key": "views/api/edges-unlabelled", "msg": "%s: edges() gives %r" % (who, plain)})
    for v in sorted(model.V, key=repr):
        no = {w for w in f.neighbors_out(v) if len(f.edge_labels(v, w)) > 0}
        if no != {b for (a, b, l) in model.E if a == v}:
            out.append({"key": "views/api/neighbors_out", "msg": "%s: neighbors_out(%r) = %r" % (who, v, sorted(no, key=repr))})
    return out


def real_signature(f):
    """Observable + hidden (aliasing, container kinds) real state, for de-duplication."""
    gd, od, idd = f.graph_dict, f.out_dict, f.in_dict
    sig = []
    for u in sorted(od.keys(), key=repr):
        for v in sorted(od[u].keys(), key=repr):
            ls = od[u][v]
            other = idd.get(v, {}).get(u) if v in idd else None
            sig.append((repr(u), repr(v), tuple(sorted(ls)), other is ls,
                        tuple(sorted(other)) if other is not None else None))
    kinds = tuple(sorted((repr(v), type(gd.get(v)).__name__, type(od.get(v)).__name__,
                          type(idd.get(v)).__name__ if v in idd else "-") for v in od.keys()))
    return (tuple(sig), kinds)


def _source_dict(root):
    """(source dictionary handed to the constructor, graph_dict flag) for dictionary-built roots, else None."""
    _, route, arg, U = root
    if route in ("graph", "graph_hidden"):
        return _label_dict_for([tuple(e) for e in arg], route == "graph_hidden"), True
    if route in ("out", "out_hidden"):
        return _out_dict_for(M.from_label_dict(_label_dict_for([tuple(e) for e in arg], False)), route == "out_hidden"), False
    return None


def run_history(hist, rich):
    root = hist[0]
    f, model, U = build_root(root)
    retained = []
    src = _source_dict(root)
    if src is not None:
        # the caller keeps his dictionary and builds TWO automata from it; the history edits the first one only
        from geometry_tools.automata import fsa as _fsa
        d, flag = src
        snapshot = copy.deepcopy(d)
        f = _fsa.FSA(d, start_vertices=[0], graph_dict=flag)
        twin = _fsa.FSA(d, start_vertices=[0], graph_dict=flag)
        retained.append((twin, model, "second automaton built from the same dictionary"))
    for op in hist[1:]:
        f, model = apply_op(f, model, op, retained)
    v = check_views(f, model)
    for (g, gm, who) in retained:
        for x in check_views(g, gm, who):
            x["key"] = x["key"].replace("views/", "views-retained/")
            v.append(x)
    if src is not None and not v and d != snapshot:
        v.append({"key": "views-retained/source-dictionary-modified", "msg": "the dictionary the automaton was built from was changed by the history: %r, was %r" % (d, snapshot)})
    key = repr((model.key(), real_signature(f) if not v else None))
    ops = [] if v else enabled_ops(model, U, rich)
    return {"v": v, "key": key, "ops": ops, "t": len(hist),
            "o": repr(model.key()), "nt": len(model.E) > 0}


def case_history(hist):
    return run_history(hist, False)


def case_history_rich(hist):
    return run_history(hist, True)


# ------------------------------------------------------------------------------------------
# kbmag records
# ------------------------------------------------------------------------------------------
def render_record(names, table, style, interval):
    """Our own printer of a kbmag word-acceptor record (independent of the parser).  Styles 1 and 2 write the
    alphabet names as quoted strings (GAP accepts both forms)."""
    quoted = style in (1, 2)
    k = len(table)
    nl = {0: "\n", 1: "\n   ", 2: " ", 3: "\n\t"}[style]
    sp = {0: " ", 1: "  ", 2: "", 3: " "}[style]
    def row_text(row):
        # GAP prints consecutive ascending integer lists as ranges [a..b]
        if interval and len(row) >= 2 and all(row[i + 1] == row[i] + 1 for i in range(len(row) - 1)):
            return "[%d..%d]" % (row[0], row[-1])
        return "[" + ("," + ("" if style in (0, 2) else " ")).join(str(t) for t in row) + "]"
    rows = ("," + nl + " " * (10 if style == 0 else 0)).join(
        row_text(row) + (" " if style == 1 else "") for row in table)
    acc = ("[1..%d]" % k) if (interval and k >= 1) else "[" + ",".join(str(i + 1) for i in range(k)) + "]"
    init = "[1..1]" if interval and style in (1, 3) else "[1]"
    return ("_RWS.wa" + sp + ":=" + sp + "rec(" + nl +
            "isFSA" + sp + ":=" + sp + "true," + nl +
            "alphabet" + sp + ":=" + sp + "rec(" + nl +
            "type := \"identifiers\"," + nl + "size := %d," % len(names) + nl +
            "format" + sp + ":=" + sp + "\"dense\"," + nl +
            "names" + sp + ":=" + sp + "[" + ",".join(('"%s"' % x) if quoted else x for x in names) + "]" + nl + ")," + nl +
            "states := rec(" + nl + "type := \"simple\"," + nl + "size := %d" % k + nl + ")," + nl +
            "flags := [\"DFA\",\"minimized\",\"BFS\",\"accessible\",\"trim\"]," + nl +
            "initial" + sp + ":=" + sp + init + "," + nl +
            "accepting" + sp + ":=" + sp + acc + "," + nl +
            "table := rec(" + nl + "format := \"dense deterministic\"," + nl +
            "numTransitions := %d," % sum(1 for r in table for t in r if t) + nl +
            "transitions" + sp + ":=" + sp + "[" + rows + nl + "]" + nl + ")" + nl + ");" + "\n")


def model_of_table(names, table):
    k = len(table)
    E = [(i + 1, t, names[j]) for i, row in enumerate(table) for j, t in enumerate(row) if t != 0]
    return M(range(1, k + 1), E)


def read_builtin_independently(name):
    """Regex reading of a built-in kbmag file, independent of gap_parse."""
    import os
    import geometry_tools.automata as A
    path = os.path.join(os.path.dirname(A.__file__), "builtin", name)
    text = open(path).read()
    names = re.search(r"names\s*:=\s*\[([^\]]*)\]", text).group(1)
    names = [n.strip().strip('"') for n in names.split(",") if n.strip()]
    tr = re.search(r"transitions\s*:=\s*\[(.*?)\]\s*\]", text, re.S).group(1) + "]"
    rows = re.findall(r"\[([^\[\]]*)\]", tr)
    table = [[int(x) for x in r.replace(" ", "").split(",") if x.strip() != ""] for r in rows]
    initial = re.search(r"initial\s*:=\s*\[([^\]]*)\]", text).group(1)
    initial = [int(x) for x in initial.split(",") if x.strip()]
    return names, table, initial


def case_kbmag(case):
    from geometry_tools.automata import fsa, gap_parse
    names, table, style, interval = case["names"], case["table"], case["style"], case["interval"]
    text = render_record(names, table, style, interval)
    rec, _ = gap_parse.parse_record(text)
    v = []
    inner = [d for d in rec.values() if isinstance(d, dict) and d.get("isFSA") == "true"]
    if len(inner) != 1:
        return {"v": [{"key": "kbmag/record-shape", "msg": "parsed record %r" % (rec,)}]}
    d = inner[0]
    if list(d["alphabet"]["names"]) != list(names):
        v.append({"key": "kbmag/names", "msg": "names %r != %r" % (d["alphabet"]["names"], names)})
    if [list(r) for r in d["table"]["transitions"]] != [list(r) for r in table]:
        v.append({"key": "kbmag/transitions", "msg": "transitions %r != %r" % (d["table"]["transitions"], table)})
    if list(d["initial"]) != [1]:
        v.append({"key": "kbmag/initial", "msg": "initial %r" % (d["initial"],)})
    if list(d["accepting"]) != list(range(1, len(table) + 1)):
        v.append({"key": "kbmag/accepting", "msg": "accepting %r" % (d["accepting"],)})
    f = fsa._from_gap_record(rec)
    model = model_of_table(names, table)
    v += check_views(f, model)
    if list(f.start_vertices) != [1]:
        v.append({"key": "kbmag/start", "msg": "start vertices %r" % (f.start_vertices,)})
    return {"v": v, "t": 2, "o": repr(model.key()), "nt": len(model.E) > 0}


def case_builtin(case):
    from geometry_tools.automata import fsa
    name = case["name"]
    f = fsa.load_builtin(name)
    names, table, initial = read_builtin_independently(name)
    model = model_of_table(names, table)
    v = check_views(f, model)
    if list(f.start_vertices) != initial:
        v.append({"key": "kbmag/start", "msg": "start vertices %r != %r" % (f.start_vertices, initial)})
    g = copy.deepcopy(f)
    v += check_views(g, model, "deepcopy")
    return {"v": v, "t": 2, "o": len(model.E), "nt": True}


def kbmag_cases(kmax, nnames, styles):
    for k in range(1, kmax + 1):
        for nn in range(1, nnames + 1):
            names = ["a", "b", "c"][:nn]
            for flat in itertools.product(range(0, k + 1), repeat=k * nn):
                table = [list(flat[i * nn:(i + 1) * nn]) for i in range(k)]
                for style in styles:
                    for interval in (False, True):
                        yield {"names": names, "table": table, "style": style, "interval": interval}


# ------------------------------------------------------------------------------------------
def run(ctx):
    q = ctx.quick
    ctx.rule = ("histories of FSA construction/edit operations explored breadth-first on real objects vs a "
                "set model, de-duplicated on (model state, real-view signature incl. list aliasing); "
                "kbmag tables enumerated completely; a case is non-trivial when the automaton has >=1 edge")
    ctx.assume("edits keep the automaton deterministic (enabled ops are computed from the model)")
    ctx.assume("vertices without incoming edges may be absent from the incoming view (only foreign vertices are an error)")
    U = U_QUICK
    roots = [[["ctor", "empty", None, U]]]
    for g in ROOT_GRAPHS[1:]:
        roots.append([["ctor", "graph", g, U]])
        roots.append([["ctor", "out", g, U]])
    roots.append([["ctor", "graph_hidden", ROOT_GRAPHS[1], U]])
    roots.append([["ctor", "graph_hidden", ROOT_GRAPHS[6], U]])
    # several vertices that appear only as targets (the library has to invent their rows)
    roots.append([["ctor", "graph_hidden", [(0, 1, "a"), (0, 2, "b")], U]])
    roots.append([["ctor", "graph_hidden", [(2, 0, "a"), (2, 1, "b")], U]])
    roots.append([["ctor", "out_hidden", ROOT_GRAPHS[1], U]])
    roots.append([["ctor", "out_hidden", [(0, 1, "a"), (0, 2, "b")], U]])
    roots.append([["ctor", "out_hidden", [(2, 0, "a"), (2, 1, "b")], U]])
    roots.append([["ctor", "out_hidden", [(0, 1, "a"), (0, 1, "b")], U]])
    roots.append([["ctor", "deepcopy", ROOT_GRAPHS[2], U]])
    roots.append([["ctor", "free", ["a"], {"V": ["", "a", "A"], "L": ["a", "A"]}]])
    for r in ("free_iter", "free_tuple", "free_keys"):
        roots.append([["ctor", r, ["a"], {"V": ["", "a", "A"], "L": ["a", "A"]}]])
    roots.append([["ctor", "kbmag", [["a", "b"], [[2, 0], [2, 1]]], {"V": [1, 2, 3], "L": ["a", "b"]}]])
    roots.append([["ctor", "builtin", "f2.wa", {"V": [1, 2, 3], "L": ["a", "b"]}]])
    dom = {"vertices": U["V"], "labels": U["L"], "roots": len(roots),
           "ops": "add_vertices, add_edges(single), add_edges(elist), delete_vertex, delete_vertices, "
                  "recurrent(inplace/copy), rename_generators(inplace/copy), deepcopy"}
    ctx.bfs("histories", "checks.c09:case_history", roots, depth=3 if q else 5, domains=dom, chunk=64)
    # rich alphabet (3 labels, query ops, two-edge calls), and a 4-vertex universe
    roots_r = [[["ctor", "empty", None, U_THORO]], [["ctor", "graph", ROOT_GRAPHS[2], U_THORO]],
               [["ctor", "out", ROOT_GRAPHS[4], U_THORO]]]
    ctx.bfs("histories-rich", "checks.c09:case_history_rich", roots_r, depth=2 if q else 3,
            domains={"vertices": U_THORO["V"], "labels": U_THORO["L"], "extra ops": "elist subsets of size 1..3, two-edge calls, has_edge queries"},
            chunk=64)
    if not q:
        roots4 = [[["ctor", "empty", None, U_THORO4]], [["ctor", "graph", ROOT_GRAPHS[5], U_THORO4]]]
        ctx.bfs("histories-4-vertices", "checks.c09:case_history", roots4, depth=4,
                domains={"vertices": U_THORO4["V"], "labels": U_THORO4["L"]}, chunk=64)
        ctx.bfs("histories-no-dedup", "checks.c09:case_history", roots[:6], depth=3, dedup=False,
                domains={"note": "pure bounded DFS over all histories, no state merging"}, chunk=256)
    # kbmag records
    cases = list(kbmag_cases(2 if q else 3, 2, (0, 1, 2, 3)))
    ctx.product("kbmag-records", "checks.c09:case_kbmag", cases,
                domains={"states": "1..%d" % (2 if q else 3), "names": "1..2", "targets": "0..k (0 = failure state)",
                         "spacing styles": 4, "accepting syntax": ["explicit", "interval"]}, chunk=256)
    from geometry_tools.automata import fsa
    names = sorted(fsa.list_builtins())
    ctx.product("builtin-files", "checks.c09:case_builtin", [{"name": n} for n in names if not n.startswith("__")],
                domains={"files": len(names)}, chunk=1)
