"""C04 - a composite object behaves exactly like an array of its unit objects.

Sections (DESIGN.md 5/C04):
  apply            engine P over (class, dimension, shape_X, shape_T, broadcast mode): composite shape of the
                   result = oracle (mc/oracle/shapes.py) and every entry = T[j] applied to X[i], against the plain
                   matmul of the unit rows AND against the library's own unit-by-unit application;
  vectorised       engine P over (operation, dimension, shape): every vectorised geometry routine equals the
                   Python loop over the units;
  shape-histories  engine E over reshape / flatten_to_unit / [i] / iterate / stack / len histories against the
                   "ndarray of unit labels" model, every root built from arrays of every memory layout (LAYOUTS); in
                   every state of rank >= 1 the op `overlap` runs several iterations of the SAME object that overlap in
                   time (nested loops, zip(X, X), alternately advanced iterators, an iterator kept across a full pass,
                   loops calling len / [j], together with X[::-1] and with a flat reshape, two passes): each must
                   visit the units along the first axis completely and in order, independently of the others;
  apply-layouts    the apply section again on a smaller shape set with X and / or T built from non-C-contiguous arrays;
  index-forms      engine P over (class, shape, index with an Ellipsis): X[index] and X[index] = value select / replace the
                   units NumPy indexing selects on the composite shape, bound to the explicit spelling of the same index;
  commute          engine P over (class, shape_A, shape_B, mode): A.commute(B, broadcast=mode) is the (broadcast / full) table of the
                   answers on the pairs of units;
  stack-dtypes     engine P over (class, dtype sequence, form): a composite built from an iterable of objects whose
                   coordinate arrays have DIFFERENT dtypes holds, at index i, the values of the i-th object.
Units are pairwise distinct, so that a permuted or transposed axis cannot pass.
"""
import itertools
import math

import numpy as np

from mc import lattice
from mc.oracle import hyp
from mc.oracle import shapes as S

APPLY_CLASSES = ["P.Point", "P.PointPair", "P.Polygon", "P.Transformation", "ndarray",
                 "H.Point", "H.Segment", "H.TangentVector", "H.Polygon", "H.Hyperplane"]
HIST_CLASSES = ["P.Point", "P.Polygon", "P.Transformation", "H.Point", "H.Segment", "H.TangentVector", "H.Polygon"]
TOL = 1e-9
RADII = [0.1, 0.35, 0.6, 0.8, 0.5, 0.25, 0.7, 0.45]


def V(key, msg):
    return {"key": key, "msg": msg}


def close(a, b, tol=TOL):
    a, b = np.asarray(a), np.asarray(b)
    if a.shape != b.shape:
        return False
    if a.size == 0:
        return True
    with np.errstate(invalid="ignore"):
        fin = np.isfinite(b)
        if not np.array_equal(fin, np.isfinite(a)):
            return False
        if not fin.all():
            # non-finite entries must be the same kind in the same place
            if not np.array_equal(np.isnan(a), np.isnan(b)):
                return False
            if not np.array_equal(a[~fin & ~np.isnan(a)], b[~fin & ~np.isnan(b)]):
                return False
            a, b = a[fin], b[fin]
            if a.size == 0:
                return True
        return bool(np.all(np.abs(a - b) <= tol * (1.0 + np.abs(b))))


# ------------------------------------------------------------------------------------------------
# unit alphabets (pairwise distinct)
# ------------------------------------------------------------------------------------------------
_ALLV = {}


def int_row(k, m):
    """k-th non-zero integer vector of {-2..2}^m in a fixed scrambled order; distinct for k < 5^m - 1."""
    if m not in _ALLV:
        _ALLV[m] = [v for v in itertools.product(range(-2, 3), repeat=m) if any(v)]
    a = _ALLV[m]
    return np.array(a[(7 + 13 * k) % len(a)], dtype=float)


def kpt(k, n, seed):
    """k-th generic interior point (Klein coordinates); pairwise distinct, never the origin."""
    return RADII[k % len(RADII)] * lattice.generic_dir(n, k, seed)


def trow(k, n, seed):
    return np.concatenate([[1.0], kpt(k, n, seed)])


def unit_data(cls, k, n, seed):
    """Primary data (projective rows) of the unit with label k."""
    m = n + 1
    if cls in ("P.Point", "ndarray"):
        return int_row(k, m)
    if cls == "P.PointPair":
        return np.stack([int_row(2 * k, m), int_row(2 * k + 1, m)])
    if cls == "P.Polygon":
        return np.stack([int_row(3 * k + i, m) for i in range(3)])
    if cls == "P.Transformation":
        return int_unimodular(k + 50, m)
    if cls == "H.Point":
        return trow(k, n, seed)
    if cls == "H.Segment":
        return np.stack([trow(2 * k, n, seed), trow(2 * k + 1, n, seed)])
    if cls == "H.TangentVector":
        return np.stack([trow(k, n, seed), np.concatenate([[0.2], lattice.generic_dir(n, 300 + k, seed)])])
    if cls == "H.Polygon":
        return np.stack([trow(3 * k + i, n, seed) for i in range(3)])
    raise ValueError(cls)


def int_unimodular(j, m):
    """Pairwise distinct integer matrices of determinant 1: (unit lower) @ (unit upper), entries from j."""
    lo, up = np.eye(m), np.eye(m)
    r1, r2 = int_row(j, m), int_row(3 * j + 1, m)
    for a in range(m):
        for b in range(a + 1, m):
            up[a, b] = r1[(a + b) % m] + (j % 3)
            lo[b, a] = r2[(a * b + 1) % m] - (j % 2)
    up[0, m - 1] = j + 1                      # makes the family injective in j
    return lo @ up


def oracle_isometry(j, n):
    """Pairwise distinct elements of SO(n,1) acting on ROW vectors (rows -> rows @ R), from rotations and boosts."""
    m = n + 1

    def rot(a, b, th):
        r = np.eye(m)
        r[a, a] = r[b, b] = math.cos(th)
        r[a, b] = -math.sin(th)
        r[b, a] = math.sin(th)
        return r

    def boost(a, s):
        r = np.eye(m)
        r[0, 0] = r[a, a] = math.cosh(s)
        r[0, a] = r[a, 0] = math.sinh(s)
        return r
    R = rot(1, 2, 0.3 + 0.37 * j) @ boost(1, 0.15 + 0.04 * j) @ rot(1, 2, -0.2 * j)
    if n >= 3:
        R = R @ rot(2, 3, 0.5 + 0.11 * j)
    return R


def compose(units, shape):
    shape = tuple(shape)
    u = np.array(units[:S.size(shape)])
    return u.reshape(shape + u.shape[1:])


def hyperplane_units(N, n):
    from geometry_tools import hyperbolic as H
    out = []
    J = hyp.J(n)
    for k in range(N):
        nrm = np.concatenate([[0.1 * ((k % 5) - 2)], lattice.generic_dir(n, 500 + k, 0)])
        d = H.Hyperplane(nrm.copy()).proj_data
        g = d @ J @ d.T
        if not (abs(g[0, 0]) > 1e-3 and np.all(np.abs(g[0, 1:]) < 1e-9) and np.all(np.abs(np.diag(g)[1:]) < 1e-9)):
            return None
        out.append(d)
    return out


LAYOUTS = ["C", "F", "axis-major", "composite-T", "reversed", "strided"]


def relayout(data, layout, k=0):
    """An array with the shape, dtype and VALUES of `data` and another memory layout (k = number of leading
    composite axes):
      C            C-contiguous;
      F            Fortran-contiguous (np.asfortranarray; what `np.array([w, x, y]).T` gives for a list of points);
      axis-major   the coordinate axis slowest in memory (coordinate-by-coordinate input, any rank);
      composite-T  the composite axes in reversed order in memory (a transposed grid of units), units C-ordered;
      reversed     negative strides along every axis (a [::-1] view);
      strided      every second element of a larger buffer along every axis (a [::2] view)."""
    data = np.ascontiguousarray(data)
    nd = data.ndim
    if layout == "C":
        out = data.copy()
    elif layout == "F":
        out = np.asfortranarray(data)
    elif layout == "axis-major":
        out = np.moveaxis(np.ascontiguousarray(np.moveaxis(data, -1, 0)), 0, -1)
    elif layout == "composite-T":
        perm = tuple(range(k - 1, -1, -1)) + tuple(range(k, nd))
        inv = tuple(int(i) for i in np.argsort(perm))
        out = np.ascontiguousarray(data.transpose(perm)).transpose(inv)
    elif layout == "reversed":
        sl = (slice(None, None, -1),) * nd
        out = np.ascontiguousarray(data[sl])[sl]
    elif layout == "strided":
        big = np.zeros(tuple(2 * d for d in data.shape), dtype=data.dtype)
        sl = (slice(None, None, 2),) * nd
        big[sl] = data
        out = big[sl]
    else:
        raise ValueError(layout)
    assert out.shape == data.shape and out.dtype == data.dtype and np.array_equal(out, data), "HARNESS: relayout"
    return out


def build_X(cls, n, shape, seed, offset=0, layout=None):
    """Composite library object with units offset..offset+N-1; returns (object, primary data).  With a
    `layout` the object is built directly from the projective array in that memory layout."""
    from geometry_tools import projective as P, hyperbolic as H
    shape = tuple(shape)
    N = S.size(shape)
    if cls == "H.Hyperplane":
        units = hyperplane_units(N + offset, n)
        if units is None:
            return None, None
        data = compose(units[offset:], shape)
        return H.Hyperplane(data.copy() if layout is None else relayout(data, layout, len(shape))), data
    data = compose([unit_data(cls, offset + k, n, seed) for k in range(N)], shape)
    if layout is not None:
        arr = relayout(data, layout, len(shape))
        if cls == "ndarray":
            return arr, data
        mod, name = cls.split(".")
        return getattr(P if mod == "P" else H, name)(arr), data
    if cls == "ndarray":
        return data.copy(), data
    mod, name = cls.split(".")
    if cls == "H.Point":
        return H.Point(data[..., 1:].copy(), model="klein"), data
    if cls == "H.Segment":
        return H.Segment(H.Point(data[..., 0, :].copy()), H.Point(data[..., 1, :].copy())), data
    if cls == "H.TangentVector":
        return H.TangentVector(H.Point(data[..., 0, :].copy()), data[..., 1, :].copy()), data
    C = getattr(P if mod == "P" else H, name)
    return C(data.copy()), data


def build_T(cls, n, shape, seed, layout=None):
    """Composite transformation with pairwise distinct units; returns (object, row matrices)."""
    from geometry_tools import projective as P, hyperbolic as H
    shape = tuple(shape)
    N = S.size(shape)
    if cls.startswith("H."):
        R = compose([oracle_isometry(j, n) for j in range(N)], shape)
        if layout is not None:
            return H.Isometry(relayout(R, layout, len(shape))), R
        return H.Isometry(np.swapaxes(R, -1, -2).copy(), column_vectors=True), R
    R = compose([int_unimodular(j, n + 1) for j in range(N)], shape)
    return P.Transformation(R.copy() if layout is None else relayout(R, layout, len(shape))), R


# ------------------------------------------------------------------------------------------------
# section apply
# ------------------------------------------------------------------------------------------------
def case_apply(case):
    cls, n, sX, sT, mode, seed = case["cls"], case["n"], tuple(case["sX"]), tuple(case["sT"]), case["mode"], case["seed"]
    imap = S.index_map(mode, sX, sT)
    if imap is None:
        return {"v": [], "t": 0, "o": "incompatible", "nt": False}
    lX, lT = case.get("lX"), case.get("lT")
    X, X0 = build_X(cls, n, sX, seed, layout=lX)
    if X is None:
        return {"v": [], "t": 1, "o": "skip:hyperplane-constructor", "nt": False}
    T, R = build_T(cls, n, sT, seed, layout=lT)
    rs = S.result_shape(mode, sX, sT)
    v = []
    A0 = None if cls == "ndarray" else X.aux_data
    A0 = None if A0 is None else np.array(A0)
    res = T.apply(X, broadcast=mode)
    tag = "apply/%s%s" % (mode, "" if (lX or "C") == "C" and (lT or "C") == "C" else "/non-C-layout")
    ucls = cls if cls != "ndarray" else "ndarray"
    if cls != "ndarray" and type(res) is not type(X):
        v.append(V("%s/type/%s" % (tag, ucls), "result is a %s" % type(res).__name__))
        return {"v": v, "t": 1, "o": "type", "nt": True}
    unit_shape = X0.shape[len(sX):]
    if tuple(res.proj_data.shape) != tuple(rs) + tuple(unit_shape):
        v.append(V("%s/shape/%s" % (tag, ucls), "X%r T%r: result data shape %r, expected composite %r + unit %r" % (
            sX, sT, res.proj_data.shape, rs, unit_shape)))
        return {"v": v, "t": 1, "o": "shape", "nt": True}
    if tuple(res.shape) != tuple(rs):
        v.append(V("%s/shape/%s" % (tag, ucls), "X%r T%r: composite shape %r, expected %r" % (sX, sT, res.shape, rs)))
    if A0 is not None:
        aunit = A0.shape[len(sX):]
        if res.aux_data is None or tuple(res.aux_data.shape) != tuple(rs) + tuple(aunit):
            v.append(V("%s/aux-shape/%s" % (tag, ucls), "X%r T%r: auxiliary data shape %r, expected %r" % (
                sX, sT, None if res.aux_data is None else res.aux_data.shape, tuple(rs) + tuple(aunit))))
            return {"v": v, "t": 1, "o": "shape", "nt": True}
    t = 1
    lib_cache = {}
    bad = 0
    for idx, i, j in imap:
        exp = X0[i] @ R[j]
        if not close(res.proj_data[idx], exp):
            bad += 1
            if bad <= 1:
                v.append(V("%s/entry/primary/%s" % (tag, ucls), "X%r T%r: entry %r is not T%r applied to unit %r:\n%r\nexpected\n%r" % (
                    sX, sT, idx, j, i, res.proj_data[idx], exp)))
        if A0 is not None:
            expa = A0[i] @ R[j]
            if not close(res.aux_data[idx], expa):
                bad += 1
                if bad <= 1:
                    v.append(V("%s/entry/aux/%s" % (tag, ucls), "X%r T%r: auxiliary entry %r is not T%r applied to the auxiliary data of unit %r" % (sX, sT, idx, j, i)))
        # the library's own unit-by-unit application
        if (i, j) not in lib_cache:
            Tj = T[j] if len(sT) else T
            Xi = (X[i] if len(sX) else X) if cls != "ndarray" else X[i].copy()
            lib_cache[(i, j)] = Tj @ Xi
            t += 1
        u = lib_cache[(i, j)]
        if not close(res.proj_data[idx], u.proj_data) or (A0 is not None and not close(res.aux_data[idx], u.aux_data)):
            bad += 1
            if bad <= 1:
                v.append(V("%s/entry-vs-unit-call/%s" % (tag, ucls), "X%r T%r: entry %r differs from T[%r] @ X[%r] computed on the units" % (sX, sT, idx, j, i)))
    return {"v": v, "t": t, "o": repr((rs, lX, lT, round(float(np.sum(res.proj_data)), 3))), "nt": len(imap) > 1}


# ------------------------------------------------------------------------------------------------
# section vectorised geometry
# ------------------------------------------------------------------------------------------------
SL2 = None


def sl2_list():
    """Pairwise distinct integer matrices of determinant 1: hyperbolic, parabolic and elliptic ones."""
    global SL2
    if SL2 is None:
        a, b = np.array([[1.0, 1.0], [0.0, 1.0]]), np.array([[1.0, 0.0], [1.0, 1.0]])
        s, u = np.array([[0.0, -1.0], [1.0, 0.0]]), np.array([[0.0, -1.0], [1.0, 1.0]])
        out = []
        for w in itertools.chain.from_iterable(itertools.product([a, b, s, u], repeat=l) for l in (2, 3, 1, 4)):
            m = np.eye(2)
            for g in w:
                m = m @ g
            if not any(np.array_equal(m, o) or np.array_equal(m, -o) for o in out) and not np.array_equal(np.abs(m), np.eye(2)):
                out.append(m)
        SL2 = out
    return SL2


def sl2_units(N, kinds):
    out = []
    for m in sl2_list():
        tr = abs(np.trace(m))
        kind = "lox" if tr > 2 else ("par" if tr == 2 else "ell")
        if kind in kinds:
            out.append(m)
        if len(out) == N:
            return out
    raise ValueError("not enough SL2 units")


VEC_OPS = (["coords/%s" % m for m in hyp.MODELS] +
           ["ideal-coords/%s" % m for m in ("projective", "klein", "poincare", "halfspace")] +
           ["distance", "origin_to", "tv_origin_to", "tv_isometry_to", "unit_tangent_towards", "tv_normalized",
            "segment", "segment/circle/poincare", "segment/circle/halfspace", "polygon/H", "polygon/P",
            "geodesic/circle/poincare", "geodesic/circle/halfspace",
            "fixed_point/lox", "fixed_point/mixed", "fixed_point_pair/lox", "fixed_point_pair/mixed",
            "sl2_irrep/2", "sl2_irrep/3", "sl2_irrep/4", "sl2_to_so21", "sl2_iso", "sl2_to_sl2", "sl2_o_to_pgl"])
DIM2_ONLY = ("segment/circle", "geodesic/circle", "fixed_point", "sl2_")


def case_vec(case):
    from geometry_tools import projective as P, hyperbolic as H, lie
    op, n, shape, seed = case["op"], case["n"], tuple(case["shape"]), case["seed"]
    N = S.size(shape)
    v = []
    pk = lambda off: [kpt(off + k, n, seed) for k in range(N)]                 # klein coordinates of units
    idl = lambda off: [np.concatenate([[1.0], d]) for d in
                       (lattice.ideal_dirs(n, m_generic=40, seed=seed) * 2)[off:off + N]]

    def report(name, whole, units, tol=TOL):
        """whole: array of shape `shape + unit`; units: list of per-unit results in C order."""
        whole = np.asarray(whole)
        if tuple(whole.shape[:len(shape)]) != shape:
            v.append(V("vectorised/%s/shape" % name, "shape %r: result shape %r does not start with the composite shape" % (shape, whole.shape)))
            return
        for k, idx in enumerate(itertools.product(*[range(s) for s in shape])):
            if not close(whole[idx], units[k], tol):
                v.append(V("vectorised/%s/entry" % name, "shape %r: entry %r = %r but the unit gives %r" % (shape, idx, whole[idx], units[k])))
                return

    t = 1 + N
    if op.startswith("coords/"):
        m = op.split("/")[1]
        K = pk(0)
        whole = H.Point(compose(K, shape).copy(), model="klein").coords(m)
        report(op, whole, [H.Point(k.copy(), model="klein").coords(m) for k in K])
        # and against the oracle chart of each unit (C01 owns the formulas; this pins the unit order)
        report(op + "/oracle", whole, [hyp.klein_to(m, k) for k in K], 1e-7)
    elif op.startswith("ideal-coords/"):
        m = op.split("/")[1]
        Iu = idl(0)
        whole = H.IdealPoint(compose(Iu, shape).copy()).coords(m)
        report(op, whole, [H.IdealPoint(r.copy()).coords(m) for r in Iu])
    elif op == "distance":
        K1, K2 = pk(0), pk(40)
        whole = H.Point(compose(K1, shape).copy(), model="klein").distance(H.Point(compose(K2, shape).copy(), model="klein"))
        report(op, whole, [H.Point(a.copy(), model="klein").distance(H.Point(b.copy(), model="klein")) for a, b in zip(K1, K2)])
        report(op + "/oracle", whole, [hyp.dist_klein(a, b) for a, b in zip(K1, K2)], 1e-7)
    elif op == "origin_to":
        K = pk(0)
        for fo in (True, False):
            whole = H.Point(compose(K, shape).copy(), model="klein").origin_to(force_oriented=fo)
            if type(whole) is not H.Isometry or tuple(whole.shape) != shape:
                v.append(V("vectorised/origin_to/shape", "origin_to of shape %r is a %s of shape %r" % (shape, type(whole).__name__, whole.shape)))
                continue
            report(op, whole.proj_data, [H.Point(k.copy(), model="klein").origin_to(force_oriented=fo).proj_data for k in K])
    elif op in ("tv_origin_to", "tv_isometry_to", "tv_normalized"):
        U = [unit_data("H.TangentVector", k, n, seed) for k in range(N)]
        W = [unit_data("H.TangentVector", 60 + k, n, seed) for k in range(N)]
        mk = lambda d: H.TangentVector(H.Point(d[..., 0, :].copy()), d[..., 1, :].copy())
        cu, cw = mk(compose(U, shape)), mk(compose(W, shape))
        report("tangent-vector/construct", cu.aux_data, [mk(u).aux_data for u in U])
        if op == "tv_origin_to":
            report(op, cu.origin_to().proj_data, [mk(u).origin_to().proj_data for u in U])
        elif op == "tv_isometry_to":
            report(op, cu.isometry_to(cw).proj_data, [mk(u).isometry_to(mk(w)).proj_data for u, w in zip(U, W)])
        else:
            whole = cu.normalized()
            units = [mk(u).normalized() for u in U]
            report(op, whole.proj_data, [x.proj_data for x in units])
            report(op + "/aux", whole.aux_data, [x.aux_data for x in units])
    elif op == "unit_tangent_towards":
        K1, K2 = pk(0), pk(40)
        whole = H.Point(compose(K1, shape).copy(), model="klein").unit_tangent_towards(H.Point(compose(K2, shape).copy(), model="klein"))
        units = [H.Point(a.copy(), model="klein").unit_tangent_towards(H.Point(b.copy(), model="klein")) for a, b in zip(K1, K2)]
        if type(whole) is not H.TangentVector or tuple(whole.shape) != shape:
            v.append(V("vectorised/unit_tangent_towards/shape", "result is a %s of shape %r for shape %r" % (type(whole).__name__, whole.shape, shape)))
        else:
            report(op, whole.proj_data, [x.proj_data for x in units])
            report(op + "/aux", whole.aux_data, [x.aux_data for x in units])
    elif op.startswith("segment") or op.startswith("geodesic"):
        if op.startswith("segment"):
            U = [unit_data("H.Segment", k, n, seed) for k in range(N)]
            mk = lambda d: H.Segment(H.Point(d[..., 0, :].copy()), H.Point(d[..., 1, :].copy()))
        else:
            Iu = idl(0) + idl(7)
            U = [np.stack([Iu[k], Iu[N + k]]) for k in range(N)]
            U = [u for u in U]
            mk = lambda d: H.Geodesic(H.IdealPoint(d[..., 0, :].copy()), H.IdealPoint(d[..., 1, :].copy()))
        whole = mk(compose(U, shape))
        units = [mk(u) for u in U]
        if tuple(whole.shape) != shape:
            v.append(V("vectorised/%s/shape" % op, "composite shape %r, expected %r" % (whole.shape, shape)))
        elif op == "segment":
            report(op + "/primary", whole.proj_data, [x.proj_data for x in units])
            report(op + "/aux", whole.aux_data, [x.aux_data for x in units])
            whole2 = H.Segment(compose(U, shape).copy())
            report(op + "/from-array/aux", whole2.aux_data, [x.aux_data for x in units])
            report(op + "/ideal_endpoint_coords", whole.ideal_endpoint_coords("klein"), [x.ideal_endpoint_coords("klein") for x in units])
        else:
            m = op.split("/")[2]
            cw = whole.circle_parameters(model=m, degrees=False)
            cu = [x.circle_parameters(model=m, degrees=False) for x in units]
            for part, nm in enumerate(("center", "radius", "thetas")):
                report("%s/%s" % (op, nm), cw[part], [c[part] for c in cu])
    elif op == "polygon/H":
        U = [unit_data("H.Polygon", k, n, seed) for k in range(N)]
        whole = H.Polygon(compose(U, shape).copy())
        units = [H.Polygon(u.copy()) for u in U]
        report(op + "/aux", whole.aux_data, [x.aux_data for x in units])
        report(op + "/edges", whole.get_edges().aux_data, [x.get_edges().aux_data for x in units])
        if tuple(whole.shape) != shape or tuple(whole.get_edges().shape) != shape + (3,):
            v.append(V("vectorised/polygon/H/shape", "polygon shape %r, edges shape %r" % (whole.shape, whole.get_edges().shape)))
    elif op == "polygon/P":
        U = [unit_data("P.Polygon", k, n, seed) for k in range(N)]
        whole = P.Polygon(compose(U, shape).copy())
        units = [P.Polygon(u.copy()) for u in U]
        report(op + "/aux", whole.aux_data, [x.aux_data for x in units], 1e-12)
        report(op + "/oracle", whole.aux_data, [np.stack([u, np.roll(u, -1, axis=0)], axis=1) for u in U], 1e-12)
    elif op.startswith("fixed_point"):
        name, kinds = op.split("/")
        M = sl2_units(N, ("lox",) if kinds == "lox" else ("lox", "ell", "par"))
        whole = H.sl2_iso(compose(M, shape).copy())
        units = [H.sl2_iso(m.copy()) for m in M]
        if name == "fixed_point":
            fw, fu = whole.fixed_point(), [x.fixed_point() for x in units]
        else:
            fw, fu = whole.fixed_point_pair(), [x.fixed_point_pair() for x in units]
        if tuple(fw.shape) != shape:
            v.append(V("vectorised/%s/shape" % name, "composite shape %r, expected %r" % (fw.shape, shape)))
        else:
            # eigenvectors: compared as projective rows
            for k, idx in enumerate(itertools.product(*[range(s) for s in shape])):
                e = np.max(hyp.proj_sin_err(fw.proj_data[idx], fu[k].proj_data))
                if not (e <= 1e-7):
                    v.append(V("vectorised/%s/entry/%s" % (name, kinds), "shape %r: entry %r = %r but the unit gives %r" % (
                        shape, idx, fw.proj_data[idx], fu[k].proj_data)))
                    break
    elif op.startswith("sl2_"):
        M = sl2_units(N, ("lox", "ell", "par"))
        A = compose(M, shape)
        if op.startswith("sl2_irrep/"):
            d = int(op.split("/")[1])
            report(op, lie.sl2_irrep(A.copy(), d), [lie.sl2_irrep(m.copy(), d) for m in M], 1e-12)
        elif op == "sl2_to_so21":
            report(op, lie.sl2_to_so21(A.copy()), [lie.sl2_to_so21(m.copy()) for m in M], 1e-12)
        elif op == "sl2_to_sl2":
            # Isometry.to_sl2() of a composite = the 2x2 matrix to_sl2() returns on each unit (which is +-M_k);
            # shape and entries are bound to the unit answers of the same library
            units = [np.asarray(H.sl2_iso(m.copy()).to_sl2()) for m in M]
            for k, (u, m) in enumerate(zip(units, M)):
                assert u.shape == (2, 2) and (close(u, m) or close(u, -m)), "unit to_sl2 (owned by C17) is not +-M for %r" % m
            whole = np.asarray(H.sl2_iso(A.copy()).to_sl2())
            if tuple(whole.shape) != shape + (2, 2):
                v.append(V("vectorised/to_sl2/shape", "Isometry.to_sl2() of a composite of shape %r has shape %r, expected %r" % (shape, whole.shape, shape + (2, 2))))
            else:
                report("to_sl2", whole, units)
        elif op == "sl2_o_to_pgl":
            # lie.o_to_pgl on the array of the images, every second one negated (-S is in O(2,1) too and takes the other sign branch)
            Ss = [(-1.0) ** k * np.asarray(lie.sl2_to_so21(m.copy())) for k, m in enumerate(M)]
            units = [np.asarray(lie.o_to_pgl(s_.copy())) for s_ in Ss]
            whole = np.asarray(lie.o_to_pgl(compose(Ss, shape).copy()))
            t += N
            if tuple(whole.shape) != shape + (2, 2):
                v.append(V("vectorised/o_to_pgl/shape", "lie.o_to_pgl of an array of shape %r has shape %r, expected %r" % (shape + (3, 3), whole.shape, shape + (2, 2))))
            else:
                report("o_to_pgl", whole, units)
        else:
            whole = H.sl2_iso(A.copy())
            if type(whole) is not H.Isometry or tuple(whole.shape) != shape:
                v.append(V("vectorised/sl2_iso/shape", "sl2_iso of shape %r is a %s of shape %r" % (shape, type(whole).__name__, whole.shape)))
            else:
                report(op, whole.proj_data, [H.sl2_iso(m.copy()).proj_data for m in M], 1e-12)
    else:
        raise ValueError(op)
    return {"v": v, "t": t, "o": repr((op, shape)), "nt": N > 1}


# ------------------------------------------------------------------------------------------------
# section shape histories
# ------------------------------------------------------------------------------------------------
def unit_obj(cls, label, n, seed):
    return build_X(cls, n, (), seed, offset=int(label))


def case_hist(hist):
    root, ops = hist[0], hist[1:]
    cls, n, seed = root["cls"], root["n"], root["seed"]
    layout = root.get("layout")
    obj, _ = build_X(cls, n, tuple(root["shape"]), seed, layout=layout)
    C = type(obj)
    model = S.labels(root["shape"])
    v = []
    t = 1
    nxt = int(model.size)
    for op in ops:
        t += 1
        name = op[0]
        if name == "reshape":
            obj, model = obj.reshape(tuple(op[1])), S.m_reshape(model, op[1])
        elif name == "flatten":
            obj, model = obj.flatten_to_unit(), S.m_flatten(model)
        elif name == "index":
            obj, model = obj[op[1]], S.m_index(model, op[1])
        elif name == "iterate":
            items = [x for x in obj]
            if len(items) != model.shape[0]:
                v.append(V("history/iterate/length/%s" % cls, "iteration yields %d items, expected %d" % (len(items), model.shape[0])))
                break
            for i, x in enumerate(items):
                v += check_units(cls, x, model[i], n, seed, "iterate")
            obj = C(items)
        elif name == "stack":
            other, _ = build_X(cls, n, model.shape, seed, offset=nxt, layout=layout)
            omodel = S.labels(model.shape, nxt)
            nxt += int(model.size)
            obj, model = C([obj, other]), S.m_stack(model, omodel)
        elif name == "len":
            if len(obj) != model.shape[0]:
                v.append(V("history/len/%s" % cls, "len() = %d, expected %d" % (len(obj), model.shape[0])))
        elif name == "overlap":
            ov, calls = overlapping_iterations(cls, obj, model)
            v += ov
            t += calls
        else:
            raise ValueError(name)
        if type(obj) is not C:
            v.append(V("history/type/%s" % cls, "after %s the object is a %s" % (name, type(obj).__name__)))
            break
    if not v:
        v += check_units(cls, obj, model, n, seed, ops[-1][0] if ops else "construct")
    nextops = []
    if not v:
        N = int(model.size)
        nextops += [["reshape", list(s)] for s in S.same_size_shapes(N, 3) if tuple(s) != tuple(model.shape)]
        nextops.append(["flatten"])
        if model.ndim >= 1:
            nextops += [["index", i] for i in range(model.shape[0])]
            nextops += [["iterate"], ["len"], ["overlap"]]
        if nxt + N <= 96:
            nextops.append(["stack"])
    if (layout or "C") != "C":
        v = [V(x["key"] + "/non-C-layout", "[object built from a %s array] %s" % (layout, x["msg"])) for x in v]
    key = repr((cls, n, layout or "C", model.shape, tuple(model.flatten().tolist())))
    return {"v": v, "t": t, "o": repr((cls, layout or "C", model.shape)), "nt": model.size > 1, "key": key, "ops": nextops}


OVERLAP_PROTOCOLS = ["nested", "zip", "alternate", "staggered", "with-index-and-len", "with-reversed-view",
                     "with-flat-reshape", "list-twice"]


def overlapping_iterations(cls, obj, model):
    """Several iterations over ONE object that overlap in time: each of them visits the units along the first
    composite axis in order and completely, whatever the others (or indexing / len() / views) do meanwhile.
    The object is not changed; returns (violations, library calls)."""
    v = []
    calls = [0]
    C = type(obj)
    n = int(model.shape[0])
    sub = tuple(model.shape[1:])
    data = np.array(obj.proj_data)
    aux = None if obj.aux_data is None else np.array(obj.aux_data)
    N = int(model.size)

    def is_unit(x, pd, ad, shape):
        calls[0] += 1
        if type(x) is not C or tuple(x.shape) != tuple(shape):
            return False
        if not close(x.proj_data, pd, 1e-12):
            return False
        return ad is None or (x.aux_data is not None and close(x.aux_data, ad, 1e-9))

    def is_item(x, i):
        return is_unit(x, data[i], None if aux is None else aux[i], sub)

    def bad(proto, msg):
        v.append(V("history/iterate/%s/%s" % (proto, cls), "composite shape %r: %s" % (tuple(model.shape), msg)))

    def drain(it, limit):
        out = []
        for x in it:
            out.append(x)
            if len(out) > limit:
                break
        return out

    def in_order(items, idxs=None):
        idxs = list(range(n)) if idxs is None else idxs
        return len(items) == len(idxs) and all(is_item(x, i) for x, i in zip(items, idxs))

    # nested loops: all ordered pairs
    pairs = []
    for i, p in enumerate(obj):
        for j, q in enumerate(obj):
            pairs.append((i, j, p, q))
            if len(pairs) > n * n:
                break
        if len(pairs) > n * n:
            break
    if len(pairs) != n * n or not all(is_item(p, i) and is_item(q, j) for (i, j, p, q) in pairs):
        bad("nested", "`for p in X: for q in X:` visited %d pairs (%r ...), expected all %d pairs (i, j) in order" % (
            len(pairs), [(i, j) for (i, j, _, _) in pairs[:4]], n * n))
    # zip(X, X)
    z = drain(zip(obj, obj), n)
    if len(z) != n or not all(is_item(p, i) and is_item(q, i) for i, (p, q) in enumerate(z)):
        bad("zip", "zip(X, X) gave %d pairs, expected the %d pairs (unit i, unit i)" % (len(z), n))
    # two iterators advanced alternately
    it1, it2 = iter(obj), iter(obj)
    a, b = [], []
    done1 = done2 = False
    for _ in range(n + 2):
        if not done1:
            try:
                a.append(next(it1))
            except StopIteration:
                done1 = True
        if not done2:
            try:
                b.append(next(it2))
            except StopIteration:
                done2 = True
    if not (done1 and done2 and in_order(a) and in_order(b)):
        bad("alternate", "two iterators advanced alternately yielded %d and %d units, expected %d each, in order" % (len(a), len(b), n))
    # an iterator started earlier keeps its position while a complete pass is made
    it = iter(obj)
    first = [next(it)] if n else []
    full = drain(obj, n)
    rest = drain(it, n)
    if not (in_order(full) and in_order(first + rest)):
        bad("staggered", "next(it); list(X); list(it): the full pass gave %d units, the earlier iterator %d more (expected %d and %d)" % (
            len(full), len(rest), n, n - 1))
    # iteration interleaved with indexing, len() and shape queries
    got = []
    ok = True
    for i, p in enumerate(obj):
        ok = ok and len(obj) == n and tuple(obj.shape) == tuple(model.shape) and is_item(obj[n - 1 - i], n - 1 - i)
        got.append(p)
        if len(got) > n:
            break
    if not (ok and in_order(got)):
        bad("with-index-and-len", "a loop whose body calls len(X), X.shape and X[j] visited %d units (expected %d, in order)" % (len(got), n))
    # X and the reversed view X[::-1], pairwise and alternately
    rv = obj[::-1]
    calls[0] += 1
    it1, it2 = iter(obj), iter(rv)
    a, b = [], []
    for _ in range(n):
        try:
            a.append(next(it1))
            b.append(next(it2))
        except StopIteration:
            break
    tail = drain(it1, n) + drain(it2, n)
    inner = [(i, j, p, q) for i, p in enumerate(drain(obj, n)) for j, q in enumerate(drain(rv, n))] if n * n <= 64 else None
    if tail or not (in_order(a) and in_order(b, list(range(n - 1, -1, -1)))) or \
            (inner is not None and (len(inner) != n * n or not all(is_item(p, i) and is_item(q, n - 1 - j) for (i, j, p, q) in inner))):
        bad("with-reversed-view", "iterating X together with X[::-1]: %d and %d units (expected %d each, the view in reverse order)" % (len(a), len(b), n))
    # X and its flat reshape
    fl = obj.reshape((N,))
    calls[0] += 1
    fdata = data.reshape((N,) + data.shape[model.ndim:])
    faux = None if aux is None else aux.reshape((N,) + aux.shape[model.ndim:])
    cnt, ok = 0, True
    for i, p in enumerate(obj):
        ok = ok and is_item(p, i)
        for k, u in enumerate(fl):
            cnt += 1
            if k == (i * 5 + 1) % N:                    # one unit of the inner pass per outer step, all outer units
                ok = ok and is_unit(u, fdata[k], None if faux is None else faux[k], ())
            if cnt > n * N:
                break
        if cnt > n * N:
            break
    if cnt != n * N or not ok:
        bad("with-flat-reshape", "`for p in X: for u in X.reshape((N,)):` made %d inner steps, expected %d" % (cnt, n * N))
    # two complete passes
    l1, l2 = drain(obj, n), drain(obj, n)
    if not (in_order(l1) and in_order(l2)):
        bad("list-twice", "list(X) twice: %d and %d units, expected %d" % (len(l1), len(l2), n))
    return v, calls[0]


def check_units(cls, obj, model, n, seed, after):
    """Same units in the same order: entry idx of obj is the unit with label model[idx]."""
    out = []
    model = np.asarray(model)
    if tuple(obj.shape) != tuple(model.shape):
        return [V("history/shape/%s/%s" % (after, cls), "composite shape %r, model %r" % (obj.shape, model.shape))]
    u0, _ = unit_obj(cls, 0, n, seed)
    ushape, ashape = u0.proj_data.shape, (None if u0.aux_data is None else u0.aux_data.shape)
    if tuple(obj.proj_data.shape) != tuple(model.shape) + tuple(ushape):
        return [V("history/data-shape/%s/%s" % (after, cls), "primary data shape %r, expected %r" % (obj.proj_data.shape, tuple(model.shape) + tuple(ushape)))]
    if ashape is not None and (obj.aux_data is None or tuple(obj.aux_data.shape) != tuple(model.shape) + tuple(ashape)):
        return [V("history/aux-shape/%s/%s" % (after, cls), "auxiliary data shape %r, expected %r" % (
            None if obj.aux_data is None else obj.aux_data.shape, tuple(model.shape) + tuple(ashape)))]
    for idx in itertools.product(*[range(s) for s in model.shape]):
        u, _ = unit_obj(cls, model[idx], n, seed)
        if not close(obj.proj_data[idx], u.proj_data, 1e-12):
            out.append(V("history/units/%s/%s" % (after, cls), "entry %r is not unit %d:\n%r\nexpected\n%r" % (idx, model[idx], obj.proj_data[idx], u.proj_data)))
            break
        if ashape is not None and not close(obj.aux_data[idx], u.aux_data, 1e-9):
            out.append(V("history/units-aux/%s/%s" % (after, cls), "auxiliary entry %r is not that of unit %d" % (idx, model[idx])))
            break
    return out


# ------------------------------------------------------------------------------------------------
# section index-forms: every NumPy form of a basic index on the composite shape, with and without Ellipsis
# ------------------------------------------------------------------------------------------------
def _dec_index(tokens):
    """JSON index -> Python index: "..." Ellipsis, int, ["s", a, b, c] a slice, ["l", ...] an index list; a list of
    tokens is a tuple index, a bare token is used as it is."""
    def one(tk):
        if tk == "...":
            return Ellipsis
        if isinstance(tk, list) and tk and tk[0] == "s":
            return slice(tk[1], tk[2], tk[3])
        if isinstance(tk, list) and tk and tk[0] == "l":
            return [int(x) for x in tk[1:]]
        return int(tk)
    if isinstance(tokens, dict):
        return one(tokens["bare"])
    return tuple(one(tk) for tk in tokens)


def index_forms(shape):
    """Pairs (index with an Ellipsis, the explicit index NumPy defines it to be on an array of this shape)."""
    shape = list(shape)
    r = len(shape)
    full = ["s", None, None, None]
    if r == 0:
        return [({"bare": "..."}, []), (["..."], [])]
    m, f = shape[-1], shape[0]
    out = [({"bare": "..."}, [full] * r), (["..."], [full] * r)]
    lasts = [0, -1, ["s", 1, None, None], ["s", None, None, -1], ["s", 0, 1, None], ["l", 0, m - 1]]
    for j in lasts:
        out.append((["...", j], [full] * (r - 1) + [j]))
    for i in sorted({0, f - 1}):
        out.append(([i, "..."], [i]))
        if r >= 2:
            for j in (0, -1, ["s", None, None, -1]):
                out.append(([i, "...", j], [i] + [full] * (r - 2) + [j]))
    out.append(([["s", 0, 1, None], "..."], [["s", 0, 1, None]]))
    if r >= 2:
        a = shape[-2]
        out.append((["...", a - 1, 0], [full] * (r - 2) + [a - 1, 0]))
        out.append((["...", ["s", 0, 1, None], m - 1], [full] * (r - 2) + [["s", 0, 1, None], m - 1]))
    lab = S.labels(shape)
    # a selection without units (1: on an axis of size 1) is not a composite of the quantified shapes
    return [(e, x) for (e, x) in out if np.asarray(lab[_dec_index(x)]).size > 0]


def _same_object(a, b):
    if type(a) is not type(b) or tuple(a.shape) != tuple(b.shape) or not close(a.proj_data, b.proj_data, 1e-12):
        return False
    if (a.aux_data is None) != (b.aux_data is None):
        return False
    return a.aux_data is None or close(a.aux_data, b.aux_data, 1e-9)


def case_index(case):
    """X[index] and X[index] = value for one (class, shape, Ellipsis form): the Ellipsis stands for composite axes
    (NumPy semantics on the composite shape), so the result is bound to the explicit spelling and both to the array
    of unit labels.  Assigned values: a fresh unit (broadcast over the selection) and a fresh composite of the
    shape of the selection."""
    cls, n, shape, seed = case["cls"], case["n"], tuple(case["shape"]), case["seed"]
    ell, exp = _dec_index(case["ellipsis"]), _dec_index(case["explicit"])
    model = S.labels(shape)
    sub = np.asarray(model[exp])
    assert sub.shape == np.asarray(model[ell]).shape and np.array_equal(sub, model[ell]), "HARNESS: index pair"
    v, t = [], 0
    form = "ellipsis-last" if (isinstance(ell, tuple) and ell[-1] is Ellipsis) or ell is Ellipsis else "ellipsis-then-index"
    results = {}
    for how, idx in (("explicit", exp), ("ellipsis", ell)):
        X, _ = build_X(cls, n, shape, seed)
        snap = np.array(X.proj_data)
        tag = how if how == "explicit" else form
        try:
            Y = X[idx]
        except Exception as e:  # noqa: BLE001 - reported as a violation of this sub-check
            v.append(V("index/getitem/%s/raises" % tag, "%s of composite shape %r: X[%s] raises %s: %s" % (cls, shape, case[how], type(e).__name__, str(e)[:200])))
            continue
        t += 1
        if type(Y) is not type(X):
            v.append(V("index/getitem/%s/type" % tag, "%s of shape %r: X[%s] is a %s" % (cls, shape, case[how], type(Y).__name__)))
            continue
        bad = check_units(cls, Y, sub, n, seed, "getitem")
        if bad:
            v.append(V("index/getitem/%s" % tag, "%s of composite shape %r: X[%s] is not the array of units NumPy indexing selects (labels %r): %s" % (
                cls, shape, case[how], sub.tolist(), bad[0]["msg"][:300])))
        if not np.array_equal(snap, X.proj_data):
            v.append(V("index/getitem/%s/mutates" % tag, "%s: X[%s] changed X" % (cls, case[how])))
        results[how] = Y
    if len(results) == 2 and not v and not _same_object(results["explicit"], results["ellipsis"]):
        v.append(V("index/getitem/%s/differs-from-explicit" % form, "%s of composite shape %r: X[%s] differs from X[%s]" % (cls, shape, case["ellipsis"], case["explicit"])))
    # item assignment
    N = int(model.size)
    for vkind in ("unit", "composite"):
        if vkind == "composite" and sub.ndim == 0:
            continue
        after = {}
        nbad = 0
        for how, idx in (("explicit", exp), ("ellipsis", ell)):
            tag = how if how == "explicit" else form
            X, _ = build_X(cls, n, shape, seed)
            if vkind == "unit":
                val, _ = build_X(cls, n, (), seed, offset=N + 5)
                new = np.full(sub.shape, N + 5)
            else:
                val, _ = build_X(cls, n, tuple(sub.shape), seed, offset=N + 5)
                new = S.labels(sub.shape, N + 5)
            want = np.array(model)
            want[exp] = new
            try:
                X[idx] = val
            except Exception as e:  # noqa: BLE001 - reported as a violation of this sub-check
                nbad += 1
                v.append(V("index/setitem/%s/raises" % tag, "%s of composite shape %r: X[%s] = <%s> raises %s: %s" % (
                    cls, shape, case[how], vkind, type(e).__name__, str(e)[:200])))
                continue
            t += 1
            bad = check_units(cls, X, want, n, seed, "setitem")
            if bad:
                nbad += 1
                v.append(V("index/setitem/%s/%s" % (tag, vkind), "%s of composite shape %r: after X[%s] = <%s> the units are not those of the label array (%r): %s" % (
                    cls, shape, case[how], vkind, want.tolist(), bad[0]["msg"][:300])))
            after[how] = X
        if len(after) == 2 and not nbad and not _same_object(after["explicit"], after["ellipsis"]):
            v.append(V("index/setitem/%s/differs-from-explicit" % form, "%s of composite shape %r: X[%s] = v and X[%s] = v leave different objects" % (
                cls, shape, case["ellipsis"], case["explicit"])))
    return {"v": v[:6], "t": t, "o": repr((cls, shape, case["ellipsis"], sub.shape)), "nt": N > 1}


# ------------------------------------------------------------------------------------------------
# section commute: the vectorised predicate Transformation.commute(other, broadcast=...)
# ------------------------------------------------------------------------------------------------
def commute_pool(cls, n):
    """Row matrices from three commuting families (so that tables mix True and False) and one scalar-free generic
    element; P: integer matrices (diagonal / powers of a rotation by 90 degrees / powers of a unipotent), H: rotations
    about one axis / boosts along one axis of SO(n,1)."""
    m = n + 1
    if cls == "P.Transformation":
        def dg(*d):
            return np.diag([float(x) for x in (list(d) + [1] * m)[:m]])
        R = np.eye(m)
        R[:2, :2] = [[0.0, -1.0], [1.0, 0.0]]
        U = np.eye(m) + np.diag([1.0] * (m - 1), 1)
        fam = [[dg(1, 2, 3), dg(2, 5, 7), dg(3, 1, 2), dg(5, 3, 4)],
               [R, R @ R, R @ R @ R, 2.0 * R],
               [U, U @ U, U @ U @ U, np.linalg.inv(U)]]
    else:
        def rot(th):
            r = np.eye(m)
            r[1, 1] = r[2, 2] = math.cos(th)
            r[1, 2], r[2, 1] = -math.sin(th), math.sin(th)
            return r

        def boost(s_):
            r = np.eye(m)
            r[0, 0] = r[1, 1] = math.cosh(s_)
            r[0, 1] = r[1, 0] = math.sinh(s_)
            return r

        def boost2(s_):
            r = np.eye(m)
            r[0, 0] = r[2, 2] = math.cosh(s_)
            r[0, 2] = r[2, 0] = math.sinh(s_)
            return r
        fam = [[rot(0.3), rot(1.1), rot(-0.7), rot(2.0)], [boost(0.2), boost(0.5), boost(-0.4), boost(0.9)],
               [boost2(0.3), boost2(0.6), boost2(-0.5), boost2(1.0)]]
    return fam


def commute_units(cls, n, N, phase):
    fam = commute_pool(cls, n)
    return [fam[(k + phase) % 3][((k + phase) // 3 + phase) % 4] for k in range(N)]


def case_commute(case):
    """A.commute(B, broadcast=mode) for composites A, B: elementwise = NumPy broadcasting of the composite shapes,
    pairwise = the full table of the per-pair answers.  The per-pair answer is decided by the harness (the two
    products are equal / differ by more than 1e-3) and bound to the library's answer on the two units.  The property
    fixes the axis order of a pairwise table for T.apply(X) only, so for commute either order (axes of A first, or
    axes of B first) is accepted."""
    from geometry_tools import projective as P, hyperbolic as H
    cls, n, sA, sB, mode = case["cls"], case["n"], tuple(case["sA"]), tuple(case["sB"]), case["mode"]
    C = P.Transformation if cls == "P.Transformation" else H.Isometry
    NA, NB = S.size(sA), S.size(sB)
    UA, UB = commute_units(cls, n, NA, 0), commute_units(cls, n, NB, 1)
    A, B = C(compose(UA, sA).copy()), C(compose(UB, sB).copy())
    table = np.zeros((NA, NB), dtype=bool)
    for i, a in enumerate(UA):
        for j, b in enumerate(UB):
            d = float(np.max(np.abs(a @ b - b @ a)))
            assert d < 1e-12 or d > 1e-3, "HARNESS: ambiguous pair"
            table[i, j] = d < 1e-12
    v, t = [], 0
    # the units, one pair at a time (the answer every entry is bound to)
    for i in range(NA):
        for j in range(NB):
            got = C(UA[i].copy()).commute(C(UB[j].copy()))
            t += 1
            if np.shape(got) != () or bool(got) != bool(table[i, j]):
                v.append(V("commute/unit-pair", "%s: a.commute(b) = %r for a = %r, b = %r, which %scommute" % (cls, got, UA[i].tolist(), UB[j].tolist(), "" if table[i, j] else "do not ")))
                return {"v": v, "t": t, "o": "unit", "nt": True}
    table = table.reshape(sA + sB)
    try:
        got = np.asarray(A.commute(B, broadcast=mode))
    except Exception as e:  # noqa: BLE001 - reported as a violation of this sub-check
        v.append(V("commute/%s/raises" % mode, "%s: composites of shape %r and %r: commute(broadcast=%r) raises %s: %s" % (cls, sA, sB, mode, type(e).__name__, str(e)[:200])))
        return {"v": v, "t": t + 1, "o": "raises", "nt": True}
    t += 1
    if mode == "elementwise":
        rs = S.broadcast_shape(sA, sB)
        exp = np.zeros(rs, dtype=bool)
        for idx in itertools.product(*[range(x) for x in rs]):
            exp[idx] = table[S._restrict(idx, sA) + S._restrict(idx, sB)]
        cands = [exp]
    else:
        ra, rb = len(sA), len(sB)
        cands = [table, table.transpose(tuple(range(ra, ra + rb)) + tuple(range(ra)))]
    if not any(got.shape == e.shape for e in cands):
        v.append(V("commute/%s/shape" % mode, "%s: composites of shape %r and %r: the result has shape %r, expected %s" % (
            cls, sA, sB, got.shape, " or ".join(repr(e.shape) for e in cands))))
    elif not any(got.shape == e.shape and np.array_equal(got.astype(bool), e) for e in cands):
        v.append(V("commute/%s/table" % mode, "%s: composites of shape %r and %r: commute(broadcast=%r) =\n%r\nbut the pairs of units give (axes of self first)\n%r" % (
            cls, sA, sB, mode, got, cands[0])))
    return {"v": v, "t": t, "o": repr((cls, sA, sB, mode, int(table.sum()))), "nt": NA * NB > 1}


# ------------------------------------------------------------------------------------------------
# section stack-dtypes
# ------------------------------------------------------------------------------------------------
STACK_CLASSES = ["P.Point", "P.PointPair", "P.Polygon", "P.Transformation",
                 "H.Point", "H.PointPair", "H.Segment", "H.Polygon", "H.Isometry"]
DTYPES = ["int64", "float64", "complex128", "float32"]
UNIT_ROWS = {"Point": 1, "PointPair": 2, "Segment": 2, "Polygon": 3}


def hyp_row(j, dt, n, seed):
    """j-th timelike row of a given dtype; pairwise distinct for j < 25, values that a cast to a narrower
    dtype changes (float64 rows are not float32 numbers, float rows are not integers)."""
    if dt == "int64":
        return np.array([5] + [((j // 5 ** i) % 5) - 2 for i in range(n)], dtype=np.int64)
    if dt == "float32":
        return np.array([1.0] + [((((j + 1) * (2 * i + 3)) % 37) - 18) / 64.0 for i in range(n)], dtype=np.float32)
    if dt == "float64":
        return trow(j, n, seed)
    raise ValueError(dt)


def int_isometry(k, n):
    """k-th signed permutation of the spatial coordinates (an integer element of O(n,1)), identity excluded."""
    out = []
    for perm in itertools.permutations(range(n)):
        for signs in itertools.product((1, -1), repeat=n):
            m = np.zeros((n + 1, n + 1), dtype=np.int64)
            m[0, 0] = 1
            for a, b in enumerate(perm):
                m[1 + a, 1 + b] = signs[a]
            if not np.array_equal(m, np.eye(n + 1)):
                out.append(m)
    return out[k % len(out)]


def dtype_unit_data(cls, k, dt, n, seed):
    """Coordinate array of dtype dt for the unit with label k of a class; None if the class has no such units."""
    mod, name = cls.split(".")
    if mod == "P":
        base = unit_data(cls, k, n, seed)                  # integer valued, pairwise distinct
        if dt == "int64":
            return base.astype(np.int64)
        if dt == "float32":
            return (1.25 * base).astype(np.float32)        # exact in float32, not integers
        if dt == "float64":
            return 1.1 * base                              # neither integers nor float32 numbers
        if dt == "complex128":
            if name == "Transformation":
                return (1.1 + 0.7j) * base
            return 1.1 * base + 0.7j * unit_data(cls, k + 29, n, seed)
        raise ValueError(dt)
    if dt == "complex128":
        return None
    if name == "Isometry":
        if dt == "int64":
            return int_isometry(k, n)
        R = oracle_isometry(k + (9 if dt == "float32" else 0), n)
        return R.astype(np.float32) if dt == "float32" else R
    r = UNIT_ROWS[name]
    rows_ = [hyp_row(r * k + i, dt, n, seed) for i in range(r)]
    return rows_[0] if r == 1 else np.stack(rows_)


def case_stack(case):
    """Cls([x_0, x_1, ...]) for objects x_i whose coordinate arrays have the dtypes of `pattern`: entry i of the
    result has the values of x_i (compared as complex128: NumPy's own upcast is value preserving)."""
    from geometry_tools import projective as P, hyperbolic as H
    cls, n, pattern, form, seed = case["cls"], case["n"], case["pattern"], case["form"], case["seed"]
    mod, name = cls.split(".")
    C = getattr(P if mod == "P" else H, name)
    items, k = [], 0
    for dt in pattern:
        if form == "units":
            d = dtype_unit_data(cls, k, dt, n, seed)
            k += 1
        else:                                              # composites of shape (2,), one dtype each
            d0, d1 = dtype_unit_data(cls, k, dt, n, seed), dtype_unit_data(cls, k + 1, dt, n, seed)
            d = None if d0 is None else np.stack([d0, d1])
            k += 2
        if d is None:
            return {"v": [], "t": 0, "o": "skip:no-such-units", "nt": False}
        items.append(C(d))
    v = []
    t = len(items) + 1
    kinds = [x.proj_data.dtype.name for x in items]
    if case.get("iterable") == "tuple":
        comp = C(tuple(items))
    elif case.get("iterable") == "generator":
        comp = C(x for x in items)
    else:
        comp = C(list(items))
    cat = "%s/%s" % ("same-dtype" if len(set(kinds)) == 1 else "mixed-dtypes", cls)
    if type(comp) is not C:
        v.append(V("stack/type/%s" % cat, "Cls(list of %s) is a %s" % (cls, type(comp).__name__)))
        return {"v": v, "t": t, "o": "type", "nt": True}
    eshape = (len(items),) + tuple(items[0].shape)
    if tuple(comp.shape) != eshape:
        v.append(V("stack/shape/%s" % cat, "stack of %d objects of shape %r has shape %r" % (len(items), items[0].shape, comp.shape)))
        return {"v": v, "t": t, "o": "shape", "nt": True}
    cx = lambda a: np.asarray(a).astype(complex)
    for i, x in enumerate(items):
        for what, got, exp in (("primary", comp.proj_data[i], x.proj_data), ("aux", None if comp.aux_data is None else comp.aux_data[i], x.aux_data)):
            if exp is None and got is None:
                continue
            if exp is None or got is None or not close(cx(got), cx(exp), 1e-12):
                v.append(V("stack/units/%s/%s" % (what, cat), "dtypes %r (%s): entry %d of the stack is\n%r\nbut the object put in was\n%r" % (
                    kinds, form, i, got, exp)))
                break
        else:
            y = comp[i]
            t += 1
            if type(y) is not C or tuple(y.shape) != tuple(x.shape) or not close(cx(y.proj_data), cx(x.proj_data), 1e-12) or \
                    ((x.aux_data is not None) and (y.aux_data is None or not close(cx(y.aux_data), cx(x.aux_data), 1e-9))):
                v.append(V("stack/index/%s" % cat, "dtypes %r (%s): stack[%d] is not the object put in" % (kinds, form, i)))
            continue
        break
    return {"v": v, "t": t, "o": repr((cls, tuple(kinds), form, comp.proj_data.dtype.name)), "nt": len(set(kinds)) > 1}


# ------------------------------------------------------------------------------------------------
def run(ctx):
    q = ctx.quick
    only = getattr(ctx, "only", None)

    def want(name):
        return not only or any(name.startswith(p) for p in only)
    S.self_test()
    SH = [list(s) for s in (lattice.SHAPES_QUICK if q else lattice.shapes())]
    ctx.rule = ("apply: every (class, dimension, shape_X, shape_T, mode) with elementwise restricted to broadcast-compatible "
                "pairs; apply-layouts: the same with every (layout_X, layout_T) on a smaller shape set; vectorised: every "
                "(operation, dimension, shape); histories: BFS over reshape/flatten/index/iterate/stack/len from every "
                "(class, shape, construction route / memory layout) root, de-duplicated on (class, layout, label array); "
                "stack-dtypes: every (class, dtype sequence, form, iterable kind); units pairwise distinct; non-trivial = "
                "more than one unit / more than one dtype")
    ctx.assume("elementwise application is demanded only for broadcast-compatible composite shapes (np.broadcast_shapes)")
    ctx.assume("iterating: like an array (or list) of its units, one object supports any number of simultaneous iterations; each "
               "visits the units along the first composite axis in order, whatever other iterators, indexing, len() or views "
               "of the same object do meanwhile (title + last sentence of the property); unit objects (rank 0) are not iterated")
    ctx.assume("pairwise: result axes = object's axes then transformation's axes, entry [i][j] = T[j] applied to X[i] (property text); "
               "pairwise_reversed: transformation's axes first (docstring of utils.matrix_product)")
    ctx.assume("hyperbolic objects are moved by isometries (oracle-built elements of SO(n,1)), projective ones by unimodular integer matrices")
    ctx.assume("segments / geodesics used for circle parameters do not pass through the origin and are generic (C14 owns the formulas; here only unit-wise agreement)")
    ctx.assume("fixed points are compared as projective rows (an eigenvector's scale is not part of the property); dimension 2 only (F12)")
    ctx.assume("Hyperplane units come from the library constructor on generic normals and are verified before use")
    ctx.assume("an object's units are the VALUES of its coordinate array: the memory layout (C / Fortran / transposed / reversed / "
               "strided views) of the array it was built from is not observable")
    ctx.assume("stack-dtypes: objects may hold int64 / float32 / float64 / complex128 coordinates (Point.get_origin(dtype=int) "
               "produces integer points itself); a stack holds the values of every object put in, compared after NumPy's "
               "value-preserving upcast to complex128; hyperbolic classes with real dtypes only")
    ctx.tolerances["entries"] = "1e-9*(1+|v|): the same floating products in a different batching; integer data 1e-12"
    ctx.tolerances["oracle charts / distance"] = "1e-7: only to pin the unit order against the oracle (C01 owns accuracy)"
    ctx.tolerances["fixed points"] = "sine between rows <= 1e-7 (parabolic eigenvectors are sqrt(eps)-conditioned)"
    if want("apply"):
        cases = [{"cls": c, "n": n, "sX": sx, "sT": st, "mode": m, "seed": ctx.seed}
                 for c in APPLY_CLASSES for n in (2, 3) for m in S.MODES for sx in SH for st in SH
                 if S.result_shape(m, sx, st) is not None]
        ctx.product("apply", "checks.c04:case_apply", cases, chunk=24,
                    domains={"classes": APPLY_CLASSES, "dimension": [2, 3], "modes": S.MODES, "shapes": len(SH),
                             "shape pairs": "all ordered pairs; elementwise only the broadcast-compatible ones"})
    if want("vectorised"):
        cases = [{"op": op, "n": n, "shape": s, "seed": ctx.seed} for op in VEC_OPS for n in (2, 3) for s in SH
                 if not (n != 2 and op.startswith(DIM2_ONLY))]
        ctx.product("vectorised-geometry", "checks.c04:case_vec", cases, chunk=8,
                    domains={"operations": VEC_OPS, "dimension": "2 and 3 (circle parameters, fixed points, SL(2) maps: 2)",
                             "shapes": len(SH)})
    if want("apply-layouts"):
        LS = [[], [3], [2, 3], [2, 1, 3]] if q else [[], [3], [1, 2], [2, 3], [2, 1, 3], [3, 2, 2]]
        LP = [(a, b) for a in LAYOUTS for b in LAYOUTS if (a == "C") != (b == "C") or (a == b and a != "C")]
        cases = [{"cls": c, "n": 2, "sX": sx, "sT": st, "mode": m, "seed": ctx.seed, "lX": lx, "lT": lt}
                 for c in APPLY_CLASSES for m in S.MODES for sx in LS for st in LS for (lx, lt) in LP
                 if S.result_shape(m, sx, st) is not None]
        ctx.product("apply-layouts", "checks.c04:case_apply", cases, chunk=32,
                    domains={"classes": APPLY_CLASSES, "dimension": [2], "modes": S.MODES, "shapes of X and T": LS,
                             "memory layouts": LAYOUTS,
                             "(layout of X's array, layout of T's array)": "one of them C and the other not, or both the same non-C layout"})
    if want("index"):
        ISH = [[], [1], [3], [2, 3], [3, 1], [2, 1, 3]] if q else [[], [1], [3], [2, 3], [3, 1], [1, 2], [2, 1, 3], [3, 2, 2]]
        ctx.assume("an index containing an Ellipsis is legal for a composite (the object is an array of its units): the Ellipsis "
                   "stands for composite axes only, as NumPy defines it on an array of the composite shape; indices are basic "
                   "(integers, slices) plus one index list on the last axis; the coordinate / vertex axes of a unit are never indexed")
        cases = [{"cls": c, "n": 3 if c.startswith("P.") else 2, "shape": sh, "seed": ctx.seed, "ellipsis": e, "explicit": x}
                 for c in HIST_CLASSES for sh in ISH for (e, x) in index_forms(sh)]
        ctx.product("index-forms", "checks.c04:case_index", cases, chunk=16,
                    domains={"classes": HIST_CLASSES, "composite shapes": ISH,
                             "index forms": "X[...], X[..., j], X[..., a:b], X[..., ::-1], X[..., [0, m-1]], X[i, ...], X[i, ..., j], X[0:1, ...], "
                                            "X[..., i, j], X[..., 0:1, j], each paired with its explicit spelling",
                             "operations": ["X[index]", "X[index] = unit", "X[index] = composite of the selected shape"],
                             "demand": "result = the units NumPy indexing selects from the label array; Ellipsis form == explicit form"})
    if want("commute"):
        CS = [[], [1], [2], [3], [2, 3], [3, 1], [1, 3]] if q else [[], [1], [2], [3], [2, 3], [3, 1], [1, 3], [2, 2], [2, 1, 3]]
        ctx.assume("Transformation.commute(other, broadcast=) is a vectorised operation on composites with the broadcast modes of apply "
                   "('elementwise' default, 'pairwise'): elementwise answers follow NumPy broadcasting, the pairwise answer is the full table of "
                   "the per-pair answers; the property fixes the axis order of a pairwise result for T.apply(X) only, so both orders of the "
                   "table are accepted; pairs are exactly commuting (error < 1e-12) or far from commuting (> 1e-3), commute's tol is 1e-8")
        cases = [{"cls": c, "n": 2, "sA": a, "sB": b, "mode": m} for c in ("P.Transformation", "H.Isometry") for m in ("elementwise", "pairwise")
                 for a in CS for b in CS if m == "pairwise" or S.broadcast_shape(a, b) is not None]
        ctx.product("commute", "checks.c04:case_commute", cases, chunk=8,
                    domains={"classes": ["P.Transformation", "H.Isometry"], "shapes of A and B": CS, "modes": ["elementwise (broadcast-compatible pairs)", "pairwise"],
                             "units": "three commuting families, consecutive units from different families"})
    if want("stack"):
        pats = [list(p) for p in itertools.product(DTYPES, repeat=2)] + \
               [list(p) for p in itertools.product(DTYPES[:3], repeat=3)]
        cases = [{"cls": c, "n": 2, "pattern": p, "form": f, "iterable": "list", "seed": ctx.seed}
                 for c in STACK_CLASSES for p in pats for f in ("units", "composites")]
        cases += [{"cls": c, "n": 3, "pattern": p, "form": "units", "iterable": it, "seed": ctx.seed}
                  for c in STACK_CLASSES for p in pats[:16] for it in ("tuple", "generator")]
        ctx.product("stack-dtypes", "checks.c04:case_stack", cases, chunk=32,
                    domains={"classes": STACK_CLASSES, "dtypes": DTYPES,
                             "dtype sequences": "all of length 2 over the four dtypes, all of length 3 over int64/float64/complex128 "
                                                "(hyperbolic classes: the real ones)",
                             "form": ["single objects", "composites of shape (2,), one dtype each"],
                             "iterable": ["list", "tuple", "generator"]})
    if want("shape"):
        HL = LAYOUTS
        roots = [[{"cls": c, "n": 3 if c.startswith("P.") else 2, "shape": s, "seed": ctx.seed, "layout": l}]
                 for c in HIST_CLASSES for s in ([], [3], [2, 3], [2, 1, 2]) for l in [None] + HL]
        ctx.bfs("shape-histories", "checks.c04:case_hist", roots, depth=2 if q else 3, chunk=16,
                domains={"classes": HIST_CLASSES, "initial shapes": [[], [3], [2, 3], [2, 1, 2]],
                         "construction": ["the class's usual constructor (points / endpoints / basepoint+vector)"] +
                                         ["Cls(projective array in %s memory layout)" % l for l in HL],
                         "ops": "reshape(every shape of rank<=3 of equal size), flatten_to_unit, [i], iterate+restack, stack Cls([x, y]), len, "
                                "overlap (object unchanged; all of OVERLAP_PROTOCOLS in one step)",
                         "overlapping iterations of one object": OVERLAP_PROTOCOLS})
