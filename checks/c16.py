"""C16 - affine charts, affine maps and subspace operations in projective space are exact.

Engine P.  Coordinates are dyadic (Gaussian) rationals, linear maps / translations / normals /
spanning sets are small integer matrices, so every oracle value is exact in float64 and the
comparisons are at 1e-12; transversality and eigen-data are decided exactly (mc/oracle/linalg.py).
Affine linear maps and translations are also taken over the Gaussian integers / dyadics (complex maps and
complex translations on real and complex points); composite transformations with mixed spectra check that
eigenvector(lambda) reports zero coordinates exactly for the members without that eigenvalue.
"""
import functools
import itertools
import warnings

import numpy as np

from mc.oracle import linalg as L

TAU = 1e-12
RANK_RTOL = 1e-8

REAL_A = [0.0, 1.0, -2.0, 0.5, -0.75]
CPLX_A = [0.0, 1.0, 1j, -0.5j, 1.0 + 2.0j, -2.0 + 0.5j]
# homogeneous alphabets for the outside-chart test: zero, real, purely imaginary, mixed
REAL_H = [0.0, 1.0, -2.0, 0.5]
CPLX_H = [0.0, 1.0, 2j, -0.5j, 0.5 - 1.0j]
LAMBDAS_REAL = [1.0, -1.0, 2.5, -0.3]
LAMBDAS_CPLX = [1j, 1.0 + 1.0j, 0.5 - 2.0j]


def _V(key, msg):
    return {"key": key, "msg": msg}


def _quiet(fn):
    """run a case function with NumPy / library warnings silenced (nothing is printed per case)."""
    @functools.wraps(fn)
    def wrapped(case):
        with warnings.catch_warnings():
            warnings.simplefilter("ignore")
            with np.errstate(all="ignore"):
                return fn(case)
    return wrapped


def _cx(z):
    return complex(z[0], z[1]) if isinstance(z, (list, tuple)) else z


def _carr(x):
    """ndarray from its JSON-able form: a nested list of floats (float64), or {"re": ..., "im": ...}
    (complex128)"""
    if isinstance(x, dict):
        return np.array(x["re"], dtype=float) + 1j * np.array(x["im"], dtype=float)
    return np.array(x, dtype=float)


def _cjson(M):
    """JSON-able form of a nested list of Python numbers (complex allowed)"""
    def part(y, f):
        return [part(z, f) for z in y] if isinstance(y, (list, tuple)) else float(f(complex(y)))
    return {"re": part(M, lambda z: z.real), "im": part(M, lambda z: z.imag)}


def _alphabet(field, size):
    a = REAL_A if field == "real" else CPLX_A
    return a[:size]


def _vectors(field, N, size):
    a = _alphabet(field, size)
    dt = float if field == "real" else complex
    return np.array(list(itertools.product(a, repeat=N)), dtype=dt)


def _insert_one(A, i):
    """oracle: homogeneous coordinates with a 1 in slot i (row layout)."""
    one = np.ones(A.shape[:-1] + (1,), dtype=A.dtype)
    return np.concatenate([A[..., :i], one, A[..., i:]], axis=-1)


def _maxerr(x, y):
    x, y = np.asarray(x), np.asarray(y)
    if x.shape != y.shape:
        return float("inf")
    if x.size == 0:
        return 0.0
    return float(np.max(np.abs(x - y)))


def _reject_key(lam, route):
    cls = "purely-imaginary" if complex(lam).real == 0 else "real-part-nonzero"
    return "charts/affine_coords/rejects-in-chart-points/%s-chart-coordinate/%s" % (cls, route)


def _raises_geometry_error(fn):
    from geometry_tools.base import GeometryError
    try:
        r = fn()
    except GeometryError:
        return True, None
    return False, r


# ------------------------------------------------------------------------------------------
# charts: construction, rescaling, round trip
# ------------------------------------------------------------------------------------------
@_quiet
def case_chart_roundtrip(case):
    from geometry_tools import projective
    N, i, layout, field, size = case["N"], case["i"], case["layout"], case["field"], case["size"]
    lam = _cx(case["lam"])
    shape_variant = case["variant"]
    A = _vectors(field, N, size)                      # (M, N)
    M = A.shape[0]
    if shape_variant == "rank2":
        f = next(d for d in (5, 4, 3, 2, 1) if M % d == 0)
        A = A.reshape(f, M // f, N)
    elif shape_variant == "rank0":
        A = A[case["index"] % M]
    v, t = [], 0
    cls = "%s/%s" % (field, layout)
    want_P = _insert_one(A, i)
    scale = 1.0 + float(np.max(np.abs(A))) if A.size else 1.0
    if layout == "row":
        P = projective.projective_coords(A.copy(), chart_index=i)
        t += 1
        if _maxerr(P, want_P) != 0.0:
            v.append(_V("charts/projective_coords/%s" % cls, "N=%d chart %d: homogeneous coordinates differ from (a, 1 in slot i) by %r" % (N, i, _maxerr(P, want_P))))
        else:
            if not np.all(P[..., i] == 1):
                v.append(_V("charts/chart-slot-not-one/%s" % cls, "N=%d chart %d" % (N, i)))
            raised, back = _raises_geometry_error(lambda: projective.affine_coords(lam * P, chart_index=i))
            t += 1
            e = _maxerr(back, A) if not raised else 0.0
            if raised:
                v.append(_V(_reject_key(lam, "roundtrip-function"), "N=%d chart %d lambda=%r: GeometryError for points with chart coordinate lambda" % (N, i, lam)))
            if not e <= TAU * scale:
                v.append(_V("charts/roundtrip/function/%s" % cls, "N=%d chart %d lambda=%r: affine_coords(lambda*projective_coords(a)) differs from a by %.3g" % (N, i, lam, e)))
        # the same coordinates handed over as nested Python lists / tuples (complex numbers included)
        def _tup(x):
            return tuple(_tup(y) for y in x) if isinstance(x, list) else x
        for pk, packed in (("list", A.tolist()), ("tuple", _tup(A.tolist()))):
            P2 = np.asarray(projective.projective_coords(packed, chart_index=i))
            Pt2 = np.asarray(projective.Point(packed, chart_index=i).proj_data)
            t += 2
            if P2.shape != want_P.shape or _maxerr(P2, want_P) != 0.0:
                v.append(_V("charts/projective_coords/%s-input/%s" % (pk, cls), "N=%d chart %d: projective_coords(%s) differs from (a, 1 in slot i): %r vs %r" % (N, i, pk, P2, want_P)))
            if Pt2.shape != want_P.shape or _maxerr(Pt2, want_P) != 0.0:
                v.append(_V("charts/Point-chart-slot/%s-input/%s" % (pk, cls), "N=%d chart %d: Point(%s, chart_index=i) differs from (a, 1 in slot i)" % (N, i, pk)))
        # object route
        pt = projective.Point(A.copy(), chart_index=i)
        t += 1
        if _maxerr(pt.proj_data, want_P) != 0.0 or not np.all(pt.proj_data[..., i] == 1):
            v.append(_V("charts/Point-chart-slot/%s" % cls, "N=%d chart %d: Point(a, chart_index=i).proj_data[..., i] != 1 or coordinates moved" % (N, i)))
        else:
            inchart = np.asarray(pt.in_affine_chart(i))
            if inchart.shape != A.shape[:-1] or not np.all(inchart):
                v.append(_V("charts/in_affine_chart/false-for-chart-point/%s" % cls, "N=%d chart %d" % (N, i)))
            p2 = projective.Point(lam * pt.proj_data)
            raised, back = _raises_geometry_error(lambda: p2.affine_coords(chart_index=i))
            t += 2
            e = _maxerr(back, A) if not raised else 0.0
            if raised:
                v.append(_V(_reject_key(lam, "roundtrip-method"), "N=%d chart %d lambda=%r: GeometryError for points with chart coordinate lambda" % (N, i, lam)))
            if not e <= TAU * scale:
                v.append(_V("charts/roundtrip/method/%s" % cls, "N=%d chart %d lambda=%r: Point(lambda*p).affine_coords differs from a by %.3g" % (N, i, lam, e)))
            # setter: move an existing object to these affine coordinates
            q = projective.Point(np.zeros(A.shape[:-1] + (N + 1,)) + 1.0)
            got = q.affine_coords(A.copy(), chart_index=i)
            t += 1
            if _maxerr(got, A) > TAU * scale or _maxerr(q.proj_data, want_P) != 0.0:
                v.append(_V("charts/setter/%s" % cls, "N=%d chart %d: obj.affine_coords(a, chart_index=i) did not install (a, 1)" % (N, i)))
        # automatic chart
        raised, got = _raises_geometry_error(lambda: projective.affine_coords(lam * want_P))
        t += 1
        if raised:
            Z = np.asarray(lam * want_P)
            has_imag = bool(np.any((Z.real == 0) & (Z.imag != 0)))
            v.append(_V(_reject_key(1j if has_imag else 1.0, "auto-chart"),
                        "N=%d lambda=%r: 'no standard chart' although chart %d contains every point" % (N, lam, i)))
        elif not (isinstance(got, tuple) and len(got) == 2):
            v.append(_V("charts/auto-chart/return/%s" % cls, "returned %r" % (type(got),)))
        else:
            aff, idx = got
            idx = int(idx)
            col = want_P[..., idx]
            if np.any(col == 0):
                v.append(_V("charts/auto-chart/invalid-chart/%s" % cls, "N=%d: chose chart %d where a point has coordinate 0" % (N, idx)))
            else:
                want = np.delete(want_P / col[..., None], idx, axis=-1)
                e = _maxerr(aff, want)
                if not e <= TAU * (1.0 + float(np.max(np.abs(want)))):
                    v.append(_V("charts/auto-chart/value/%s" % cls, "N=%d chart %d: error %.3g" % (N, idx, e)))
    else:
        if A.ndim < 2:
            return {"v": [], "t": 0, "o": "out-of-domain:column-layout-needs-2-axes", "nt": False}
        Ac = np.swapaxes(A, -1, -2).copy()            # (..., N, M)
        P = projective.projective_coords(Ac.copy(), chart_index=i, column_vectors=True)
        t += 1
        want_Pc = np.swapaxes(want_P, -1, -2)
        if _maxerr(P, want_Pc) != 0.0:
            v.append(_V("charts/projective_coords/%s" % cls, "N=%d chart %d: column layout differs by %r" % (N, i, _maxerr(P, want_Pc))))
        else:
            if not np.all(P[..., i, :] == 1):
                v.append(_V("charts/chart-slot-not-one/%s" % cls, "N=%d chart %d" % (N, i)))
            raised, back = _raises_geometry_error(lambda: projective.affine_coords(lam * P, chart_index=i, column_vectors=True))
            t += 1
            e = _maxerr(back, Ac) if not raised else 0.0
            if raised:
                v.append(_V(_reject_key(lam, "roundtrip-function-columns"), "N=%d chart %d lambda=%r: GeometryError for points with chart coordinate lambda" % (N, i, lam)))
            if not e <= TAU * scale:
                v.append(_V("charts/roundtrip/function/%s" % cls, "N=%d chart %d lambda=%r: column layout error %.3g" % (N, i, lam, e)))
    return {"v": v, "t": t, "o": repr((N, i, layout, field, shape_variant, case.get("index"), repr(lam))), "nt": True}


# ------------------------------------------------------------------------------------------
# charts: outside <=> chart coordinate is zero
# ------------------------------------------------------------------------------------------
@_quiet
def case_chart_outside(case):
    from geometry_tools import projective
    N, i, field = case["N"], case["i"], case["field"]
    H = (REAL_H if field == "real" else CPLX_H)[:case["size"]]
    dt = float if field == "real" else complex
    Vs = np.array([h for h in itertools.product(H, repeat=N + 1) if any(x != 0 for x in h)], dtype=dt)
    v, t = [], 0
    pts = projective.Point(Vs.copy())
    got = np.asarray(pts.in_affine_chart(i))
    t += 1
    want_in = Vs[:, i] != 0
    if got.shape != want_in.shape or not np.array_equal(got.astype(bool), want_in):
        k = int(np.argmax(got.astype(bool) != want_in)) if got.shape == want_in.shape else -1
        v.append(_V("charts/in_affine_chart/%s" % field, "N=%d chart %d: wrong for point %r" % (N, i, Vs[k].tolist() if k >= 0 else None)))
    groups = {"real-part-nonzero": Vs[want_in & (Vs[:, i].real != 0)],
              "purely-imaginary": Vs[want_in & (Vs[:, i].real == 0)]}
    for gname, G in sorted(groups.items()):
        if len(G) == 0:
            continue
        want = np.delete(G / G[:, i:i + 1], i, axis=-1)
        scale = 1.0 + float(np.max(np.abs(want)))
        for route, call in (("function", lambda: projective.affine_coords(G.copy(), chart_index=i)),
                            ("method", lambda: projective.Point(G.copy()).affine_coords(chart_index=i)),
                            ("function-columns", lambda: projective.affine_coords(G.T.copy(), chart_index=i, column_vectors=True).T)):
            raised, r = _raises_geometry_error(call)
            t += 1
            if raised:
                v.append(_V("charts/affine_coords/rejects-in-chart-points/%s-chart-coordinate/%s" % (gname, route),
                            "N=%d chart %d: GeometryError although every chart coordinate is non-zero, e.g. point %r" % (N, i, G[0].tolist())))
            elif not _maxerr(r, want) <= TAU * scale:
                v.append(_V("charts/affine_coords/value/%s-chart-coordinate/%s" % (gname, route), "N=%d chart %d: error %.3g" % (N, i, _maxerr(r, want))))
        # single points (rank 0)
        nbad = 0
        for g in G:
            raised, r = _raises_geometry_error(lambda: projective.Point(g.copy()).affine_coords(chart_index=i))
            t += 1
            if raised or not _maxerr(r, np.delete(g / g[i], i)) <= TAU * scale:
                nbad += 1
                if nbad == 1:
                    v.append(_V("charts/affine_coords/rejects-in-chart-points/%s-chart-coordinate/single" % gname,
                                "N=%d chart %d point %r: %s" % (N, i, g.tolist(), "GeometryError" if raised else "wrong value %r" % (r,))))
    outside = Vs[~want_in]
    n_accept = 0
    for g in outside:
        for route, call in (("function", lambda: projective.affine_coords(g.copy(), chart_index=i)),
                            ("method", lambda: projective.Point(g.copy()).affine_coords(chart_index=i))):
            raised, r = _raises_geometry_error(call)
            t += 1
            if not raised:
                n_accept += 1
                if n_accept <= 2:
                    v.append(_V("charts/affine_coords/accepts-outside-point/%s/%s" % (field, route), "N=%d chart %d point %r returned %r" % (N, i, g.tolist(), r)))
    if len(outside) and int(np.count_nonzero(want_in)):
        mixed = np.concatenate([Vs[want_in][:3], outside[:1], Vs[want_in][3:5]])
        raised, r = _raises_geometry_error(lambda: projective.Point(mixed.copy()).affine_coords(chart_index=i))
        t += 1
        if not raised:
            v.append(_V("charts/affine_coords/accepts-outside-point/%s/batch" % field, "N=%d chart %d: a batch containing %r was accepted" % (N, i, outside[0].tolist())))
    # tiny but non-zero chart coordinates are inside the chart ("exactly when its chart coordinate is zero")
    tiny = [1e-9, -1e-12, 1e-100] if field == "real" else [1e-9, 1e-12j, -1e-10 + 1e-10j]
    for eps in tiny:
        g = np.array([1.0 + 0.5 * k for k in range(N + 1)], dtype=dt)
        g[i] = eps
        inch = np.asarray(projective.Point(g.copy()).in_affine_chart(i))
        both = np.asarray(projective.Point(np.array([g, g[::-1] + 1.0])).in_affine_chart(i))
        t += 2
        if not bool(inch) or not bool(both[0]):
            v.append(_V("charts/in_affine_chart/tiny-nonzero/%s" % field, "N=%d chart %d point %r (chart coordinate %r != 0) reported outside the chart" % (N, i, g.tolist(), eps)))
        raised, r = _raises_geometry_error(lambda: projective.Point(g.copy()).affine_coords(chart_index=i))
        t += 1
        want = np.delete(g / g[i], i)
        if raised or not np.max(np.abs(r - want) / np.abs(want)) <= 1e-12:
            v.append(_V("charts/affine_coords/tiny-nonzero/%s" % field, "N=%d chart %d point %r: %s" % (N, i, g.tolist(), "GeometryError" if raised else "wrong value %r" % (r,))))
    return {"v": v, "t": t, "o": repr((N, i, field, len(Vs), int(np.count_nonzero(want_in)))), "nt": True}


# ------------------------------------------------------------------------------------------
# affine maps
# ------------------------------------------------------------------------------------------
def linear_alphabet(N, quick):
    """invertible integer (and a few dyadic) N x N matrices."""
    mats = []

    def add(M):
        M = [[float(x) for x in r] for r in M]
        if M not in mats:
            mats.append(M)
    if N == 1:
        for x in (1, -1, 2, -0.5, 3):
            add([[x]])
        return mats
    if N == 2 or (N == 3 and not quick):
        ent = (-1, 0, 1, 2) if N == 2 else (-1, 0, 1)
        for flat in itertools.product(ent, repeat=N * N):
            M = [list(flat[r * N:(r + 1) * N]) for r in range(N)]
            if L.int_det(M) != 0:
                add(M)
        return mats
    if N == 3:
        for flat in itertools.product((0, 1), repeat=9):
            M = [list(flat[r * 3:(r + 1) * 3]) for r in range(3)]
            if L.int_det(M) != 0:
                add(M)
    add(L.iidentity(N))
    for a in range(N):
        for b in range(N):
            if a != b:
                add(L.elementary(N, a, b, 1))
                add(L.elementary(N, a, b, -1))
    for a in range(N):
        D = L.iidentity(N)
        D[a][a] = -1
        add(D)
        D = L.iidentity(N)
        D[a][a] = 2
        add(D)
        for b in range(a + 1, N):
            P = L.iidentity(N)
            P[a][a] = P[b][b] = 0
            P[a][b] = P[b][a] = 1
            add(P)
    for Q in L.unimodular_family(N):
        add(Q)
    return mats


def _cdet(M):
    """determinant of a small square matrix of Gaussian integers (exact in complex128: cofactor expansion)"""
    n = len(M)
    if n == 1:
        return M[0][0]
    return sum(((-1) ** c) * M[0][c] * _cdet([r[:c] + r[c + 1:] for r in M[1:]]) for c in range(n) if M[0][c] != 0)


def complex_linear_alphabet(N, quick):
    """invertible N x N matrices over the Gaussian integers with a non-real entry (nested lists of Python
    numbers).  N = 1: a few units and non-units; N = 2 (N = 3 thorough): every matrix with entries in
    {0, 1, -1, i, -i} ({0, 1, i}) and non-zero determinant; else a structured unimodular family:
    elementary matrices with +-i off the diagonal, diag(.., +-i, ..), i * permutation, and D Q, Q D for the
    integer unimodular family Q and D = diag(i^0, i^1, i^2, ...)."""
    mats = []

    def add(M):
        M = [[complex(x) for x in r] for r in M]
        if any(x.imag != 0 for r in M for x in r) and M not in mats:
            mats.append(M)
    if N == 1:
        for x in (1j, -1j, 1 + 2j, -0.5j, -2 + 1j):
            add([[x]])
        return mats
    if N == 2 or (N == 3 and not quick):
        ent = (0, 1, -1, 1j, -1j) if N == 2 else (0, 1, 1j)
        for flat in itertools.product(ent, repeat=N * N):
            M = [list(flat[r * N:(r + 1) * N]) for r in range(N)]
            if _cdet(M) != 0:
                add(M)
        return mats
    for a in range(N):
        for b in range(N):
            if a != b:
                add(L.elementary(N, a, b, 1j))
                add(L.elementary(N, a, b, -1j))
    for a in range(N):
        for u in (1j, -1j):
            D = L.iidentity(N)
            D[a][a] = u
            add(D)
        for b in range(a + 1, N):
            P = L.iidentity(N)
            P[a][a] = P[b][b] = 0
            P[a][b] = 1j
            P[b][a] = 1
            add(P)
    Dg = [[(1j ** a) if a == b else 0 for b in range(N)] for a in range(N)]
    for Q in L.unimodular_family(N):
        add([[Dg[a][a] * Q[a][b] for b in range(N)] for a in range(N)])
        add([[Q[a][b] * Dg[b][b] for b in range(N)] for a in range(N)])
    return mats


def complex_translation_alphabet(N, quick):
    ent = (0.0, 1j, 2.0) if (quick and N >= 4) else (0.0, 1j, -1.0 + 0.5j, 2.0)
    return [list(t) for t in itertools.product(ent, repeat=N)]


def translation_alphabet(N, quick):
    ent = (-1.0, 0.0, 2.0) if (quick and N >= 4) else (-1.0, 0.0, 2.0, 0.5)
    return [list(t) for t in itertools.product(ent, repeat=N)]


@_quiet
def case_affine_linear(case):
    from geometry_tools import projective
    N, i = case["N"], case["i"]
    pfield = case.get("pfield", "real")
    X = _vectors(pfield, N, case["size"])
    v, t = [], 0
    for Lm in case["maps"]:
        Lf = _carr(Lm)
        fcls = "" if (pfield == "real" and not isinstance(Lm, dict)) else "/%s-map-%s-points" % ("complex" if isinstance(Lm, dict) else "real", pfield)
        for cv in (True, False, None):
            if cv is None:
                T = projective.affine_linear_map(Lf.copy(), i)
                want = X @ Lf.T
                cvn = "default"
            else:
                T = projective.affine_linear_map(Lf.copy(), i, column_vectors=cv)
                want = X @ Lf.T if cv else X @ Lf
                cvn = "columns" if cv else "rows"
            img = T @ projective.Point(X.copy(), chart_index=i)
            raised, Y = _raises_geometry_error(lambda: img.affine_coords(chart_index=i))
            t += 3
            if raised:
                v.append(_V("affine_linear_map/leaves-chart/%s%s" % (cvn, fcls), "N=%d chart %d L=%r: an image point left the chart" % (N, i, Lf.tolist())))
                break
            e = _maxerr(Y, want)
            if not e <= TAU * (1.0 + float(np.max(np.abs(want)))):
                v.append(_V("affine_linear_map/action/%s%s" % (cvn, fcls), "N=%d chart %d L=%r: chart action differs from the linear map by %.3g" % (N, i, Lf.tolist(), e)))
                break
        if len(v) > 3:
            break
    return {"v": v[:4], "t": t, "o": repr((N, i, pfield, len(case["maps"]), case["maps"][0])), "nt": True}


@_quiet
def case_affine_translation(case):
    from geometry_tools import projective
    N, i = case["N"], case["i"]
    pfield = case.get("pfield", "real")
    X = _vectors(pfield, N, case["size"])
    v, t = [], 0
    trs = _carr(case["translations"])
    fcls = "" if (pfield == "real" and not isinstance(case["translations"], dict)) else "/%s-translation-%s-points" % (
        "complex" if isinstance(case["translations"], dict) else "real", pfield)
    for tf in trs:
        tv = tf.tolist()
        T = projective.affine_translation(tf.copy(), i)
        img = T @ projective.Point(X.copy(), chart_index=i)
        raised, Y = _raises_geometry_error(lambda: img.affine_coords(chart_index=i))
        t += 3
        if raised:
            v.append(_V("affine_translation/leaves-chart" + fcls, "N=%d chart %d t=%r: an image point left the chart" % (N, i, tv)))
            continue
        e = _maxerr(Y, X + tf)
        if not e <= TAU * (1.0 + float(np.max(np.abs(X + tf)))):
            v.append(_V("affine_translation/action" + fcls, "N=%d chart %d t=%r: chart action differs from x+t by %.3g" % (N, i, tv, e)))
        if len(v) > 3:
            break
    return {"v": v[:4], "t": t, "o": repr((N, i, pfield, len(trs), trs[0].tolist())), "nt": True}


# composite shapes of the Point an affine map is applied to: every tuple over {1, 2, 3} of length 0..3
# (length-1 axes in every position, alone and nested between longer axes)
COMPOSITE_POINT_SHAPES = [list(s) for r in range(4) for s in itertools.product((1, 2, 3), repeat=r)]


@functools.lru_cache(maxsize=None)
def composite_maps(N):
    """a few invertible integer maps (non-symmetric where N >= 2) and translations without zero entries"""
    if N == 1:
        maps = [[[2.0]], [[-0.5]]]
    else:
        fam = linear_alphabet(N, True)
        maps = [M for M in fam if M != np.array(M).T.tolist()][:2]
        S = [[float((a == b) * (a + 2) + (b == a + 1) * -1.0) for b in range(N)] for a in range(N)]
        maps.append(S)
    trs = [[float(1 + 0.5 * a) for a in range(N)], [float((-1) ** a * (a + 1)) for a in range(N)]]
    return maps, trs


@_quiet
def case_affine_composite(case):
    """ONE Point of composite shape `shape` (members = consecutive vectors of the complete alphabet product, starting at
    `off`), mapped by affine linear maps (all three layouts) and translations of chart i: the image keeps the composite
    shape (homogeneous data shape + (N+1,), affine data shape + (N,)) and is the map applied member by member."""
    from geometry_tools import projective
    N, i, field = case["N"], case["i"], case["field"]
    shape = tuple(case["shape"])
    pool = _vectors(field, N, case["size"])
    cnt = int(np.prod(shape, dtype=int))
    X = pool[[(case["off"] + j) % len(pool) for j in range(cnt)]].reshape(shape + (N,))
    ones = sum(1 for s in shape if s == 1)
    scls = "rank%d/%s" % (len(shape), "no-unit-axis" if ones == 0 else ("all-unit-axes" if ones == len(shape) else "some-unit-axes"))
    maps, trs = composite_maps(N)
    todo = []
    for Lm in maps:
        Lf = np.array(Lm, dtype=float)
        todo.append(("affine_linear_map", "default", lambda Lf=Lf: projective.affine_linear_map(Lf.copy(), i), X @ Lf.T, Lm))
        todo.append(("affine_linear_map", "columns", lambda Lf=Lf: projective.affine_linear_map(Lf.copy(), i, column_vectors=True), X @ Lf.T, Lm))
        todo.append(("affine_linear_map", "rows", lambda Lf=Lf: projective.affine_linear_map(Lf.copy(), i, column_vectors=False), X @ Lf, Lm))
    for tv in trs:
        tf = np.array(tv, dtype=float)
        todo.append(("affine_translation", "vector", lambda tf=tf: projective.affine_translation(tf.copy(), i), X + tf, tv))
    v, t = [], 0
    seen = set()
    for fname, variant, make, want, param in todo:
        T = make()
        P = projective.Point(X.copy(), chart_index=i)
        img = T @ P
        t += 3
        pd = np.asarray(img.proj_data)
        key = None
        if pd.shape != shape + (N + 1,):
            key = "%s/composite-shape/proj_data/%s" % (fname, scls)
            msg = "homogeneous data of the image has shape %r, expected %r" % (pd.shape, shape + (N + 1,))
        else:
            raised, Y = _raises_geometry_error(lambda: img.affine_coords(chart_index=i))
            t += 1
            if raised:
                key = "%s/leaves-chart/composite/%s" % (fname, scls)
                msg = "an image point left the chart"
            elif np.asarray(Y).shape != want.shape:
                key = "%s/composite-shape/affine_coords/%s" % (fname, scls)
                msg = "affine coordinates of the image have shape %r, expected %r" % (np.asarray(Y).shape, want.shape)
            elif not _maxerr(Y, want) <= TAU * (1.0 + float(np.max(np.abs(want)))):
                key = "%s/action/composite/%s/%s" % (fname, variant, scls)
                msg = "chart action differs from the map applied member by member by %.3g" % _maxerr(Y, want)
        if key is not None and key not in seen:
            seen.add(key)
            v.append(_V(key, "N=%d chart %d, %s points of composite shape %r, %s(%r) [%s]: %s" % (N, i, field, list(shape), fname, param, variant, msg)))
    return {"v": v[:4], "t": t, "o": repr((N, i, field, list(shape), case["off"])), "nt": True}


@_quiet
def case_hyperplane_transform(case):
    """a block of integer normals of R^(N+1); points = all of {-1,0,1}^(N+1) minus 0."""
    from geometry_tools import projective
    N = case["N"]
    X = np.array([x for x in itertools.product((-1.0, 0.0, 1.0), repeat=N + 1) if any(x)], dtype=float)
    v, t = [], 0
    for nrm in case["normals"]:
        nf = np.array(nrm, dtype=float)
        T = projective.hyperplane_coordinate_transform(nf.copy())
        t += 1
        M = T.matrix
        if M.shape != (N + 1, N + 1):
            v.append(_V("hyperplane_coordinate_transform/shape", "normal %r: matrix shape %r" % (nrm, M.shape)))
            continue
        e = _maxerr(M @ M.T, np.eye(N + 1))
        if not e <= 1e-10:
            v.append(_V("hyperplane_coordinate_transform/orthogonal", "normal %r: |M M^T - 1| = %.3g" % (nrm, e)))
            continue
        img = (T @ projective.Point(X.copy())).proj_data
        t += 1
        want0 = np.abs(X @ nf) / np.linalg.norm(nf)
        e = _maxerr(np.abs(img[:, 0]), want0)
        if not e <= 1e-10 * (1.0 + float(np.max(want0))):
            k = int(np.argmax(np.abs(np.abs(img[:, 0]) - want0)))
            v.append(_V("hyperplane_coordinate_transform/hyperplane-to-infinity",
                        "normal %r point %r: |x_0| of the image is %r, expected |x.n|/|n| = %r" % (nrm, X[k].tolist(), float(abs(img[k, 0])), float(want0[k]))))
        if len(v) > 3:
            break
    return {"v": v[:4], "t": t, "o": repr((N, len(case["normals"]), case["normals"][0])), "nt": True}


# ------------------------------------------------------------------------------------------
# Subspace.intersect
# ------------------------------------------------------------------------------------------
def subspace_pool(n, extra, seed):
    pool = [[1 if a == b else 0 for b in range(n)] for a in range(n)]
    ts = [2, -1, 3, -2]
    ts = ts[seed % 4:] + ts[:seed % 4]
    for tt in ts[:extra]:
        pool.append([tt ** b for b in range(n)])
    return pool


def _check_intersection(v, A, B, R, where):
    k, n = A.shape
    l = B.shape[0]
    d = k + l - n
    if R.shape != (d, n):
        v.append(_V("intersect/shape/" + where + ("/complementary" if d == 0 else ""),
                    "dims (%d,%d) in R^%d: result shape %r, expected %r%s" % (
                        k, l, n, R.shape, (d, n), " (complementary subspaces meet in the empty projective subspace)" if d == 0 else "")))
        return
    if d == 0:
        return          # complementary subspaces: the empty spanning set, nothing more to say
    if not np.all(np.isfinite(R)) or L.num_rank(L.rows_normalised(R), RANK_RTOL) != d:
        v.append(_V("intersect/dimension/" + where, "A=%r B=%r: result rows %r do not span a %d-dimensional space" % (A.tolist(), B.tolist(), R.tolist(), d)))
        return
    if not L.span_contained(A, R, RANK_RTOL):
        v.append(_V("intersect/not-in-self/" + where, "A=%r B=%r: result %r not contained in A" % (A.tolist(), B.tolist(), R.tolist())))
    if not L.span_contained(B, R, RANK_RTOL):
        v.append(_V("intersect/not-in-other/" + where, "A=%r B=%r: result %r not contained in B" % (A.tolist(), B.tolist(), R.tolist())))


@_quiet
def case_intersect(case):
    """one subspace A (k rows of the pool) against every transverse l-subset B of the pool:
    single calls, an elementwise batch, pairwise batches."""
    from geometry_tools import projective
    n, k, l = case["n"], case["k"], case["l"]
    pool = case["pool"]
    Arows = [pool[j] for j in case["A"]]
    if L.exact_rank(Arows) != k:
        return {"v": [], "t": 0, "o": "out-of-domain:dependent-spanning-set", "nt": False}
    Bsets = []
    for comb in itertools.combinations(range(len(pool)), l):
        Brows = [pool[j] for j in comb]
        # precondition: spanning sets are linearly independent and the pair is transverse (all exact)
        if L.exact_rank(Brows) == l and L.exact_rank(Arows + Brows) == n:
            Bsets.append(Brows)
    if not Bsets:
        return {"v": [], "t": 0, "o": "out-of-domain:no-transverse-partner", "nt": False}
    A = np.array(Arows, dtype=float)
    v, t = [], 0
    SA = projective.Subspace(A.copy())
    for Brows in Bsets:
        B = np.array(Brows, dtype=float)
        R = SA.intersect(projective.Subspace(B.copy())).proj_data
        t += 1
        _check_intersection(v, A, B, R, "single")
        if len(v) > 3:
            return {"v": v[:4], "t": t, "o": "violations", "nt": True}
    # other given as a bare ndarray
    R = SA.intersect(np.array(Bsets[0], dtype=float)).proj_data
    t += 1
    _check_intersection(v, A, np.array(Bsets[0], dtype=float), R, "ndarray-argument")
    # elementwise over a composite of shape (m,)
    m = len(Bsets)
    Bst = np.array(Bsets, dtype=float)
    Ast = np.tile(A, (m, 1, 1))
    R = projective.Subspace(Ast.copy()).intersect(projective.Subspace(Bst.copy()), broadcast="elementwise").proj_data
    t += 1
    if R.shape[:1] != (m,) or R.ndim != 3:
        v.append(_V("intersect/shape/elementwise", "composite shapes (%d,),(%d,): result %r" % (m, m, R.shape)))
    else:
        for j in range(m):
            _check_intersection(v, A, Bst[j], R[j], "elementwise")
            if v:
                break
    # pairwise: () x (m,), (m,) x () and (a,) x (b,) with every pair transverse
    R = SA.intersect(projective.Subspace(Bst.copy()), broadcast="pairwise").proj_data
    t += 1
    if R.shape[:1] != (m,) or R.ndim != 3:
        v.append(_V("intersect/shape/pairwise-0x1", "composite shapes (),(%d,): result %r" % (m, R.shape)))
    else:
        for j in range(m):
            _check_intersection(v, A, Bst[j], R[j], "pairwise-0x1")
            if v:
                break
    R = projective.Subspace(Bst.copy()).intersect(SA, broadcast="pairwise").proj_data
    t += 1
    if R.shape[:1] != (m,) or R.ndim != 3:
        v.append(_V("intersect/shape/pairwise-1x0", "composite shapes (%d,),(): result %r" % (m, R.shape)))
    else:
        for j in range(m):
            _check_intersection(v, Bst[j], A, R[j], "pairwise-1x0")
            if v:
                break
    Bsel = Bsets[:4]
    Asel = [Arows]
    for comb in itertools.combinations(range(len(pool)), k):
        cand = [pool[j] for j in comb]
        if cand != Arows and all(L.exact_rank(cand + Br) == n for Br in Bsel):
            Asel.append(cand)
        if len(Asel) == 3:
            break
    Aarr, Barr = np.array(Asel, dtype=float), np.array(Bsel, dtype=float)
    R = projective.Subspace(Aarr.copy()).intersect(projective.Subspace(Barr.copy()), broadcast="pairwise").proj_data
    t += 1
    if R.shape[:2] != (len(Asel), len(Bsel)) or R.ndim != 4:
        v.append(_V("intersect/shape/pairwise-1x1", "composite shapes (%d,),(%d,): result %r" % (len(Asel), len(Bsel), R.shape)))
    else:
        for a in range(len(Asel)):
            for b in range(len(Bsel)):
                if not v:
                    _check_intersection(v, Aarr[a], Barr[b], R[a, b], "pairwise-1x1")
    return {"v": v[:4], "t": t, "o": repr((n, k, l, case["A"], m, len(Asel))), "nt": True}


def _gauss_rank(rows):
    """exact rank over the Gaussian rationals of rows given as [[re, im], ...] lists: half the exact real rank of
    the realification [[Re, -Im], [Im, Re]]."""
    re = [[z[0] for z in r] for r in rows]
    im = [[z[1] for z in r] for r in rows]
    top = [a + [-x for x in b] for a, b in zip(re, im)]
    bot = [b + a for a, b in zip(re, im)]
    return L.exact_rank(top + bot) // 2


def complex_pool(n):
    """standard basis + Vandermonde rows with Gaussian-integer nodes, entries as [re, im]."""
    pool = [[[1 if a == b else 0, 0] for b in range(n)] for a in range(n)]
    for node in (complex(1, 1), complex(0, -1), complex(2, -1)):
        row, z = [], 1 + 0j
        for b in range(n):
            row.append([int(round(z.real)), int(round(z.imag))])
            z = z * node
        pool.append(row)
    return pool


@_quiet
def case_intersect_complex(case):
    """Subspaces of C^n spanned by Gaussian-integer rows: A against every transverse l-subset of the pool."""
    from geometry_tools import projective
    n, k, l = case["n"], case["k"], case["l"]
    pool = case["pool"]
    cx = lambda rows: np.array([[complex(z[0], z[1]) for z in r] for r in rows])
    Arows = [pool[j] for j in case["A"]]
    if _gauss_rank(Arows) != k or not any(z[1] for r in Arows for z in r):
        return {"v": [], "t": 0, "o": "out-of-domain:dependent-or-real", "nt": False}
    A = cx(Arows)
    v, t = [], 0
    for comb in itertools.combinations(range(len(pool)), l):
        Brows = [pool[j] for j in comb]
        if _gauss_rank(Brows) != l or _gauss_rank(Arows + Brows) != n:
            continue
        B = cx(Brows)
        R = np.asarray(projective.Subspace(A.copy()).intersect(projective.Subspace(B.copy())).proj_data)
        t += 1
        _check_intersection(v, A, B, R, "complex")
        if len(v) > 3:
            break
    return {"v": v[:4], "t": t, "o": repr((n, k, l, case["A"], t)), "nt": t > 0}


# composites of rank >= 2: (composite shape of self, composite shape of other)
PAIRWISE_SHAPES = [[[2, 2], [2]], [[2, 3], [3]], [[2], [2, 2]], [[3], [2, 3]], [[2, 2], [2, 2]], [[3, 2], [2, 2]], [[2, 2], []], [[], [2, 3]],
                   [[2, 1, 2], [2]], [[2], [2, 1, 2]], [[1, 2], [3]], [[2, 2], [1]]]
ELEMENTWISE_SHAPES = [[2, 2], [2, 3], [3, 2], [1, 2], [3, 1], [2, 1, 2]]


def _independent_subsets(pool, k, off):
    out = [list(c) for c in itertools.combinations(range(len(pool)), k) if L.exact_rank([pool[j] for j in c]) == k]
    off = off % len(out) if out else 0
    return out[off:] + out[:off]


@_quiet
def case_intersect_composite(case):
    """ONE intersect call on composites of rank >= 2 (self and/or other), pairwise or elementwise; every unit of the
    result is judged against its own pair: position [i..., j...] of a pairwise result belongs to (self[i...], other[j...]),
    position [i...] of an elementwise result to (self[i...], other[i...]).  The members of self are pairwise different
    k-subsets of the pool, those of other pairwise different l-subsets; every pair that meets is transverse (exact)."""
    from geometry_tools import projective
    n, k, l, pool, mode, off = case["n"], case["k"], case["l"], case["pool"], case["mode"], case["off"]
    sa, sb = tuple(case["sa"]), tuple(case["sb"])
    NA, NB = int(np.prod(sa, dtype=int)), int(np.prod(sb, dtype=int))
    CA, CB = _independent_subsets(pool, k, off), _independent_subsets(pool, l, 2 * off + 1)
    rows = lambda c: [pool[j] for j in c]
    As, Bs = [], []
    if mode == "pairwise":
        for cb in CB:
            if len(Bs) < NB:
                Bs.append(cb)
        for ca in CA:
            if len(As) < NA and all(L.exact_rank(rows(ca) + rows(cb)) == n for cb in Bs):
                As.append(ca)
    else:
        for ca in CA:
            if len(As) == NA:
                break
            for cb in CB:
                if cb not in Bs and L.exact_rank(rows(ca) + rows(cb)) == n:
                    As.append(ca)
                    Bs.append(cb)
                    break
    if len(As) < NA or len(Bs) < NB:
        return {"v": [], "t": 0, "o": "out-of-domain:pool-too-small", "nt": False}
    A = np.array([rows(c) for c in As], dtype=float).reshape(sa + (k, n))
    B = np.array([rows(c) for c in Bs], dtype=float).reshape(sb + (l, n))
    R = np.asarray(projective.Subspace(A.copy()).intersect(projective.Subspace(B.copy()), broadcast=mode).proj_data)
    where = "%s-rank%dx%d" % (mode, len(sa), len(sb))
    want = (sa + sb if mode == "pairwise" else sa) + (k + l - n, n)
    v = []
    if R.shape != want:
        v.append(_V("intersect/shape/" + where, "composite shapes %r, %r, dims (%d,%d) in R^%d: result shape %r, expected %r" % (sa, sb, k, l, n, R.shape, want)))
        return {"v": v, "t": 1, "o": "shape", "nt": True}
    for i in np.ndindex(*sa):
        for j in (np.ndindex(*sb) if mode == "pairwise" else [i]):
            vv = []
            _check_intersection(vv, A[i], B[j], R[i + j] if mode == "pairwise" else R[i], where)
            for x in vv:
                x["msg"] = "composite shapes %r %s %r, unit %r of the result must be self%r meet other%r: %s" % (
                    sa, mode, sb, list(i + j) if mode == "pairwise" else list(i), list(i), list(j), x["msg"])
            v += vv
            if len(v) > 3:
                break
        if len(v) > 3:
            break
    return {"v": v[:4], "t": 1, "o": repr((n, k, l, mode, sa, sb, len(v))), "nt": True}


# ------------------------------------------------------------------------------------------
# eigenvector / diagonalize
# ------------------------------------------------------------------------------------------
def _conj_matrix(n, qi, D):
    Q = L.unimodular_family(n)[qi]
    Qi = L.unimodular_inverse(Q)
    Dm = [[D[a] if a == b else 0 for b in range(n)] for a in range(n)]
    return np.array(L.imatmul(Qi, L.imatmul(Dm, Q)), dtype=float), np.array(Q, dtype=float)


def _check_eigvec(v, M, Q, D, lam, vec, where):
    if vec.shape != (M.shape[0],) or not np.all(np.isfinite(vec)) or float(np.max(np.abs(vec))) < 1e-6:
        v.append(_V("eigenvector/degenerate/" + where, "eigenvalues %r lambda=%r: returned %r" % (D, lam, vec.tolist() if vec.ndim == 1 else vec.shape)))
        return
    u = vec / np.max(np.abs(vec))
    e = float(np.max(np.abs(u @ M - lam * u)))
    if not e <= 1e-9 * (1.0 + float(np.max(np.abs(M)))):
        v.append(_V("eigenvector/not-an-eigenvector/" + where, "eigenvalues %r lambda=%r: |v M - lambda v| = %.3g for v=%r" % (D, lam, e, u.tolist())))


@_quiet
def case_eigen(case):
    from geometry_tools import projective
    n, qi, D = case["n"], case["conj"], case["D"]
    M, Q = _conj_matrix(n, qi, D)
    v, t = [], 0
    objs = [("rows", projective.Transformation(M.copy())),
            ("columns", projective.Transformation(M.T.copy(), column_vectors=True))]
    for oname, T in objs:
        for lam in sorted(set(D)):
            P = T.eigenvector(float(lam))
            t += 1
            vec = np.asarray(P.proj_data)
            _check_eigvec(v, M, Q, D, lam, vec, oname)
            if not v:
                img = (T @ P).proj_data
                t += 1
                e = _maxerr(img, lam * vec)
                if not e <= 1e-9 * (1.0 + float(np.max(np.abs(M)))) * float(np.max(np.abs(vec))):
                    v.append(_V("eigenvector/image/" + oname, "eigenvalues %r lambda=%r: T @ P differs from lambda*P by %.3g" % (D, lam, e)))
        for lam in case.get("absent", []):
            # not an eigenvalue: GeometryError, or the documented degenerate (zero) coordinates; never a
            # non-zero vector (it cannot be mapped to lam times itself)
            raised, P = _raises_geometry_error(lambda: T.eigenvector(float(lam)))
            t += 1
            if not raised:
                vec = np.asarray(P.proj_data)
                if vec.shape != (n,) or not float(np.max(np.abs(vec))) <= 1e-12:
                    v.append(_V("eigenvector/reported-for-absent-eigenvalue/" + oname, "eigenvalues %r conj %d, lambda=%r is not an eigenvalue: returned %r"
                                % (D, qi, lam, vec.tolist())))
        P = T.eigenvector()
        t += 1
        vec = np.asarray(P.proj_data)
        if vec.shape != (n,) or float(np.max(np.abs(vec))) < 1e-6:
            v.append(_V("eigenvector/degenerate/any/" + oname, "eigenvalues %r: eigenvector() returned %r" % (D, vec.tolist())))
        else:
            u = vec / np.max(np.abs(vec))
            mu = float((u @ M) @ u / (u @ u))
            if not (float(np.max(np.abs(u @ M - mu * u))) <= 1e-9 * (1.0 + float(np.max(np.abs(M)))) and min(abs(mu - d) for d in D) <= 1e-8):
                v.append(_V("eigenvector/not-an-eigenvector/any/" + oname, "eigenvalues %r: eigenvector() = %r" % (D, u.tolist())))
        for return_inv in (False, True):
            r = T.diagonalize(return_inv=return_inv)
            t += 1
            if return_inv:
                C, Ci = r
                e = _maxerr(C.matrix @ Ci.matrix, np.eye(n))
                if not e <= 1e-9 * np.linalg.cond(C.matrix):
                    v.append(_V("diagonalize/inverse/" + oname, "eigenvalues %r: |C Cinv - 1| = %.3g" % (D, e)))
            else:
                C = r
            Dg = (C.inv() @ T @ C).matrix
            t += 3
            off = float(np.max(np.abs(Dg - np.diag(np.diag(Dg))))) if Dg.shape == (n, n) else float("inf")
            dd = sorted(np.real(np.diag(Dg)).tolist()) if Dg.shape == (n, n) else []
            if not (off <= 1e-9 * (1.0 + float(np.max(np.abs(M)))) and _maxerr(np.array(dd), np.array(sorted(float(x) for x in D))) <= 1e-8):
                v.append(_V("diagonalize/not-diagonal/" + oname, "eigenvalues %r conj %d: C T C^-1 has off-diagonal %.3g, diagonal %r" % (D, qi, off, dd)))
        if v:
            break
    return {"v": v[:4], "t": t, "o": repr((n, qi, D)), "nt": len(set(D)) > 1 or qi > 0}


def _check_any_eigvec(v, M, D, vec, where):
    if vec.shape != (M.shape[0],) or not np.all(np.isfinite(vec)) or float(np.max(np.abs(vec))) < 1e-6:
        v.append(_V("eigenvector/degenerate/any/" + where, "eigenvalues %r: eigenvector() returned %r" % (D, vec.tolist() if vec.ndim == 1 else vec.shape)))
        return
    u = vec / np.max(np.abs(vec))
    mu = float((u @ M) @ u / (u @ u))
    if not (float(np.max(np.abs(u @ M - mu * u))) <= 1e-9 * (1.0 + float(np.max(np.abs(M)))) and min(abs(mu - d) for d in D) <= 1e-8):
        v.append(_V("eigenvector/not-an-eigenvector/any/" + where, "eigenvalues %r: eigenvector() = %r" % (D, u.tolist())))


@_quiet
def case_eigen_batch(case):
    """composite transformation, eigenvector(lambda) / eigenvector() / diagonalize member by member.
    A member has the eigenvalue lambda exactly when lambda occurs in its D (the matrix is Q^-1 D Q with
    integer unimodular Q): then a non-zero vector with v M = lambda v is required; otherwise the
    reported coordinates must be the documented degenerate ones (zero) - a non-zero vector could not be
    mapped to lambda times itself."""
    from geometry_tools import projective
    n, lam = case["n"], case["lam"]
    members = case["members"]                  # list of [conj index, D]
    mats = [_conj_matrix(n, qi, D)[0] for qi, D in members]
    shape = tuple(case["shape"])
    cnt = int(np.prod(shape))
    idx = [j % len(mats) for j in range(cnt)]
    arr = np.stack([mats[j] for j in idx]).reshape(shape + (n, n))
    has = [lam in members[idx[j]][1] for j in range(cnt)]
    mixed = not all(has)
    v, t = [], 0
    objs = [("batch", projective.Transformation(arr.copy()))]
    if mixed or case.get("columns"):
        objs.append(("batch-columns", projective.Transformation(np.swapaxes(arr, -1, -2).copy(), column_vectors=True)))
    for oname, T in objs:
        P = T.eigenvector(float(lam))
        t += 1
        vec = np.asarray(P.proj_data)
        if vec.shape != shape + (n,):
            v.append(_V("eigenvector/shape/" + oname, "composite shape %r: eigenvector data shape %r" % (shape, vec.shape)))
        else:
            vf = vec.reshape((cnt, n))
            for j in range(cnt):
                qi, D = members[idx[j]]
                if has[j]:
                    _check_eigvec(v, mats[idx[j]], None, D, lam, vf[j], oname)
                elif not (np.all(np.isfinite(vf[j])) and float(np.max(np.abs(vf[j]))) <= 1e-12):
                    v.append(_V("eigenvector/reported-for-absent-eigenvalue/" + oname,
                                "composite shape %r, member %d (eigenvalues %r conj %d; members having lambda=%r: %r): returned %r"
                                % (shape, j, D, qi, lam, has, vf[j].tolist())))
                if v:
                    break
        if mixed:
            P = T.eigenvector()
            t += 1
            vec = np.asarray(P.proj_data)
            if vec.shape != shape + (n,):
                v.append(_V("eigenvector/shape/any/" + oname, "composite shape %r: eigenvector() data shape %r" % (shape, vec.shape)))
            else:
                vf = vec.reshape((cnt, n))
                for j in range(cnt):
                    if not v:
                        _check_any_eigvec(v, mats[idx[j]], members[idx[j]][1], vf[j], oname)
    T = objs[0][1]
    C = T.diagonalize()
    Dg = (C.inv() @ T @ C).matrix
    t += 4
    if Dg.shape != shape + (n, n):
        v.append(_V("diagonalize/shape/batch", "composite shape %r: %r" % (shape, Dg.shape)))
    else:
        Df = Dg.reshape((cnt, n, n))
        for j in range(cnt):
            qi, D = members[idx[j]]
            off = float(np.max(np.abs(Df[j] - np.diag(np.diag(Df[j])))))
            dd = sorted(np.real(np.diag(Df[j])).tolist())
            if not (off <= 1e-9 * (1.0 + float(np.max(np.abs(mats[idx[j]])))) and _maxerr(np.array(dd), np.array(sorted(float(x) for x in D))) <= 1e-8):
                v.append(_V("diagonalize/not-diagonal/batch", "member %r of composite %r: off-diagonal %.3g diagonal %r" % (members[idx[j]], shape, off, dd)))
                break
    return {"v": v[:4], "t": t, "o": repr((n, lam, shape, members, has)), "nt": True}


ROT_ANGLES = [0.3, 1.1, 2.0, -0.7, 2.9]


def _rot_member(n, qi, ai):
    """Q^-1 R Q with R a rotation by ROT_ANGLES[ai] in the first two coordinates (identity elsewhere) and
    Q from the integer unimodular family: a REAL matrix whose eigenvalues are e^{+-i theta} and 1 (n - 2 times)."""
    Q = np.array(L.unimodular_family(n)[qi % len(L.unimodular_family(n))], dtype=float)
    Qi = np.array(L.unimodular_inverse(L.unimodular_family(n)[qi % len(L.unimodular_family(n))]), dtype=float)
    th = ROT_ANGLES[ai % len(ROT_ANGLES)]
    R = np.identity(n)
    R[:2, :2] = [[np.cos(th), -np.sin(th)], [np.sin(th), np.cos(th)]]
    return Qi @ R @ Q, th


@_quiet
def case_eigen_rotation(case):
    """Real transformations with non-real eigenvalues, single and composite: every vector reported by
    eigenvector() - real or complex - must be mapped to a multiple of itself; eigenvector(1.0) (n >= 3)
    must be fixed."""
    from geometry_tools import projective
    n, shape = case["n"], tuple(case["shape"])
    cnt = int(np.prod(shape)) if shape else 1
    mem = [_rot_member(n, case["q0"] + j, case["a0"] + 2 * j) for j in range(cnt)]
    arr = np.stack([m[0] for m in mem]).reshape(shape + (n, n))
    v, t = [], 0
    for oname, T in (("rows", projective.Transformation(arr.copy())),
                     ("columns", projective.Transformation(np.swapaxes(arr, -1, -2).copy(), column_vectors=True))):
        for lam in ([None] if n == 2 else [None, 1.0]):
            vec = np.asarray((T.eigenvector() if lam is None else T.eigenvector(lam)).proj_data)
            t += 1
            where = "%s/%s/%s" % ("any" if lam is None else "lambda=1", oname, "single" if not shape else "composite")
            if vec.shape != shape + (n,):
                v.append(_V("eigenvector/rotation/shape/" + where, "composite shape %r: data shape %r" % (shape, vec.shape)))
                continue
            vf = vec.reshape((cnt, n))
            for j in range(cnt):
                M, th = mem[j]
                u = vf[j]
                if not np.all(np.isfinite(u)) or float(np.max(np.abs(u))) < 1e-6:
                    v.append(_V("eigenvector/rotation/degenerate/" + where, "member %d (angle %r): returned %r" % (j, th, u.tolist())))
                    break
                u = u / np.max(np.abs(u))
                img = u @ M
                mu = complex((img @ np.conj(u)) / (u @ np.conj(u)))
                res = float(np.max(np.abs(img - mu * u)))
                ok_mu = min(abs(mu - e) for e in (np.exp(1j * th), np.exp(-1j * th), 1.0)) <= 1e-8 if lam is None else abs(mu - 1.0) <= 1e-8
                if not (res <= 1e-9 * (1.0 + float(np.max(np.abs(M)))) and ok_mu):
                    v.append(_V("eigenvector/rotation/not-an-eigenvector/" + where,
                                "member %d (rotation by %r conjugated by unimodular #%d) of composite %r: v = %r, v M - mu v = %.3g (mu = %r)"
                                % (j, th, case["q0"] + j, shape, u.tolist(), res, mu)))
                    break
    return {"v": v[:4], "t": t, "o": repr((n, shape, case["q0"], case["a0"])), "nt": True}


SPIRAL_SCALES = [1.0, 2.0, 0.5]


def _spiral_member(n, qi, ai, si, p, has, flip):
    """Q^-1 B Q, B block diagonal: s R(+-theta) in coordinates (p, p+1) - eigenvalues s e^{+-i theta} - and REAL
    eigenvalues on the other n - 2 diagonal places chosen to collide with the complex pair in real part (s cos theta),
    in modulus (s) and in minus the real part; has=False leaves s cos theta out.  Returns (matrix, real eigenvalues)."""
    fam = L.unimodular_family(n)
    Q = np.array(fam[qi % len(fam)], dtype=float)
    Qi = np.array(L.unimodular_inverse(fam[qi % len(fam)]), dtype=float)
    th = ROT_ANGLES[ai % len(ROT_ANGLES)] * (-1.0 if flip else 1.0)
    s = SPIRAL_SCALES[si % len(SPIRAL_SCALES)]
    c = float(s * np.cos(th))
    extras = ([c, s, -c] if has else [s, -c, 2.0 * c])[:n - 2]
    B = np.zeros((n, n))
    B[p:p + 2, p:p + 2] = [[c, -s * np.sin(th)], [s * np.sin(th), c]]
    rest = [k for k in range(n) if k not in (p, p + 1)]
    for k, e in zip(rest, extras):
        B[k, k] = e
    return Qi @ B @ Q, extras, c


@_quiet
def case_eigen_spiral(case):
    """Real transformations with a complex eigenvalue pair s e^{+-i theta} AND real eigenvalues that agree with the pair
    in real part / modulus: eigenvector(lambda) for every real eigenvalue lambda must return v with v M = lambda v;
    eigenvector(s cos theta) on a member WITHOUT that real eigenvalue must raise GeometryError (single) or report zero
    coordinates - the real part of a non-real eigenvalue is not an eigenvalue."""
    from geometry_tools import projective
    n, shape = case["n"], tuple(case["shape"])
    cnt = int(np.prod(shape)) if shape else 1
    pattern = case["has"]                       # per member
    mem = [_spiral_member(n, case["q0"] + j, case["a0"], case["s"], (case["p"] + j) % (n - 1), pattern[j % len(pattern)], j % 2 == 1)
           for j in range(cnt)]
    arr = np.stack([m[0] for m in mem]).reshape(shape + (n, n))
    c = mem[0][2]
    queries = [c] + [e for e in mem[0][1] if e != c and all(e in m[1] for m in mem)]
    v, t = [], 0
    for oname, T in (("rows", projective.Transformation(arr.copy())),
                     ("columns", projective.Transformation(np.swapaxes(arr, -1, -2).copy(), column_vectors=True))):
        for lam in queries:
            kind = "real-part-of-complex-pair" if lam == c else "other-real-eigenvalue"
            where = "%s/%s/%s" % (kind, oname, "single" if not shape else "composite")
            present = [lam in m[1] for m in mem]
            if not shape and not present[0]:
                raised, P = _raises_geometry_error(lambda: T.eigenvector(float(lam)))
                t += 1
                if raised:
                    continue
            else:
                P = T.eigenvector(float(lam))
                t += 1
            vec = np.asarray(P.proj_data)
            if vec.shape != shape + (n,):
                v.append(_V("eigenvector/spiral/shape/" + where, "composite shape %r: data shape %r" % (shape, vec.shape)))
                continue
            vf = vec.reshape((cnt, n))
            for j in range(cnt):
                M = mem[j][0]
                u = vf[j]
                if not present[j]:
                    if not (np.all(np.isfinite(u)) and float(np.max(np.abs(u))) <= 1e-12):
                        v.append(_V("eigenvector/spiral/reported-for-absent-eigenvalue/" + where,
                                    "member %d of %r (n=%d, complex pair %r e^(+-i %r), real eigenvalues %r, conj %d): lambda=%r is not an eigenvalue, returned %r"
                                    % (j, shape, n, SPIRAL_SCALES[case["s"]], ROT_ANGLES[case["a0"]], mem[j][1], case["q0"] + j, lam, u.tolist())))
                        break
                    continue
                if not np.all(np.isfinite(u)) or float(np.max(np.abs(u))) < 1e-6:
                    v.append(_V("eigenvector/spiral/degenerate/" + where, "member %d: lambda=%r is an eigenvalue (real eigenvalues %r), returned %r" % (j, lam, mem[j][1], u.tolist())))
                    break
                u = u / np.max(np.abs(u))
                res = float(np.max(np.abs(u @ M - lam * u)))
                if not res <= 1e-9 * (1.0 + float(np.max(np.abs(M)))):
                    v.append(_V("eigenvector/spiral/not-an-eigenvector/" + where,
                                "member %d of %r (n=%d, complex pair %r e^(+-i %r) at coordinates %d,%d, real eigenvalues %r, conj %d): eigenvector(%r) = %r, |v M - lambda v| = %.3g"
                                % (j, shape, n, SPIRAL_SCALES[case["s"]], ROT_ANGLES[case["a0"]], (case["p"] + j) % (n - 1), (case["p"] + j) % (n - 1) + 1,
                                   mem[j][1], case["q0"] + j, lam, u.tolist(), res)))
                    break
    return {"v": v[:4], "t": t, "o": repr((n, shape, case["q0"], case["a0"], case["s"], case["p"], pattern)), "nt": True}


def spiral_cases():
    out = []
    for n in (2, 3, 4, 5):
        nq = len(L.unimodular_family(n))
        for sh in ([], [2], [3]):
            cnt = int(np.prod(sh)) if sh else 1
            pats = [[True], [False]] if cnt == 1 else [[True], [True, False], [False, True], [False]]
            for pat in pats:
                if n == 2 and any(pat):
                    continue                   # no room for a real eigenvalue
                for q0 in range(nq):
                    for a0 in range(len(ROT_ANGLES)):
                        for s in range(len(SPIRAL_SCALES)):
                            for p in sorted({0, n - 2}):
                                out.append({"n": n, "shape": sh, "q0": q0, "a0": a0, "s": s, "p": p, "has": pat})
    return out


# ------------------------------------------------------------------------------------------
# histories of one Transformation object: eigen-data answer for the CURRENT matrix (mc/diffhist.py)
# ------------------------------------------------------------------------------------------
H_VALS = [1, 2, -1, 3, -2, 4]
H_QUERIES = ["q-diag", "q-diaginv", "q-eigvec-lam", "q-eigvec", "q-inv"]
H_MUTS = ["setitem-0", "setitem-last", "setitem-all", "set", "apply-left", "apply-right", "reshape", "index-0", "astype"]
H_TOL = 1e-7


def _h_member(n, j, seed):
    """j-th member of the exact alphabet: [conjugator index, U] with U = diag(n distinct integers)"""
    nq = len(L.unimodular_family(n))
    D = [H_VALS[(j + a) % len(H_VALS)] for a in range(n)]
    return [(j + seed) % nq, [[D[a] if a == b else 0 for b in range(n)] for a in range(n)]]


def _h_conj(n, qi, U):
    """exact integer matrix Q^-1 U Q"""
    Q = L.unimodular_family(n)[qi]
    return L.imatmul(L.unimodular_inverse(Q), L.imatmul(U, Q))


def _h_shear(n):
    """W = 1 + superdiagonal: U W and W U are upper triangular with the diagonal of U (same distinct
    eigenvalues) but other eigenvectors, and do not commute with U"""
    return [[1 if (a == b or b == a + 1) else 0 for b in range(n)] for a in range(n)]


def _h_array(n, members, shape, what="matrix"):
    mats = [_h_conj(n, qi, U if what == "matrix" else _h_shear(n)) for qi, U in members]
    return np.array(mats, dtype=float).reshape(tuple(shape) + (n, n))


def h_shape_after(shape, op):
    """composite shape after a mutating op, or None when the op is not enabled for this shape"""
    shape = tuple(shape)
    cnt = int(np.prod(shape)) if shape else 1
    if op == "setitem-0":
        return shape if len(shape) >= 1 else None
    if op == "setitem-last":
        return shape if (len(shape) >= 1 and cnt > 1) else None
    if op == "index-0":
        return shape[1:] if len(shape) >= 1 else None
    if op == "reshape":
        return shape + (1,) if len(shape) < 2 else (cnt,)
    return shape


def _h_queries(T, A, members, n, lam):
    """every query on T judged through its defining equation on the current matrices A (row convention:
    proj_data acts on row vectors, v A = lam v).  Returns {query: (defect message or None, raw result)}."""
    from geometry_tools.base import GeometryError
    shape = A.shape[:-2]
    cnt = int(np.prod(shape)) if shape else 1
    Af = A.reshape((cnt, n, n))
    scale = 1.0 + float(np.max(np.abs(A)))
    eye = np.eye(n)
    out = {}

    def frame_defect(Cm, Cim):
        if Cm.shape != A.shape or (Cim is not None and Cim.shape != A.shape):
            return "frame of shape %r for a transformation of shape %r" % (Cm.shape, A.shape)
        Cf = Cm.reshape((cnt, n, n))
        for j in range(cnt):
            if not np.all(np.isfinite(Cf[j])) or np.linalg.cond(Cf[j]) > 1e8:
                return "member %d: frame %r is singular" % (j, Cf[j].tolist())
            Ci = np.linalg.inv(Cf[j]) if Cim is None else Cim.reshape((cnt, n, n))[j]
            if Cim is not None and not float(np.max(np.abs(Cf[j] @ Ci - eye))) <= H_TOL * np.linalg.cond(Cf[j]):
                return "member %d: the returned inverse is not the inverse of the returned frame" % j
            Dg = Cf[j] @ Af[j] @ Ci
            off = float(np.max(np.abs(Dg - np.diag(np.diag(Dg)))))
            dd = sorted(np.real(np.diag(Dg)).tolist())
            want = sorted(float(members[j][1][a][a]) for a in range(n))
            if not (off <= H_TOL * scale * np.linalg.cond(Cf[j]) and _maxerr(np.array(dd), np.array(want)) <= 1e-6 * scale):
                return ("member %d (eigenvalues %r): M^-1 T M for the reported frame has off-diagonal part %.3g, diagonal %r"
                        % (j, want, off, dd))
        return None

    C = T.diagonalize()
    out["diagonalize"] = (frame_defect(np.asarray(C.matrix), None), None)
    r = T.diagonalize(return_inv=True)
    if not (isinstance(r, tuple) and len(r) == 2):
        out["diagonalize-return_inv"] = ("returned %r" % (type(r),), None)
    else:
        out["diagonalize-return_inv"] = (frame_defect(np.asarray(r[0].matrix), np.asarray(r[1].matrix)), None)

    has = [any(members[j][1][a][a] == lam for a in range(n)) for j in range(cnt)]
    try:
        P = T.eigenvector(float(lam))
    except GeometryError:
        P = None
    if P is None:
        out["eigenvector-lambda"] = (None if not any(has) else "GeometryError although %r is an eigenvalue" % lam, None)
    else:
        vec = np.asarray(P.proj_data)
        msg = None
        if vec.shape != shape + (n,):
            msg = "eigenvector data of shape %r for a transformation of shape %r" % (vec.shape, shape)
        else:
            vf = vec.reshape((cnt, n))
            for j in range(cnt):
                mx = float(np.max(np.abs(vf[j]))) if np.all(np.isfinite(vf[j])) else float("inf")
                if has[j]:
                    u = vf[j] / (mx if 0 < mx < float("inf") else 1.0)
                    e = float(np.max(np.abs(u @ Af[j] - lam * u))) if 1e-6 <= mx < float("inf") else float("inf")
                    if not e <= H_TOL * scale:
                        msg = "member %d: |v T - lambda v| = %.3g for lambda=%r, v=%r" % (j, e, lam, vf[j].tolist())
                elif not mx <= 1e-12:
                    msg = "member %d does not have the eigenvalue %r but got the coordinates %r" % (j, lam, vf[j].tolist())
                if msg:
                    break
        out["eigenvector-lambda"] = (msg, P)

    P = T.eigenvector()
    vec = np.asarray(P.proj_data)
    msg = None
    if vec.shape != shape + (n,):
        msg = "eigenvector() data of shape %r for a transformation of shape %r" % (vec.shape, shape)
    else:
        vf = vec.reshape((cnt, n))
        for j in range(cnt):
            mx = float(np.max(np.abs(vf[j]))) if np.all(np.isfinite(vf[j])) else float("inf")
            if not 1e-6 <= mx < float("inf"):
                msg = "member %d: eigenvector() returned %r" % (j, vf[j].tolist())
                break
            u = vf[j] / mx
            e = min(float(np.max(np.abs(u @ Af[j] - members[j][1][a][a] * u))) for a in range(n))
            if not e <= H_TOL * scale:
                msg = "member %d: eigenvector() = %r is not an eigenvector (best |v T - mu v| = %.3g)" % (j, u.tolist(), e)
                break
    out["eigenvector-any"] = (msg, None)

    Ti = T.inv()
    Im = np.asarray(Ti.matrix)
    if Im.shape != A.shape:
        out["inv"] = ("inverse of shape %r" % (Im.shape,), None)
    else:
        e = float(np.max(np.abs(Im.reshape((cnt, n, n)) @ Af - eye)))
        out["inv"] = (None if e <= H_TOL * scale else "|T^-1 T - 1| = %.3g" % e, Ti)
    return out


@_quiet
def case_history(case):
    """ops on one Transformation; afterwards every query must satisfy its defining equation for the CURRENT
    proj_data, exactly as on a fresh Transformation built from a copy of it."""
    from geometry_tools import projective
    from mc import diffhist
    n, shape, ops, seed = case["n"], tuple(case["shape"]), case["ops"], case["seed"]
    cnt = int(np.prod(shape)) if shape else 1
    members = [_h_member(n, j, seed) for j in range(cnt)]
    nxt = cnt                                    # index of the next unused alphabet member
    T = projective.Transformation(_h_array(n, members, shape))
    lam0 = members[0][1][0][0]
    t, last = 1, "construct"
    for op in ops:
        t += 1
        if op.startswith("q-"):
            if op == "q-diag":
                T.diagonalize()
            elif op == "q-diaginv":
                T.diagonalize(return_inv=True)
            elif op == "q-eigvec-lam":
                T.eigenvector(float(members[0][1][0][0]))
            elif op == "q-eigvec":
                T.eigenvector()
            elif op == "q-inv":
                T.inv()
            continue
        new_shape = h_shape_after(shape, op)
        if new_shape is None:
            return {"v": [], "t": t, "o": "n/a", "nt": False}
        if op in ("setitem-0", "setitem-last"):
            j = 0 if op == "setitem-0" else cnt - 1
            mem = _h_member(n, nxt, seed)
            nxt += 1
            T[tuple(int(x) for x in np.unravel_index(j, shape))] = projective.Transformation(_h_array(n, [mem], ()))
            members[j] = mem
        elif op in ("setitem-all", "set"):
            new = [_h_member(n, nxt + j, seed) for j in range(cnt)]
            nxt += cnt
            if op == "set":
                T.set(_h_array(n, new, shape))
            else:
                T[...] = projective.Transformation(_h_array(n, new, shape))
            members = new
        elif op in ("apply-left", "apply-right"):
            S = projective.Transformation(_h_array(n, members, shape, "shear"))
            W = _h_shear(n)
            if op == "apply-left":             # (S @ T).matrix = T.matrix S.matrix = Q^-1 U W Q
                T = S @ T
                members = [[qi, L.imatmul(U, W)] for qi, U in members]
            else:
                T = T @ S
                members = [[qi, L.imatmul(W, U)] for qi, U in members]
        elif op == "reshape":
            T = T.reshape(new_shape)
        elif op == "index-0":
            T = T[0]
            members = members[:int(np.prod(new_shape)) if new_shape else 1]
        elif op == "astype":
            T = T.astype(complex)
        shape = new_shape
        cnt = int(np.prod(shape)) if shape else 1
        last = op
    if type(T) is not projective.Transformation:
        return {"v": [_V("history/type", "after %r the object is a %s" % (ops, type(T).__name__))], "t": t, "o": "type", "nt": True}
    A = np.array(T.proj_data)
    model = _h_array(n, members, shape)
    if A.shape != model.shape or not np.array_equal(A, model):
        # the ops did not produce the matrices the model expects (item assignment / apply are other
        # properties' business): no eigen-data can be demanded from the model's spectrum
        return {"v": [], "t": t, "o": "model-mismatch|%s" % "-".join(ops), "nt": False}
    lam = members[0][1][0][0]
    fresh = projective.Transformation(A.copy())
    got = _h_queries(T, A, members, n, lam)
    want = _h_queries(fresh, A, members, n, lam)
    t += 12
    v = []
    for q in sorted(got):
        bad, res = got[q]
        fbad, fres = want[q]
        if bad is not None:
            v.append(_V("history/%s/after-%s%s" % (q, last, "" if fbad is None else "/fresh-object-fails-too"),
                        "n=%d shape %r after %r: %s%s" % (n, case["shape"], ops, bad,
                                                         "" if fbad is None else " (a fresh object with the same data: %s)" % fbad)))
        elif fbad is not None:
            v.append(_V("history/%s/fresh-object-only" % q, "n=%d shape %r after %r: fresh object with the final data: %s" % (n, case["shape"], ops, fbad)))
        elif res is not None and fres is not None:
            # determined up to projective scale (distinct eigenvalues): the differential oracle proper
            fa, fb = diffhist.flatten_result(res), diffhist.flatten_result(fres)
            if len(fa) == len(fb) == 1 and fa[0][1].shape == fb[0][1].shape:
                # documented degenerate (zero) coordinates of members without the eigenvalue are not projective
                # points: already judged above, replaced on both sides before the projective comparison
                xa, xb = np.array(fa[0][1]), np.array(fb[0][1])
                zero = (np.max(np.abs(xa), axis=-1) <= 1e-12) & (np.max(np.abs(xb), axis=-1) <= 1e-12)
                xa[zero] = 1.0
                xb[zero] = 1.0
                fa, fb = [(fa[0][0], xa)], [(fb[0][0], xb)]
            if not diffhist.same_result(fa, fb, q):
                v.append(_V("history/%s/differs-from-fresh-object/after-%s" % (q, last),
                            "n=%d shape %r after %r: %r, a fresh object with the same data gives %r"
                            % (n, case["shape"], ops, np.asarray(res.proj_data).tolist(), np.asarray(fres.proj_data).tolist())))
    return {"v": v[:4], "t": t, "o": "%d|%r|%s|%s" % (n, case["shape"], "-".join(ops), A.dtype), "nt": True}


def history_cases(ns, shapes, depth, seed):
    allops = H_QUERIES + H_MUTS
    seqs = [list(x) for d in range(2, depth + 1) for x in itertools.product(allops, repeat=d)
            if x[-1] in H_MUTS and any(o in H_QUERIES for o in x[:-1])]
    for n in ns:
        for shape in shapes:
            for ops in seqs:
                sh = tuple(shape)
                for op in ops:
                    if op in H_MUTS:
                        sh = h_shape_after(sh, op)
                        if sh is None:
                            break
                if sh is not None:
                    yield {"n": n, "shape": list(shape), "ops": ops, "seed": seed}


# ------------------------------------------------------------------------------------------
# enumeration
# ------------------------------------------------------------------------------------------
def _lam_list(field):
    ls = [[x, 0.0] for x in LAMBDAS_REAL]
    if field == "complex":
        ls += [[z.real, z.imag] for z in LAMBDAS_CPLX]
    return ls


def alphabet_size(field, N, quick):
    if quick:
        return {1: 6, 2: 6, 3: 5, 4: 3, 5: 3}[N] if field == "complex" else {1: 5, 2: 5, 3: 5, 4: 4, 5: 3}[N]
    return {1: 6, 2: 6, 3: 6, 4: 5, 5: 4}[N] if field == "complex" else 5


def roundtrip_cases(quick):
    for N in range(1, 6):
        for field in ("real", "complex"):
            size = alphabet_size(field, N, quick)
            for i in range(N + 1):
                for lam in _lam_list(field):
                    for layout in ("row", "column"):
                        for variant in ("rank1", "rank2"):
                            yield {"N": N, "i": i, "layout": layout, "field": field, "lam": lam, "size": size, "variant": variant}


def roundtrip_rank0_cases(quick):
    for N in range(1, 6):
        for field in ("real", "complex"):
            size = alphabet_size(field, N, quick)
            M = min(size, len(REAL_A if field == "real" else CPLX_A)) ** N
            lams = _lam_list(field)
            for i in range(N + 1):
                for index in range(M):
                    if N <= (3 if quick else 4):
                        for lam in lams:
                            yield {"N": N, "i": i, "layout": "row", "field": field, "lam": lam, "size": size, "variant": "rank0", "index": index}
                    else:
                        yield {"N": N, "i": i, "layout": "row", "field": field, "lam": lams[(index + i) % len(lams)], "size": size,
                               "variant": "rank0", "index": index}


def outside_cases(quick):
    for N in range(1, 6):
        for field in ("real", "complex"):
            if field == "real":
                size = 3 if (quick and N == 5) else 4
            elif quick:
                size = {1: 5, 2: 5, 3: 5, 4: 4, 5: 3}[N]       # size 3 = {0, 1, 2j}
            else:
                size = {1: 5, 2: 5, 3: 5, 4: 5, 5: 4}[N]
            for i in range(N + 1):
                yield {"N": N, "i": i, "field": field, "size": size}


def _blocks(lst, k):
    for a in range(0, len(lst), k):
        yield lst[a:a + k]


def run(ctx):
    q = ctx.quick
    seed = ctx.seed
    ctx.rule = ("projective dimension N = 1..5, every chart index, row/column layout, real and complex dyadic coordinate alphabets "
                "(complete products), real and complex rescalings; invertible integer linear maps / translations / normals from complete "
                "small alphabets, Gaussian-integer linear maps and complex translations on real and complex points; subspaces = spans of subsets of {standard basis + Vandermonde rows}, every transverse pair "
                "(exact rank test); conjugates Q^-1 D Q of integer diagonal matrices by unimodular Q, singly and in composites with equal or mixed spectra; a case is non-trivial when it is in the domain")
    ctx.assume("affine coordinates are dyadic Gaussian rationals, so (a, 1) and its conversions are exact in float64; rescaling by lambda "
               "costs at most a few ulp (tolerance 1e-12)")
    ctx.assume("a point is outside chart i exactly when its i-th homogeneous coordinate is exactly 0 (real or complex)")
    ctx.assume("column layout needs at least two array axes (a single column vector is a (N,1) array)")
    ctx.assume("Subspace.intersect: both spanning sets are linearly independent, the pair is transverse (stacked exact rank = N+1) and the "
               "expected dimension k + l - (N + 1) >= 0 in vector-space dimensions (k + l = N + 1: complementary subspaces, the intersection is the "
               "empty subspace, reported as a spanning set with 0 rows); composite operands contain transverse pairs only")
    ctx.assume("eigenvector / diagonalize: diagonalisable matrices with real integer eigenvalues (repeated eigenvalues allowed)")
    ctx.assume("eigenvector(lambda) for a lambda that is not an eigenvalue (decided exactly: lambda does not occur in D; all eigenvalues and "
               "requested values are >= 0.5 apart, far outside np.isclose): a single transformation may raise GeometryError or return zero "
               "coordinates, a member of a composite gets zero coordinates (documented 'degenerate'); a non-zero vector is a violation "
               "because it is not mapped to lambda times itself")
    ctx.assume("linear maps and translations may be complex (the property quantifies over real and complex coordinates and the embedding "
               "affine_linear_map keeps the dtype of its argument); normals of hyperplane_coordinate_transform stay real: its docstring "
               "documents a normal vector of a hyperplane in R^n and an orthogonal matrix")
    ctx.assume("hyperplane_coordinate_transform: 'takes the chart x.n != 0 to the chart x_0 != 0' with an orthogonal matrix, i.e. "
               "|x_0(image)| = |x.n|/|n| for every x")
    ctx.tolerances["charts"] = "exact for (a,1); 1e-12*(1+|a|) after rescaling"
    ctx.tolerances["affine maps"] = "1e-12*(1+|value|) (integer / dyadic data)"
    ctx.tolerances["orthogonality"] = "1e-10 (QR of integer vectors)"
    ctx.tolerances["rank"] = "relative singular value threshold 1e-8 on row-normalised stacks"
    ctx.tolerances["eigen"] = "1e-9*(1+|T|) (measured 2e-14 on the alphabet)"
    ctx.tolerances["eigen histories"] = ("1e-7*(1+|T|) (times cond(frame) for the frame); a stale eigenvector / frame belongs to a matrix with other "
                                         "eigenvectors and misses by >= 1e-2")
    ctx.assume("histories: every state is Q^-1 U Q with Q integer unimodular and U integer upper triangular with distinct diagonal (distinct "
               "integer eigenvalues, so eigenvectors are unique up to scale and the matrix is diagonalisable); a case whose final proj_data "
               "is not exactly the model's matrix is skipped (item assignment / composition are other properties)")

    ctx.product("charts-roundtrip", "checks.c16:case_chart_roundtrip", roundtrip_cases(q),
                domains={"N": "1..5", "charts": "0..N", "layouts": ["row", "column"], "fields": ["real", "complex"],
                         "lambdas": LAMBDAS_REAL + [repr(z) for z in LAMBDAS_CPLX], "composite ranks": [1, 2],
                         "alphabet sizes real": [alphabet_size("real", N, q) for N in range(1, 6)],
                         "alphabet sizes complex": [alphabet_size("complex", N, q) for N in range(1, 6)]}, chunk=16)
    ctx.product("charts-roundtrip-single-points", "checks.c16:case_chart_roundtrip", roundtrip_rank0_cases(q),
                domains={"note": "every vector of the alphabet as a rank-0 call; all lambdas for N <= %d, lambda cycling above" % (3 if q else 4)}, chunk=512)
    ctx.product("charts-outside", "checks.c16:case_chart_outside", outside_cases(q),
                domains={"homogeneous alphabets": {"real": REAL_H, "complex": [repr(z) for z in CPLX_H]},
                         "routes": ["affine_coords()", "Point.affine_coords()", "column layout", "in_affine_chart"]}, chunk=1)

    lin_cases, tr_cases, clin_cases, ctr_cases = [], [], [], []
    cmaps = {N: complex_linear_alphabet(N, q) for N in range(1, 6)}
    ctrs = {N: complex_translation_alphabet(N, q) for N in range(1, 6)}
    for N in range(1, 6):
        size = alphabet_size("real", N, q)
        maps = linear_alphabet(N, q)
        trs = translation_alphabet(N, q)
        for i in range(N + 1):
            for blk in _blocks(maps, 16):
                lin_cases.append({"N": N, "i": i, "maps": blk, "size": min(size, 4)})
            for blk in _blocks(trs, 64):
                tr_cases.append({"N": N, "i": i, "translations": blk, "size": min(size, 4)})
            # the same over the complex numbers: real maps on complex points, complex maps on real and
            # on complex points
            csize = min(alphabet_size("complex", N, q), 4 if N <= 3 else 3)
            for blk in _blocks(maps, 16):
                clin_cases.append({"N": N, "i": i, "maps": blk, "size": csize, "pfield": "complex"})
            for blk in _blocks(trs, 64):
                ctr_cases.append({"N": N, "i": i, "translations": blk, "size": csize, "pfield": "complex"})
            for pfield in ("real", "complex"):
                for blk in _blocks(cmaps[N], 16):
                    clin_cases.append({"N": N, "i": i, "maps": [_cjson(M) for M in blk], "size": csize, "pfield": pfield})
                for blk in _blocks(ctrs[N], 64):
                    ctr_cases.append({"N": N, "i": i, "translations": _cjson(blk), "size": csize, "pfield": pfield})
    ctx.product("affine_linear_map", "checks.c16:case_affine_linear", lin_cases,
                domains={"maps per N": [len(linear_alphabet(N, q)) for N in range(1, 6)], "column_vectors": [True, False, "default"],
                         "points": "complete alphabet product"}, chunk=4)
    ctx.product("affine_translation", "checks.c16:case_affine_translation", tr_cases,
                domains={"translations per N": [len(translation_alphabet(N, q)) for N in range(1, 6)]}, chunk=4)

    ctx.product("affine_linear_map-complex", "checks.c16:case_affine_linear", clin_cases,
                domains={"complex maps per N": [len(cmaps[N]) for N in range(1, 6)],
                         "complex maps": "N=1: units and non-units; N=2 (thorough: N=3): all invertible matrices over {0,1,-1,i,-i} ({0,1,i}) with a "
                                         "non-real entry; else elementary / diagonal / permutation matrices with +-i and D Q, Q D (Q integer unimodular, D = diag(i^k))",
                         "combinations": ["real map, complex points", "complex map, real points", "complex map, complex points"],
                         "column_vectors": [True, False, "default"], "points": "complete product of the complex alphabet (first 3-4 letters)"}, chunk=4)
    ctx.product("affine_translation-complex", "checks.c16:case_affine_translation", ctr_cases,
                domains={"complex translations per N": [len(ctrs[N]) for N in range(1, 6)],
                         "entries": "{0, i, -1+0.5i, 2} (quick N>=4: {0, i, 2}), complete product, handed over as a complex array",
                         "combinations": ["real translation, complex points", "complex translation, real points", "complex translation, complex points"]}, chunk=4)

    # one Point of every composite shape over {1,2,3}^(0..3) (length-1 axes included), both tiers the same bounds
    ctx.assume("affine maps on composite Points: a single (non-composite) Transformation applied to a Point of composite shape s acts "
               "member by member and the image has composite shape s (s ranges over every tuple over {1,2,3} of length 0..3)")
    comp_pt_cases = []
    for N in range(1, 6):
        for i in range(N + 1):
            for field in ("real", "complex"):
                size = min(alphabet_size(field, N, True), 4)
                for si, shape in enumerate(COMPOSITE_POINT_SHAPES):
                    comp_pt_cases.append({"N": N, "i": i, "field": field, "shape": shape, "size": size, "off": 1 + seed + 7 * si})
    ctx.product("affine-maps-composite-point-shapes", "checks.c16:case_affine_composite", comp_pt_cases,
                domains={"N": "1..5", "charts": "0..N", "fields": ["real", "complex"], "composite shapes": COMPOSITE_POINT_SHAPES,
                         "maps per N": "2-3 invertible integer / dyadic maps (non-symmetric for N >= 2) x {default, columns, rows} and 2 translations",
                         "members": "consecutive vectors of the complete alphabet product (first <= 4 letters), offset by seed and shape index"}, chunk=32)

    hp_cases = []
    for N in range(1, 6):
        ent = (-1, 0, 1, 2) if (N <= 3 or not q) else (-1, 0, 1)
        normals = [list(x) for x in itertools.product(ent, repeat=N + 1) if any(x)]
        for blk in _blocks(normals, 32):
            hp_cases.append({"N": N, "normals": blk})
    ctx.product("hyperplane_coordinate_transform", "checks.c16:case_hyperplane_transform", hp_cases,
                domains={"normals": "all non-zero vectors over {-1,0,1,2} (quick N>=4: {-1,0,1})", "points": "{-1,0,1}^(N+1) minus 0"}, chunk=4)

    int_cases = []
    for n in range(2, 7):
        extra = 2 if (n <= 4 or not q) else 1
        pool = subspace_pool(n, extra, seed)
        for k in range(1, n + 1):
            for l in range(1, n + 1):
                if k + l < n:
                    continue               # k + l = n: complementary subspaces, expected intersection empty (0 rows)
                for comb in itertools.combinations(range(len(pool)), k):
                    int_cases.append({"n": n, "k": k, "l": l, "pool": pool, "A": list(comb)})
    ctx.product("subspace-intersect", "checks.c16:case_intersect", int_cases,
                domains={"ambient vector dimension": "2..6", "pool": "standard basis + 1..2 Vandermonde rows (seed rotates the nodes)",
                         "pairs": "every k-subset x every transverse l-subset, k+l >= n (k+l = n: complementary, result has 0 rows)", "broadcast": ["single", "elementwise", "pairwise"]}, chunk=16)

    cx_cases = []
    for n in range(2, 6):
        pool = complex_pool(n)
        for k in range(1, n + 1):
            for l in range(1, n + 1):
                if k + l <= n:
                    continue
                for comb in itertools.combinations(range(len(pool)), k):
                    cx_cases.append({"n": n, "k": k, "l": l, "pool": pool, "A": list(comb)})
    ctx.product("subspace-intersect-complex", "checks.c16:case_intersect_complex", cx_cases,
                domains={"ambient vector dimension": "2..5", "pool": "standard basis + Vandermonde rows with nodes 1+i, -i, 2-i (Gaussian integers)",
                         "pairs": "every k-subset with a non-real row x every transverse l-subset, k + l > n (exact rank over Q(i))"}, chunk=16)

    comp_cases = []
    for n in range(2, 7):
        pool = subspace_pool(n, 2, seed)
        for k in range(1, n + 1):
            for l in range(1, n + 1):
                if k + l <= n:
                    continue               # complementary pairs (0 result rows) have no unit-by-unit content
                for off in (0, 3):
                    for sa, sb in PAIRWISE_SHAPES:
                        comp_cases.append({"n": n, "k": k, "l": l, "pool": pool, "mode": "pairwise", "sa": sa, "sb": sb, "off": off})
                    for sh in ELEMENTWISE_SHAPES:
                        comp_cases.append({"n": n, "k": k, "l": l, "pool": pool, "mode": "elementwise", "sa": sh, "sb": sh, "off": off})
    ctx.product("subspace-intersect-composite", "checks.c16:case_intersect_composite", comp_cases,
                domains={"ambient vector dimension": "2..6", "dims": "all (k, l) with k + l > n", "pool": "standard basis + 2 Vandermonde rows",
                         "pairwise (shape of self, shape of other)": PAIRWISE_SHAPES, "elementwise shapes (self = other)": ELEMENTWISE_SHAPES,
                         "members": "pairwise different k-subsets / l-subsets of the pool (two rotations of the subset list), every meeting pair transverse (exact rank)",
                         "demand": "result shape; unit [i..., j...] (pairwise) / [i...] (elementwise) lies in self[i...] and in other[j...] and has dimension k + l - n"}, chunk=32)
    ctx.assume("composite intersections: members of one composite are pairwise different subsets of the pool, so a result unit computed from the wrong pair is, "
               "in general, not contained in its own pair; combinations for which the pool has too few transverse subsets are skipped (outcome 'out-of-domain')")

    eig_cases, eig_batch = [], []
    vals = [1, 2, -1, 3]
    for n in range(2, 7):
        for qi in range(len(L.unimodular_family(n))):
            for D in itertools.product(vals, repeat=n):
                if n >= 5 and (q or n == 6) and list(D) != sorted(D):
                    continue               # large n: one ordering per multiset
                eig_cases.append({"n": n, "conj": qi, "D": list(D), "absent": [x for x in vals + [0, -2] if x not in D]})
        nq = len(L.unimodular_family(n))
        for lam in vals:
            others = [x for x in vals if x != lam]
            members = [[(j + seed) % nq, [lam] + [others[(j + a) % 3] for a in range(n - 1)]] for j in range(3)]
            members.append([(1 + seed) % nq, [others[a % 3] for a in range(n - 1)] + [lam]])
            for shape in [(1,), (2,), (3,), (2, 2), (3, 2), (1, 3)]:
                eig_batch.append({"n": n, "lam": lam, "members": members, "shape": list(shape)})
    # composite transformations with mixed spectra: every pattern of (member has lambda / does not)
    eig_mixed = []
    for n in range(2, 7):
        nq = len(L.unimodular_family(n))
        for lam in vals:
            others = [x for x in vals if x != lam]
            for shape in [(1,), (2,), (3,), (2, 2)]:
                cnt = int(np.prod(shape))
                for pattern in itertools.product((True, False), repeat=cnt):
                    if all(pattern):
                        continue               # covered by eigenvector-diagonalize-batch
                    members = []
                    for j, h in enumerate(pattern):
                        D = [others[(j + a) % 3] for a in range(n)]
                        if h:
                            D[(j + seed) % n] = lam
                            if n >= 3 and j % 2 == 1:
                                D[(j + seed + 1) % n] = lam          # multiplicity 2
                        members.append([(j + seed) % nq, D])
                    eig_mixed.append({"n": n, "lam": lam, "members": members, "shape": list(shape)})
    h_ns, h_shapes, h_depth = ([2, 3, 4], [[], [2], [3]], 3) if q else ([2, 3, 4, 5], [[], [2], [3], [2, 2]], 3)
    ctx.product("transformation-histories", "checks.c16:case_history", history_cases(h_ns, h_shapes, h_depth, seed),
                domains={"n": h_ns, "composite shapes": h_shapes, "alphabet": "Q^-1 D Q, D = n consecutive entries of %r (distinct), Q from the unimodular family" % H_VALS,
                         "queries": H_QUERIES, "mutations": "T[k] = S (first / last member), T[...] = S, T.set(data), S @ T and T @ S with S = Q^-1 (1 + superdiagonal) Q "
                                                            "(same eigenvalues, other eigenvectors, exact integer matrices), reshape, T[0], astype(complex)",
                         "sequences": "length 2..%d ending in a mutation with a query before it" % h_depth,
                         "oracle": "defining equations on the current proj_data (M^-1 T M diagonal with the model's eigenvalues, v T = lambda v, T^-1 T = 1), "
                                   "also required of a fresh Transformation built from a copy of the data; eigenvector(lambda) and inv() compared with the fresh "
                                   "object's up to projective scale (mc/diffhist.py)"}, chunk=32)
    rot_cases = [{"n": n, "shape": sh, "q0": q0, "a0": a0} for n in (2, 3, 4, 5) for sh in ([], [1], [2], [3], [2, 2])
                 for q0 in range(len(L.unimodular_family(n))) for a0 in range(len(ROT_ANGLES))]
    ctx.product("eigenvector-real-matrices-complex-spectrum", "checks.c16:case_eigen_rotation", rot_cases,
                domains={"n": [2, 3, 4, 5], "shapes": [[], [1], [2], [3], [2, 2]], "members": "Q^-1 R(theta) Q, theta in %r (consecutive members: every second angle), Q from the unimodular family" % ROT_ANGLES,
                         "calls": ["eigenvector()", "eigenvector(1.0) for n >= 3"], "layouts": ["row matrices", "column_vectors=True"],
                         "oracle": "v M = mu v with mu in {e^(i theta), e^(-i theta), 1} over the complex numbers"}, chunk=8)
    ctx.product("eigenvector-real-eigenvalue-beside-complex-pair", "checks.c16:case_eigen_spiral", spiral_cases(),
                domains={"n": [2, 3, 4, 5], "shapes": [[], [2], [3]],
                         "members": "Q^-1 diag-block(s R(+-theta), real eigenvalues) Q: s in %r, theta in %r, block at the first or last coordinate pair (moves with the member), "
                                    "real eigenvalues from (s cos theta, s, -s cos theta) - or (s, -s cos theta, 2 s cos theta) for members WITHOUT s cos theta -, Q from the unimodular family" % (SPIRAL_SCALES, ROT_ANGLES),
                         "patterns": "all members have the real eigenvalue s cos theta / none / alternating",
                         "calls": ["eigenvector(s cos theta)", "eigenvector(every other real eigenvalue common to the members)"], "layouts": ["row matrices", "column_vectors=True"],
                         "oracle": "v M = lambda v where lambda is an eigenvalue; GeometryError or zero coordinates where it is not"}, chunk=16)
    ctx.product("eigenvector-diagonalize", "checks.c16:case_eigen", eig_cases,
                domains={"eigenvalue alphabet": vals, "n": "2..6", "conjugators": "unimodular family"}, chunk=32)
    ctx.product("eigenvector-diagonalize-batch", "checks.c16:case_eigen_batch", eig_batch,
                domains={"shapes": [(1,), (2,), (3,), (2, 2), (3, 2), (1, 3)]}, chunk=8)
    ctx.product("eigenvector-batch-mixed-spectra", "checks.c16:case_eigen_batch", eig_mixed,
                domains={"n": "2..6", "lambda": vals, "shapes": [(1,), (2,), (3,), (2, 2)],
                         "members": "every pattern of 'has lambda' / 'does not' over the positions except all-have (2^k - 1 patterns); lambda at a "
                                    "position of D that moves with the member, multiplicity 2 for odd members (n >= 3); one conjugator per member",
                         "layouts": ["row matrices", "column_vectors=True"],
                         "calls": ["eigenvector(lambda)", "eigenvector()", "diagonalize()"]}, chunk=8)
