"""C07 - Coxeter automata accept exactly the geodesic / shortlex normal forms.

Engine P, one case = one Coxeter matrix (+ constructor route / naming / encoding of infinity); the
whole breadth-first exploration of words happens inside the case function, against the Tits
word-problem oracle of mc/oracle/coxeter_words.py (braid classes), which is itself compared, inside
every case, with the matrix enumeration in an independently built Tits representation and with
Steinberg's rational growth formula.
"""
import itertools
import re

import numpy as np

from mc.oracle import coxeter_words as cw

ALPHA = "abcdefghijklmnopqrstuvwxyz"
IMG_TOL = 1e-6
MAXMSG = 3
EVEN_LIMIT = 150000


def gen_names(n, style):
    return [ALPHA[i] for i in range(n)] if style == "alpha" else ["s%d" % i for i in range(n)]


class Collector:
    """One violation per key per case, with a count and the first few witnesses."""

    def __init__(self, head):
        self.head = head
        self.d = {}

    def add(self, key, msg):
        e = self.d.setdefault(key, [0, []])
        e[0] += 1
        if len(e[1]) < MAXMSG:
            e[1].append(msg)

    def out(self):
        return [{"key": k, "msg": "%s: %d witness(es), e.g. %s" % (self.head, n, " | ".join(ms))}
                for k, (n, ms) in sorted(self.d.items())]


def build_group(case):
    """Fresh CoxeterGroup by the case's route; returns (G, matrix in the order of G.ordered_gens as
    written by the harness from the case data, generator names in that order)."""
    from geometry_tools import coxeter
    m = case["m"]
    n = len(m)
    style = case.get("style", "alpha")
    if case.get("route", "matrix") == "matrix":
        G = coxeter.CoxeterGroup(matrix=[list(r) for r in m], generator_style=style)
        return G, m, gen_names(n, style)
    if case["route"] == "ndarray-reused":
        # the caller enumerates matrices in one integer buffer: the group is built from the buffer, which is
        # then overwritten with the next (different, valid) matrix before any automaton is requested
        buf = np.array([list(r) for r in m], dtype=int)
        G = coxeter.CoxeterGroup(matrix=buf, generator_style=style)
        if buf.tolist() != [list(r) for r in m]:
            case["_ctor_modified"] = buf.tolist()
        nxt = 3 if all(m[i][j] == 2 for i in range(n) for j in range(i)) else 2
        buf[...] = nxt
        np.fill_diagonal(buf, 1)
        return G, m, gen_names(n, style)
    names = gen_names(n, style)
    if case.get("names") is not None:
        # the diagram names its generators itself ("each generator can be any hashable object"): integers, numpy
        # integers, digit strings ... in any order, possibly colliding with the internal labels 0..n-1
        names = list(case["names"])
        if case.get("np_int"):
            names = [np.int64(x) for x in names]
    pairs = case.get("pairs") or [[i, j] for i in range(n) for j in range(i + 1, n)]
    diagram = [(names[i], names[j], m[i][j]) for (i, j) in pairs]
    G = coxeter.CoxeterGroup(diagram=diagram)
    order = list(G.ordered_gens)                      # the library's declared generator order
    idx = [names.index(g) for g in order]
    mm = [[m[a][b] for b in idx] for a in idx]
    return G, mm, order


def to_lib_word(w, names, single):
    return "".join(names[s] for s in w) if single else [names[s] for s in w]


def to_lib_even_word(w, names):
    return [names[w[i]] + names[w[i + 1]] for i in range(0, len(w), 2)]


def has_cycle(graph_dict):
    """Directed cycle among the states reachable in the label view (iterative colouring)."""
    succ = {v: sorted(set(nb.values()), key=repr) for v, nb in graph_dict.items()}
    colour = {}
    for root in succ:
        if root in colour:
            continue
        stack = [(root, iter(succ[root]))]
        colour[root] = 1
        while stack:
            v, it = stack[-1]
            for w in it:
                c = colour.get(w, 0)
                if c == 1:
                    return True
                if c == 0:
                    colour[w] = 1
                    stack.append((w, iter(succ.get(w, []))))
                    break
            else:
                colour[v] = 2
                stack.pop()
    return False


def path_counts(fsa_obj, L):
    """Number of accepted words of each length 0..L, by dynamic programming on the label view."""
    gd = fsa_obj.graph_dict
    cur = {}
    for s in fsa_obj.start_vertices:
        cur[s] = cur.get(s, 0) + 1
    out = [sum(cur.values())]
    for _ in range(L):
        nxt = {}
        for v, c in cur.items():
            for _, w in gd[v].items():
                nxt[w] = nxt.get(w, 0) + c
        cur = nxt
        out.append(sum(cur.values()))
        if not cur:
            break
    return out


def even_cost(A, limit):
    """Number of two-letter paths FSA.automaton_multiple(2) enumerates on A (it visits every state once,
    marking states when they are queued).  Used only to decide whether building the even-length variant is
    affordable; with the quadratic _hidden_vertices/add_edges cost of the library this stays small."""
    gd = A.graph_dict
    return sum(len(gd[w1]) for v in gd for _, w1 in gd[v].items())


def min_pairwise_distance_below(mats, tol):
    """Indices (i, j) of two matrices with max-entry distance <= tol, or None.  Sweep over a fixed
    generic linear functional: |f(A)-f(B)| <= sum|c| * max|A-B|."""
    N = len(mats)
    if N < 2:
        return None
    X = np.asarray(mats, dtype=float).reshape(N, -1)
    d = X.shape[1]
    c = np.modf(np.sqrt(2.0) * np.arange(1, d + 1) ** 1.5)[0] + 0.25
    f = X @ c
    order = np.argsort(f, kind="stable")
    fs = f[order]
    win = float(np.sum(np.abs(c))) * tol
    for a in range(N - 1):
        b = a + 1
        while b < N and fs[b] - fs[a] <= win:
            if np.max(np.abs(X[order[a]] - X[order[b]])) <= tol:
                return int(order[a]), int(order[b])
            b += 1
    return None


def graph_language(A, L, names):
    """All label sequences of length <= L readable from the start vertices in the automaton's label view, as tuples
    of generator indices (harness-side enumeration for automata whose labels are not strings: the library's
    enumerate_words concatenates labels).  Returns (list of words, labels that are not generator names)."""
    idx = {}
    for i, g in enumerate(names):
        idx[g] = i
    gd = A.graph_dict
    cur = [((), s) for s in A.start_vertices]
    out, bad = [w for (w, _) in cur], []
    for _ in range(L):
        nxt = []
        for (w, v) in cur:
            for label, tgt in gd[v].items():
                if label not in idx:
                    bad.append(label)
                else:
                    nxt.append((w + (idx[label],), tgt))
        cur = nxt
        out.extend(w for (w, _) in cur)
    return out, bad


def split_names(s, names, single):
    if single:
        return tuple(names.index(ch) for ch in s)
    return tuple(names.index(x) for x in re.findall(r"s\d+", s))


# ----------------------------------------------------------------------------------------------
def case_matrix(case):
    L = int(case["L"])
    G, m, names = build_group(case)
    n = len(m)
    strs = all(isinstance(x, str) for x in names)
    single = strs and all(len(x) == 1 for x in names)
    V = Collector("matrix %r (%s, %s)" % (m, case.get("route", "matrix"),
                                         case.get("style", "alpha") if case.get("names") is None else "generators named %r" % (names,)))
    t = 0
    if "_ctor_modified" in case:
        V.add("ctor/caller-matrix-modified", "the constructor rewrote the caller's array to %r" % (case["_ctor_modified"],))
        return {"v": V.out(), "t": 1, "o": "ctor", "nt": True}
    if [list(map(int, r)) for r in np.asarray(G.coxeter_matrix).tolist()] != [list(r) for r in m]:
        V.add("ctor/coxeter_matrix", "library matrix %r" % (np.asarray(G.coxeter_matrix).tolist(),))
        return {"v": V.out(), "t": 1, "o": "ctor", "nt": True}

    # ---------------- oracle --------------------------------------------------------------
    nm = cw.normalize(m)
    br = cw.Braid(nm)
    spherical = cw.is_spherical(nm)
    exhausted = False
    if spherical and case.get("exhaust", True):
        lv = br.levels(10 ** 6, cap=int(case.get("cap", 20000)))
        if br.capped:
            lv = br.levels(L)            # memoised: only re-reads the classes
        else:
            exhausted = True
    else:
        lv = br.levels(L)
        exhausted = len(lv) - 1 < L          # the level after the last one is empty: finite group, all seen
    growth = cw.growth_from_levels(lv, br)
    # second oracle: lengths by matrix enumeration (up to Lmat)
    Lmat = min(int(case.get("Lmat", L)), len(lv) - 1)
    tr = cw.TitsRep(nm)
    tl = tr.levels(Lmat)
    g2 = [len(x) for x in tl]
    if g2 != growth[:len(g2)]:
        V.add("HARNESS-oracle/growth", "braid classes give %r, matrix enumeration %r" % (growth, g2))
    table = {k: i for i, x in enumerate(tl) for k in x}

    # ---------------- library objects -----------------------------------------------------
    geo = G.automaton(shortlex=False)
    slx = G.automaton(shortlex=True)
    t += 2

    # ---------------- every word whose proper prefixes are reduced ------------------------
    reduced_words = [set(), set()]      # [geodesic language, shortlex language] as tuples
    nclassified = 0
    hard = 0
    even_items = []
    for k, words in enumerate(lv):
        for w in words:
            red, mn, _ = br.classify(w)
            reduced_words[0].add(w)
            if mn == w:
                reduced_words[1].add(w)
            if k == 0:
                for (A, nmz) in ((geo, "geodesic"), (slx, "shortlex")):
                    if not bool(A.accepts(to_lib_word(w, names, single))):
                        V.add("%s/accepts/empty-word" % nmz, "empty word rejected")
                nclassified += 1
            if k == len(lv) - 1 and not exhausted:
                continue
            for s in range(n):
                u = w + (s,)
                red, mn, _ = br.classify(u)
                nclassified += 1
                lw = to_lib_word(u, names, single)
                a_geo = bool(geo.accepts(lw))
                a_slx = bool(slx.accepts(lw))
                t += 2
                if len(u) <= Lmat:
                    ln = table.get(tr.key(tr.matrix(u)))
                    if red != (ln == len(u)):
                        V.add("HARNESS-oracle/length", "word %r: braid reduced=%r, matrix length %r" % (u, red, ln))
                if not red and u[-1] != u[-2]:
                    hard += 1
                if a_geo != red:
                    V.add("geodesic/accepts/" + ("false-reject" if red else "false-accept"),
                          "word %r (%r): accepts=%r, oracle reduced=%r" % (lw, u, a_geo, red))
                is_nf = red and mn == u
                if red and not is_nf:
                    hard += 1
                if a_slx != is_nf:
                    if is_nf:
                        kk = "false-reject"
                    elif red:
                        kk = "false-accept/reduced-not-minimal"
                    else:
                        kk = "false-accept/not-reduced"
                    V.add("shortlex/accepts/" + kk,
                          "word %r (%r): accepts=%r, oracle reduced=%r, class minimum %r" % (lw, u, a_slx, red, mn))
                if len(u) % 2 == 0:
                    even_items.append((u, red, is_nf))

    Lc = len(lv) - 1                      # complete levels known to the oracle
    Le = Lc + 2 if exhausted else Lc      # enumerate beyond the longest element of a finite group

    # ---------------- enumerate_words: the language up to Le as a set ---------------------
    for which, A, lang in (("geodesic", geo, reduced_words[0]), ("shortlex", slx, reduced_words[1])):
        if strs:
            got = list(A.enumerate_words(Le))
            got_t = [split_names(x, names, single) for x in got]
        else:
            got_t, foreign = graph_language(A, Le, names)
            if foreign:
                V.add("%s/labels/not-a-generator-name" % which, "edge labels %r, generators are named %r" % (foreign[:4], names))
        t += 1
        if len(got_t) != len(set(got_t)):
            dup = sorted({x for x in got_t if got_t.count(x) > 1})[:3]
            V.add("%s/enumerate_words/duplicate" % which, "listed more than once: %r" % (dup,))
        gs = set(got_t)
        for x in sorted(gs - lang, key=lambda z: (len(z), z))[:MAXMSG]:
            V.add("%s/enumerate_words/extra" % which + ("/beyond-longest-element" if len(x) > Lc else ""),
                  "enumerated %r is not in the oracle language" % (x,))
        for x in sorted(lang - gs, key=lambda z: (len(z), z))[:MAXMSG]:
            V.add("%s/enumerate_words/missing" % which, "oracle word %r is not enumerated" % (x,))
        hist = [0] * (Le + 1)
        for x in got_t:
            hist[len(x)] += 1
        want = ([len(x) for x in lv] if which == "geodesic" else growth) + [0] * (Le - Lc)
        if hist != want:
            V.add("counts/%s/enumerate_words" % which, "accepted words per length %r, oracle %r" % (hist, want))

    # ---------------- growth series far beyond L, from the automaton's path counts --------
    cyc_geo, cyc_slx = has_cycle(geo.graph_dict), has_cycle(slx.graph_dict)
    for which, cyc in (("geodesic", cyc_geo), ("shortlex", cyc_slx)):
        if spherical and cyc:
            V.add("finite/%s/cycle" % which, "finite group (cosine form positive definite) but the automaton has a directed cycle")
        if not spherical and not cyc:
            V.add("infinite/%s/acyclic" % which, "infinite group but the automaton accepts finitely many words")
    Lg = int(case.get("Lg", 0))
    steinberg = None
    if spherical:
        order, series = cw.group_order(nm, cap=int(case.get("order_cap", 20000)))
        if order is not None and not cyc_slx:
            pc = path_counts(slx, 10 ** 4)
            while pc and pc[-1] == 0:
                pc.pop()
            if pc != series:
                V.add("counts/shortlex/finite-growth-series", "path counts %r, growth series of the finite group %r" % (pc, series))
            if exhausted and series != growth:
                V.add("HARNESS-oracle/finite-growth", "braid %r vs matrices %r" % (growth, series))
    elif Lg:
        steinberg = cw.growth_rational(nm, Lg)
        if steinberg is not None:
            pc = path_counts(slx, Lg)
            if pc != steinberg:
                V.add("counts/shortlex/growth-series", "path counts up to length %d: %r, Steinberg series %r" % (Lg, pc, steinberg))
            if steinberg[:len(growth)] != growth:
                V.add("HARNESS-oracle/steinberg", "braid %r vs Steinberg %r" % (growth, steinberg[:len(growth)]))

    # ---------------- even-length variants ------------------------------------------------
    skipped = ""
    for which, shortlex, lang in (("even-geodesic", False, reduced_words[0]), ("even-shortlex", True, reduced_words[1])):
        if not strs:
            skipped = "|names-not-strings"   # two-generator labels are concatenated names: strings only
            continue
        if even_cost(slx if shortlex else geo, EVEN_LIMIT) > EVEN_LIMIT:
            skipped += "|no-" + which        # see even_cost: construction cost ~ number of reduced words
            continue
        E = G.automaton(shortlex=shortlex, even_length=True)
        t += 1
        kmax = Le // 2
        got = list(E.enumerate_words(kmax))
        got_t = [split_names(x, names, single) for x in got]
        if len(got_t) != len(set(got_t)):
            V.add("%s/enumerate_words/duplicate" % which, "words listed more than once")
        gs = set(got_t)
        want = {x for x in lang if len(x) % 2 == 0 and len(x) <= 2 * kmax}
        for x in sorted(gs - want, key=lambda z: (len(z), z))[:MAXMSG]:
            V.add("%s/enumerate_words/extra" % which, "enumerated %r is not an accepted word of even length" % (x,))
        for x in sorted(want - gs, key=lambda z: (len(z), z))[:MAXMSG]:
            V.add("%s/enumerate_words/missing" % which, "accepted even-length word %r is not enumerated" % (x,))
        # accepts() on words cut into the two-letter labels; done after the enumeration so that a
        # query cannot influence it
        E2 = E
        if not bool(E2.accepts([])):
            V.add("%s/accepts/empty-word" % which, "empty word rejected")
        for (u, red, is_nf) in even_items:
            exp = is_nf if shortlex else red
            lw = to_lib_even_word(u, names)
            t += 1
            try:
                got_a = bool(E2.accepts(lw))
            except Exception as e:  # recorded as a finding class of its own, the exploration goes on
                V.add("%s/accepts/exception-%s" % (which, type(e).__name__),
                      "accepts(%r) raised %s: %s" % (lw, type(e).__name__, str(e)[:80]))
                continue
            if got_a != exp:
                V.add("%s/accepts/%s" % (which, "false-reject" if exp else "false-accept"),
                      "accepts(%r) = %r, expected %r" % (lw, got_a, exp))

    # ---------------- faithful images of the shortlex words -------------------------------
    Limg = min(int(case.get("Limg", L)), Lc)
    nf_words = sorted((x for x in reduced_words[1] if len(x) <= Limg), key=lambda z: (len(z), z))
    if strs and all(re.search("[a-zA-Z]", x) for x in names):      # a Representation only takes string names with a letter
        rep = G.canonical_representation()
        mats = [np.asarray(rep[to_lib_word(x, names, single)], dtype=float) for x in nf_words]
        t += len(mats)
        hit = min_pairwise_distance_below(mats, IMG_TOL)
        if hit is not None:
            V.add("images/collision", "shortlex words %r and %r have canonical-representation images within %g"
                  % (nf_words[hit[0]], nf_words[hit[1]], IMG_TOL))

    o = "%s|%s|%s%s" % (",".join(map(str, growth[:10])), "fin" if spherical else "inf", "X" if exhausted else "", skipped)
    return {"v": V.out(), "t": nclassified, "o": o, "nt": hard > 0}


def case_oracle(case):
    """Self check of the reference model (no library call): braid oracle vs matrix enumeration vs
    the closed-form growth series of the finite groups / Steinberg's formula."""
    m = case["m"]
    out, g = cw.selfcheck(m, int(case["L"]), cap=case.get("cap", 20000))
    v = [{"key": "HARNESS-oracle/selfcheck", "msg": "%r: %s" % (m, s)} for s in out[:3]]
    if case.get("degrees"):
        want = cw.poincare_from_degrees(case["degrees"])
        if g != want[:len(g)]:
            v.append({"key": "HARNESS-oracle/known-growth", "msg": "%r: growth %r, known %r" % (m, g, want)})
    elif not cw.is_spherical(cw.normalize(m)):
        st = cw.growth_rational(m, len(g) - 1)
        if st is not None and st != g:
            v.append({"key": "HARNESS-oracle/steinberg", "msg": "%r: growth %r, Steinberg %r" % (m, g, st)})
    return {"v": v, "t": sum(g), "o": ",".join(map(str, g[:12])), "nt": len(g) > 2}


# ----------------------------------------------------------------------------------------------
# enumeration of Coxeter matrices
# ----------------------------------------------------------------------------------------------
def sym_matrix(n, labels):
    m = [[1 if i == j else None for j in range(n)] for i in range(n)]
    for (i, j), l in zip(itertools.combinations(range(n), 2), labels):
        m[i][j] = m[j][i] = l
    return m


def encodings(m):
    """The ways the library lets one write the infinite labels of m (normalized, INF = 0)."""
    ninf = sum(1 for i in range(len(m)) for j in range(i) if m[i][j] <= 0)
    if ninf == 0:
        return [("none", m)]
    out = [("0", cw.encode(m, 0)), ("-1", cw.encode(m, -1))]
    if ninf >= 2:
        # mixed: first infinite pair written 0, the others -3
        mm = [list(r) for r in cw.encode(m, -3)]
        done = False
        for i in range(len(m)):
            for j in range(i + 1, len(m)):
                if m[i][j] <= 0 and not done:
                    mm[i][j] = mm[j][i] = 0
                    done = True
        out.append(("mixed", mm))
    return out


def all_matrices(n, labels):
    for ls in itertools.product(labels, repeat=n * (n - 1) // 2):
        yield sym_matrix(n, ls)


def rank5_family():
    """All path- and star-shaped diagrams on 5 nodes with edge labels in {3,4,inf}, in the natural
    order of the nodes and in one fixed scrambled order (the generator order matters)."""
    perm = [2, 0, 4, 1, 3]
    for ls in itertools.product([3, 4, 0], repeat=4):
        p = cw.path_matrix(list(ls))
        yield p
        yield cw.permute(p, perm)
        for c in (0, 2):
            yield cw.star_matrix(list(ls), centre=c)
        yield cw.permute(cw.star_matrix(list(ls), centre=0), perm)


def _wanted(ctx, name):
    only = getattr(ctx, "only", None)
    return not only or any(name.startswith(p) for p in only)


def run(ctx):
    q = ctx.quick

    def P(name, fn, cases, **kw):
        if _wanted(ctx, name):
            ctx.product(name, fn, cases, **kw)
    ctx.rule = ("one case = one Coxeter matrix (ordered: no quotient by relabelling) with one way of writing "
                "infinity, one constructor route and one naming style; inside, all words of length <= L are "
                "decided: breadth-first over the oracle-reduced words, every one-letter extension of a reduced "
                "word is put to accepts() of the geodesic and the shortlex automaton (so every shortest rejected "
                "word is visited; longer words with a rejected prefix are covered by the set comparison of "
                "enumerate_words(L) with the oracle language); for finite groups L is raised until the language "
                "is exhausted; non-trivial = some visited word is rejected for a reason other than a repeated "
                "letter, or is reduced but not the class minimum; t = words classified")
    ctx.assume("Coxeter matrices are symmetric integer matrices with 1 on the diagonal, off-diagonal entries >= 2 or "
               "<= 0 (infinite); np.inf is not an accepted encoding (the constructor rejects it)")
    ctx.assume("words given to accepts() use only the automaton's own labels (generator names; two-generator labels "
               "for the even-length variant)")
    ctx.assume("the order of the generators is G.ordered_gens (for the matrix route: the index order)")
    ctx.assume("a diagram may name its generators by any hashable object (documented); for names that are not strings words are "
               "tuples / lists of names, and enumerate_words, the even-length variant (which need string names) and the "
               "canonical representation (string names containing a letter) are not used")
    ctx.tolerances["images"] = ("distinct shortlex words must have canonical-representation images more than 1e-6 "
                                "apart in some entry; entries are algebraic integers of Z[2cos(pi/m)] of moderate "
                                "height for |w| <= 8, measured minimum distance is >= 0.1")
    ctx.tolerances["oracle"] = "Tits-representation matrices of the oracle are identified after rounding to 1e-6"
    L3 = 8 if q else 10
    # ---- oracle self check
    oc = [{"m": m, "L": 100, "degrees": d, "cap": 20000} for (nm, m, d) in cw.KNOWN_FINITE if nm not in ("B4", "F4")]
    oc += [{"m": m, "L": 8} for m in ([[1, 0], [0, 1]], sym_matrix(3, [3, 3, 3]), sym_matrix(3, [2, 3, 0]),
                                       sym_matrix(3, [0, 0, 0]), sym_matrix(3, [2, 3, 7]), sym_matrix(3, [4, 4, 2]),
                                       sym_matrix(3, [2, 4, 5]), sym_matrix(3, [7, 7, 7]),
                                       sym_matrix(4, [4, 2, 2, 3, 2, 4]), sym_matrix(4, [3, 2, 2, 3, 2, 5]))]
    P("oracle-selfcheck", "checks.c07:case_oracle", oc,
                domains={"finite groups with known degrees": len(oc) - 10, "infinite groups vs Steinberg": 10}, chunk=1)
    # ---- rank 2
    labels2 = [2, 3, 4, 5, 6, 7, 0] if q else list(range(2, 13)) + [0]
    cases = []
    for l in labels2:
        for enc, mm in encodings(sym_matrix(2, [l])):
            for style in ("alpha", "alphanum"):
                for route in ("matrix", "diagram"):
                    cases.append({"m": mm, "L": 9 if q else 12, "style": style, "route": route, "Lg": 30})
    P("rank2", "checks.c07:case_matrix", cases,
                domains={"labels": labels2, "infinity written as": ["0", "-1"], "style": ["alpha", "alphanum"],
                         "route": ["matrix", "diagram"], "L": 9 if q else 12}, chunk=2)
    # ---- rank 3: all 343 ordered matrices
    labels3 = [2, 3, 4, 5, 6, 7, 0]
    cases = []
    for m in all_matrices(3, labels3):
        for enc, mm in encodings(m):
            cases.append({"m": mm, "L": L3, "style": "alpha", "route": "matrix", "Lg": 24})
    P("rank3-all-343", "checks.c07:case_matrix", cases,
                domains={"labels": labels3, "ordered matrices": 343, "infinity written as": ["0", "-1", "mixed 0/-3"],
                         "L": L3, "finite groups": "exhausted"}, chunk=2)
    # ---- rank 3, other routes / names (labels {2,3,4,5,inf} quick; all in thorough)
    sub = [2, 3, 5, 0] if q else labels3
    cases = []
    for m in all_matrices(3, sub):
        enc = encodings(m)
        mm = enc[1][1] if len(enc) > 1 else enc[0][1]          # infinity as -1 where present
        cases.append({"m": mm, "L": L3 - 2, "style": "alphanum", "route": "matrix", "Lg": 12})
        cases.append({"m": mm, "L": L3 - 2, "style": "alpha", "route": "diagram", "Lg": 12,
                      "pairs": [[1, 2], [0, 2], [0, 1]]})
        cases.append({"m": mm, "L": L3 - 2, "style": "alphanum", "route": "diagram", "Lg": 12})
        cases.append({"m": mm, "L": L3 - 2, "style": "alpha", "route": "ndarray-reused", "Lg": 12})
    P("rank3-routes", "checks.c07:case_matrix", cases,
                domains={"labels": sub, "routes": ["matrix/alphanum", "diagram/alpha listed (1,2),(0,2),(0,1)",
                                                   "diagram/alphanum", "integer ndarray overwritten by the caller after construction"],
                         "L": L3 - 2}, chunk=2)
    # ---- generators named by the diagram itself: integers (in every order, 1-based, far from 0..n-1, numpy integers), digit strings
    name_lists = [([2, 0, 1], False), ([1, 2, 0], False), ([1, 2, 3], False), ([0, 2, 1], False), ([1, 0, 2], True), (["2", "0", "1"], False)]
    if not q:
        name_lists += [([0, 1, 2], False), ([2, 1, 0], False), ([1, 0, 2], False), ([5, 9, 7], False), ([2, 0, 1], True), (["1", "2", "0"], False)]
    cases = []
    for m in all_matrices(3, sub):
        enc = encodings(m)
        mm = enc[1][1] if len(enc) > 1 else enc[0][1]
        for k, (nl, npi) in enumerate(name_lists):
            c = {"m": mm, "L": L3 - 2, "route": "diagram", "Lg": 12, "names": nl, "np_int": npi}
            if k % 3 == 2:
                c["pairs"] = [[1, 2], [0, 2], [0, 1]]
            cases.append(c)
    nl4 = [[3, 1, 0, 2], [1, 2, 3, 4]] + ([] if q else [[2, 3, 0, 1], [0, 1, 2, 3]])
    for ls in itertools.product([3, 4, 0] if q else [3, 4, 5, 0], repeat=3):
        for m4 in (cw.path_matrix(list(ls)), cw.star_matrix(list(ls), centre=1)):
            enc = encodings(m4)
            for nl in nl4:
                cases.append({"m": enc[-1][1], "L": 5 if q else 6, "route": "diagram", "Lg": 10, "Lmat": 5, "cap": 3000, "names": nl, "np_int": False})
    P("diagram-own-names", "checks.c07:case_matrix", cases,
      domains={"rank 3": "all ordered matrices with labels %r" % (sub,), "rank 3 generator names (numpy int64?)": [list(x) for x in name_lists],
               "rank 4": "path and star (centre 1) diagrams, edge labels %r" % ([3, 4, "inf"] if q else [3, 4, 5, "inf"],), "rank 4 generator names": nl4,
               "diagram listing": "pairs in index order; every third name list as (1,2),(0,2),(0,1)",
               "words": "tuples / lists of the names; for non-string names the accepted language is read off the label view by the harness "
                        "(enumerate_words and the even-length variant concatenate labels: strings only), accepts() on every one-letter extension "
                        "of a reduced word, path counts vs Steinberg", "L": L3 - 2}, chunk=4)
    # ---- rank 4
    labels4 = [2, 3, 4, 0] if q else [2, 3, 4, 5, 0]
    L4 = 5 if q else 6
    cases = []
    for m in all_matrices(4, labels4):
        enc = encodings(m)
        k = (sum(map(sum, m)) % 2) if len(enc) > 1 else 0     # alternate 0 / -1 deterministically
        cases.append({"m": enc[k][1], "L": L4, "style": "alpha", "route": "matrix", "Lg": 12, "Lmat": 5,
                      "cap": 3000 if q else 12000, "Limg": L4})
    P("rank4", "checks.c07:case_matrix", cases,
                domains={"labels": labels4, "ordered matrices": len(cases), "L": L4,
                         "finite groups": "exhausted when they have <= %d reduced words" % (3000 if q else 12000)},
                chunk=4 if q else 16)
    # ---- rank 5 (thorough)
    if not q:
        cases = []
        for i, m in enumerate(rank5_family()):
            enc = encodings(m)
            mm = enc[(i % 2) if len(enc) > 1 else 0][1]
            cases.append({"m": mm, "L": 8, "style": "alpha", "route": "matrix", "Lg": 12, "Lmat": 5,
                          "cap": 12000, "Limg": 6})
        P("rank5-paths-stars", "checks.c07:case_matrix", cases,
                    domains={"shapes": ["path 0-1-2-3-4", "path scrambled order", "star centre 0", "star centre 2",
                                        "star scrambled order"], "edge labels": [3, 4, "inf"], "L": 8}, chunk=1)
