"""C14 - circle and sphere parameters describe the true geodesic, segment, horosphere, subspace.

Engine P.  Sections:
  pairs-H2          all ordered pairs of distinct points of P_2 u I_2 x {poincare, halfspace} x {degrees,
                    radians} x {Segment, Segment(array), Segment.geodesic(), Geodesic (ideal pairs)}:
                    ideal endpoints, centre/radius, angles (arc sampled at 9 parameters)
  pairs-H3/H4       the same without angles (sphere_parameters), n = 3, 4
  close-pairs       interior pairs at Klein separation 1e-3, 1e-5, 1e-7 around 12 lattice points (n = 2..4); keys carry /close-endpoints
  limits            exact / near diameters (Poincare) and exact / near vertical lines (half-space)
  horospheres       all (centre in I_n, reference in P_n), n = 2..4, both models
  horosphere-arcs   HorosphereArc.circle_parameters (n = 2), single and composite layout
  subspaces         Subspace(ideal basis) for all (k+1)-subsets of I_n, k = 1..n-1, and Hyperplane(normal): sphere_parameters
                    in both models, boundary_sphere_parameters (the sphere in the boundary of the half-space model)

Oracle: mc/oracle/circles.py (chords and flats of the Klein ball) + mc/oracle/hyp.py (point maps and
closed-form metrics of the models).  Coordinates of the *inputs* in the conformal models are always
computed by the oracle, never read back from the library.
"""
import itertools
import math

import numpy as np

from mc import lattice
from mc.oracle import circles as orc
from mc.oracle import hyp

TAU = 1e-6            # sqrt-eps class (ideal points in conformal coordinates), DESIGN section 4
HUGE = 1e6            # "straight-line limit": radius non-finite or larger than this
INF_MARGIN = 0.2      # rad, distance kept from the half-space point at infinity
MODELS = ["poincare", "halfspace"]


def _row(k):
    return [1.0] + [float(x) for x in k]


def _V(key, msg):
    return {"key": key, "msg": msg}


def _f(x):
    return np.array2string(np.asarray(x, dtype=float), precision=6, separator=",")


def _finite(x):
    return bool(np.all(np.isfinite(np.asarray(x, dtype=float))))


def _hs_scale(n, ideal_pts):
    """max |half-space coordinate| of the given ideal points (oracle), inf at the point at infinity."""
    V = 0.0
    for e in ideal_pts:
        if orc.angle_between(e, orc.infinity(n)) < 1e-12:
            return float("inf")
        V = max(V, float(np.max(np.abs(hyp.klein_to("halfspace", e)))))
    return V


# ------------------------------------------------------------------------------------------
# segments and geodesics
# ------------------------------------------------------------------------------------------
def _build(H, cls, A, B):
    ra, rb = np.array(_row(A)), np.array(_row(B))
    if cls == "Segment":
        return H.Segment(H.Point(ra), H.Point(rb)), 3
    if cls == "Segment(array)":
        return H.Segment(np.array([ra, rb])), 1
    if cls == "Segment.geodesic":
        return H.Segment(H.Point(ra), H.Point(rb)).geodesic(), 4
    if cls == "Geodesic":
        return H.Geodesic(H.Point(ra), H.Point(rb)), 3
    raise ValueError(cls)


CLOSE = 1e-2          # endpoints closer than this (Klein coordinates) are the input class "close-endpoints"


def case_pair(case):
    r = _case_pair(case)
    if float(np.linalg.norm(np.array(case["b"], dtype=float) - np.array(case["a"], dtype=float))) < CLOSE:
        for x in r["v"]:
            x["key"] += "/close-endpoints"
        if "o" in r:
            r["o"] = "close|" + r["o"]
    return r


def _case_pair(case):
    from geometry_tools import hyperbolic as H
    n, model, deg, cls = case["n"], case["model"], case["deg"], case["cls"]
    A = np.array(case["a"], dtype=float)
    B = np.array(case["b"], dtype=float)
    v = []
    ea, eb = orc.chord_ends(A, B)
    is_seg = cls.startswith("Segment") and cls != "Segment.geodesic"
    name = "segment" if is_seg else "geodesic"
    obj, t = _build(H, cls, A, B)

    # ---- ideal endpoints: lightlike, Klein-collinear with the endpoints -------------------
    ib = np.asarray(obj.ideal_basis, dtype=float)
    if ib.shape != (2, n + 1):
        return {"v": [_V(name + "/ideal_endpoints/shape", "ideal basis has shape %r" % (ib.shape,))], "t": t}
    q = np.abs(hyp.mink(ib, ib)) / np.sum(ib * ib, axis=-1)
    # conditioning: the endpoints determine their line to eps / |A-B|, and so the null vectors of their span: a
    # null-cone residual of <= 12 eps / |A-B| was measured (9600 random pairs with |A-B| from 1e-1 to 1e-8, n = 2..4)
    # once the discriminant of the quadratic is evaluated without cancellation; 1e-9 covers |A-B| >= 2e-5
    dAB = float(np.linalg.norm(B - A))
    EPS = float(np.finfo(float).eps)
    tolq = max(1e-9, 128 * EPS / dAB)
    if not (_finite(ib) and np.all(q <= tolq)):
        v.append(_V(name + "/ideal_endpoints/not-lightlike",
                    "%s(%s,%s): ideal basis %s has relative Minkowski norms %s" % (cls, _f(A), _f(B), _f(ib), _f(q))))
        return {"v": v, "t": t, "o": "bad-ideal", "nt": True}
    kl = np.asarray(obj.ideal_endpoint_coords("klein") if is_seg else obj.ideal_basis_coords("klein"), dtype=float)
    t += 1
    res = max(orc.line_residual(kl[i], A, B)[0] for i in range(2))
    if not res <= max(1e-8, 128 * EPS / dAB):
        v.append(_V(name + "/ideal_endpoints/not-collinear",
                    "%s(%s,%s): ideal endpoints %s are %.3g off the Klein line through the endpoints" % (cls, _f(A), _f(B), _f(kl), res)))
    match = min(max(np.linalg.norm(kl[0] - ea), np.linalg.norm(kl[1] - eb)),
                max(np.linalg.norm(kl[0] - eb), np.linalg.norm(kl[1] - ea)))
    if not match <= max(1e-7, 256 * EPS / dAB):
        v.append(_V(name + "/ideal_endpoints/not-the-two-ends",
                    "%s(%s,%s): ideal endpoints %s, the chord meets the sphere at %s, %s" % (cls, _f(A), _f(B), _f(kl), _f(ea), _f(eb))))
    if is_seg:
        ek = np.asarray(obj.endpoint_coords("klein"), dtype=float)
        t += 1
        if not np.max(np.abs(ek - np.array([A, B]))) <= 1e-12:
            v.append(_V("segment/endpoints/changed", "endpoint_coords %s differ from the construction data" % _f(ek)))
    if v:
        return {"v": v, "t": t, "o": "bad-ideal", "nt": True}

    # ---- classification by the oracle ------------------------------------------------------
    # conditioning: the ideal endpoints are null to ~eps / |A-B| (above).  The Poincare circle comes from the Klein
    # midpoint of the ideal endpoints (error eps / |A-B|: measured <= 6 eps (1+V) / |A-B|); the half-space circle from
    # the half-space coordinates of the ideal endpoints, which take the square root of the null-cone residual
    # (measured <= 0.4 sqrt(eps / |A-B|) (1+V)^2).  The sqrt-eps class 1e-6 covers |A-B| >= 2e-7 resp. 1.4e-2.
    e1 = orc.infinity(n)
    if model == "poincare":
        d0 = orc.line_origin_dist(A, B)
        exact = d0 <= 1e-12
        V = float("inf") if exact else 1.0 / d0
        tol = (1.0 + V) * max(TAU, 1e3 * EPS / dAB)
        klass = "diameter" if exact else ("near-diameter" if V > 50 else "generic")
    else:
        ang = min(orc.angle_between(ea, e1), orc.angle_between(eb, e1))
        exact = ang <= 1e-9
        V = float("inf") if exact else _hs_scale(n, [ea, eb])
        tol = (1.0 + V) ** 2 * max(TAU, 8.0 * math.sqrt(EPS / dAB))
        klass = "vertical" if exact else ("near-vertical" if ang < INF_MARGIN else "generic")

    if n == 2:
        c, r, th = obj.circle_parameters(degrees=deg, model=model)
    else:
        c, r = obj.sphere_parameters(model)
        th = None
    t += 1
    c = np.asarray(c, dtype=float)
    site = "circle_parameters" if n == 2 else "sphere_parameters"
    if exact:
        # straight-line limit: the library delivers NaN/inf (errstate-silenced divisions) or an
        # astronomically large radius; drawtools switches to a straight line on isnan or r > 80.
        if not (np.ndim(r) == 0 and orc.is_nonfinite_or_huge(r, HUGE)):
            v.append(_V("%s/%s/%s/straight-line-limit" % (name, site, model),
                        "%s(%s,%s) is a straight line in the %s model but the reported radius is %r (centre %s)"
                        % (cls, _f(A), _f(B), model, r, _f(c))))
        return {"v": v, "t": t, "o": "%s|%s|%s" % (cls, model, klass), "nt": False}
    if c.shape != (n,) or np.ndim(r) != 0:
        v.append(_V("%s/%s/%s/shape" % (name, site, model), "centre shape %r radius ndim %r" % (c.shape, np.ndim(r))))
        return {"v": v, "t": t}
    r = float(r)
    if not (_finite(c) and math.isfinite(r) and r > 0):
        v.append(_V("%s/%s/%s/non-finite" % (name, site, model),
                    "%s(%s,%s): centre %s radius %r for a geodesic that is not a straight line (%s)" % (cls, _f(A), _f(B), _f(c), r, klass)))
        return {"v": v, "t": t, "o": "nonfinite", "nt": True}

    Am, Bm = hyp.klein_to(model, A), hyp.klein_to(model, B)
    eam, ebm = hyp.klein_to(model, ea), hyp.klein_to(model, eb)
    where = "%s(%s,%s) %s [%s]" % (cls, _f(A), _f(B), model, klass)
    worst = max(abs(np.linalg.norm(X - c) - r) for X in (Am, Bm, eam, ebm))
    if not worst <= tol:
        v.append(_V("%s/circle/%s/endpoint-off-circle" % (name, model),
                    "%s: centre %s radius %.9g; an endpoint or ideal endpoint is %.3g off the circle (tol %.2g)" % (where, _f(c), r, worst, tol)))
    if model == "poincare":
        orth = abs(float(c @ c) - r * r - 1.0) / (2.0 * r)
        if not orth <= tol:
            v.append(_V("%s/circle/poincare/not-orthogonal" % name,
                        "%s: |c|^2 - r^2 - 1 = %.3g (cos of the angle with the unit sphere %.3g)" % (where, float(c @ c) - r * r - 1.0, orth)))
    else:
        if not abs(c[-1]) <= tol:
            v.append(_V("%s/circle/halfspace/centre-off-boundary" % name, "%s: centre %s has height %.3g" % (where, _f(c), c[-1])))
    if n >= 3:
        if model == "poincare":
            u = (B - A) / np.linalg.norm(B - A)
            foot = A - (A @ u) * u
            mh = foot / np.linalg.norm(foot)
            off = np.linalg.norm(c - (c @ u) * u - (c @ mh) * mh)
        else:
            off = orc.line_residual(c, eam, ebm)[0]
        if not off <= tol:
            v.append(_V("%s/circle/%s/centre-off-plane" % (name, model),
                        "%s: centre %s is %.3g off the plane of the geodesic" % (where, _f(c), off)))

    delta = None
    if th is not None and not v and klass != "near-vertical":
        # (near-vertical half-space geodesics: the height of the centre carries an error ~1e-8 V^2 that
        # can exceed the height of the endpoints, so the sign of the angles is noise there; only the
        # circle equations are demanded, to relative tolerance)
        th = np.asarray(th, dtype=float)
        if th.shape != (2,) or not _finite(th):
            v.append(_V("%s/angles/%s/shape" % (name, model), "%s: angles %r" % (where, th)))
            return {"v": v, "t": t}
        if not is_seg:
            # the arc of a geodesic ends at the conformal coordinates of its ideal endpoints, which carry the square root
            # of their null-cone residual eps/|A-B| in the Poincare model as well (measured 0.9 sqrt(eps/|A-B|))
            tol = max(tol, (1.0 + V) ** (1 if model == "poincare" else 2) * 8.0 * math.sqrt(EPS / dAB))
        if deg:
            th = th * math.pi / 180.0
        delta = orc.ccw_delta(th[0], th[1])
        pts = orc.arc_points(c, r, th[0], th[1], 9)
        X0, X1 = (Am, Bm) if is_seg else (eam, ebm)
        enderr = min(max(np.linalg.norm(pts[0] - X0), np.linalg.norm(pts[-1] - X1)),
                     max(np.linalg.norm(pts[0] - X1), np.linalg.norm(pts[-1] - X0)))
        if not enderr <= tol:
            v.append(_V("%s/angles/%s/arc-ends" % (name, model),
                        "%s: the arc from %.6f to %.6f rad ends at %s, %s; endpoints are %s, %s" % (where, th[0], th[1], _f(pts[0]), _f(pts[-1]), _f(X0), _f(X1))))
        LA, LB = (A, B) if is_seg else (ea, eb)
        stol = tol / np.linalg.norm(LB - LA)
        interior = bool(abs(A @ A - 1) > 1e-9 and abs(B @ B - 1) > 1e-9)
        for j in range(1, 8):
            x = pts[j]
            depth = orc.inside_model(model, x)
            if not depth > -tol * 1e-3:
                v.append(_V("%s/angles/%s/arc-outside-model" % (name, model),
                            "%s: arc %.6f -> %.6f rad, sample %d = %s is outside the model" % (where, th[0], th[1], j, _f(x))))
                break
            kx = hyp.to_klein(model, x)
            res, s = orc.line_residual(kx, LA, LB)
            if not (res <= tol and -stol <= s <= 1.0 + stol):
                v.append(_V("%s/angles/%s/arc-off-segment" % (name, model),
                            "%s: arc %.6f -> %.6f rad, sample %d has Klein coordinates %s: %.3g off the line, parameter %.6f not in [0,1]"
                            % (where, th[0], th[1], j, _f(kx), res, s)))
                break
            if is_seg and interior and depth > 0:
                dab = float(hyp.dist_in_model(model, Am, Bm))
                D = float(hyp.dist_in_model(model, Am, x) + hyp.dist_in_model(model, x, Bm)) - dab
                if not abs(D) <= max(TAU * (1.0 + dab) ** 2, tol):
                    v.append(_V("%s/angles/%s/arc-not-on-hyperbolic-segment" % (name, model),
                                "%s: sample %d: d(A,x)+d(x,B)-d(A,B) = %.3g in the %s metric" % (where, j, D, model)))
                    break
    o = "%s|%s|%s|%s|%s" % (cls, model, klass, "deg" if deg else "rad",
                            ("r%.1f" % min(r, 99.0)) if delta is None else "%.1f" % delta)
    return {"v": v, "t": t, "o": o, "nt": True}


# ------------------------------------------------------------------------------------------
# horospheres
# ------------------------------------------------------------------------------------------
def _horo_checks(name, model, n, xi, refs_m, c, r, where):
    """sphere (c, r) passes through the model points refs_m and is tangent to the boundary at xi."""
    v = []
    c = np.asarray(c, dtype=float)
    if c.shape != (n,) or np.ndim(r) != 0 or not (_finite(c) and math.isfinite(float(r)) and float(r) > 0):
        return [_V("%s/sphere_parameters/%s/shape-or-non-finite" % (name, model), "%s: centre %r radius %r" % (where, c, r))]
    r = float(r)
    xim = hyp.klein_to(model, xi)
    V = float(np.max(np.abs(xim))) + max(float(np.max(np.abs(p))) for p in refs_m)
    tol = TAU * (1.0 + V) if model == "poincare" else TAU * (1.0 + V) ** 2
    worst = max(abs(np.linalg.norm(p - c) - r) for p in refs_m)
    if not worst <= tol * (1.0 + r):
        v.append(_V("%s/sphere/%s/misses-reference" % (name, model),
                    "%s: centre %s radius %.9g misses a point of the horosphere by %.3g" % (where, _f(c), r, worst)))
    if model == "poincare":
        e_touch = abs(np.linalg.norm(xim - c) - r)
        e_inner = abs(np.linalg.norm(c) + r - 1.0)
        if not max(e_touch, e_inner) <= tol:
            v.append(_V("%s/sphere/poincare/not-tangent-at-centre" % name,
                        "%s: centre %s radius %.9g: | |xi-c| - r | = %.3g, | |c| + r - 1 | = %.3g" % (where, _f(c), r, e_touch, e_inner)))
    else:
        e_h = float(np.max(np.abs(c[:-1] - xim[:-1]))) if n > 1 else 0.0
        e_z = abs(c[-1] - r)
        if not max(e_h, e_z) <= tol * (1.0 + r):
            v.append(_V("%s/sphere/halfspace/not-tangent-at-centre" % name,
                        "%s: centre %s radius %.9g: horizontal offset from the ideal centre %.3g, height - r = %.3g" % (where, _f(c), r, e_h, e_z)))
    return v


def case_horo(case):
    from geometry_tools import hyperbolic as H
    n, model = case["n"], case["model"]
    xi = np.array(case["xi"], dtype=float)
    p = np.array(case["ref"], dtype=float)
    if case["ctor"] == "pair":
        hs = H.Horosphere(H.IdealPoint(np.array(_row(xi))), H.Point(p, model="klein"))
    else:
        hs = H.Horosphere(np.array([_row(xi), _row(p)]))
    c, r = hs.sphere_parameters(model)
    where = "Horosphere(centre %s, reference %s) %s" % (_f(xi), _f(p), model)
    v = _horo_checks("horosphere", model, n, xi, [hyp.klein_to(model, p)], c, r, where)
    return {"v": v, "t": 2, "o": "%s|%.1f" % (model, float(r) if np.ndim(r) == 0 else -1.0), "nt": True}


def _horo_second_point(xi, p, phi):
    """(Klein point on the horosphere centred at xi through the Klein point p, at Euclidean angle
    phi further along the Poincare horocircle; angular distance of that point from xi on the circle)."""
    pp = hyp.klein_to_poincare(p)
    c, r = orc.horo_poincare(xi, pp)
    al = math.atan2(pp[1] - c[1], pp[0] - c[0])
    be = math.atan2(xi[1] - c[1], xi[0] - c[0])
    q = c + r * np.array([math.cos(al + phi), math.sin(al + phi)])
    gap = abs(math.remainder(al + phi - be, 2 * math.pi))
    return hyp.poincare_to_klein(q), gap


def case_horoarc(case):
    from geometry_tools import hyperbolic as H
    model, deg, layout = case["model"], case["deg"], case["layout"]
    xi = np.array(case["xi"], dtype=float)
    p1 = np.array(case["p1"], dtype=float)
    p2, gap = _horo_second_point(xi, p1, case["phi"])
    if layout == "single":
        arc = H.HorosphereArc(H.Point(np.array(_row(xi))), H.Point(np.array(_row(p1))), H.Point(np.array(_row(p2))))
    else:
        arc = H.HorosphereArc(H.Point(np.array([_row(xi)])), H.Point(np.array([_row(p1)])), H.Point(np.array([_row(p2)])))
    where = "HorosphereArc(centre %s, %s, %s) %s %s" % (_f(xi), _f(p1), _f(p2), model, layout)
    try:
        c, r, th = arc.circle_parameters(model=model, degrees=deg)
    except TypeError as e:
        import traceback
        tb = traceback.extract_tb(e.__traceback__)
        if layout == "single" and tb and tb[-1].name == "arc_include":
            # finding F16: utils.arc_include cannot handle a single angle pair
            return {"v": [_V("horoarc/circle_parameters/arc_include-scalar",
                             "%s: circle_parameters raises TypeError: %s" % (where, e))],
                    "t": 2, "o": "TypeError", "nt": True}
        raise
    c, r, th = np.asarray(c, dtype=float), np.asarray(r, dtype=float), np.asarray(th, dtype=float)
    if layout == "composite":
        if c.shape != (1, 2) or r.shape != (1,) or th.shape != (1, 2):
            return {"v": [_V("horoarc/circle_parameters/shape", "%s: shapes %r %r %r" % (where, c.shape, r.shape, th.shape))], "t": 2}
        c, r, th = c[0], r[0], th[0]
    if th.shape != (2,) or not _finite(th):
        return {"v": [_V("horoarc/circle_parameters/shape", "%s: angles %r" % (where, th))], "t": 2}
    p1m, p2m, xim = hyp.klein_to(model, p1), hyp.klein_to(model, p2), hyp.klein_to(model, xi)
    v = _horo_checks("horoarc", model, 2, xi, [p1m, p2m], c, r, where)
    if not v:
        r = float(r)
        if deg:
            th = th * math.pi / 180.0
        V = float(np.max(np.abs(xim))) + float(np.max(np.abs(p1m))) + float(np.max(np.abs(p2m)))
        tol = (TAU * (1.0 + V) if model == "poincare" else TAU * (1.0 + V) ** 2) * (1.0 + r)
        pts = orc.arc_points(c, r, th[0], th[1], 9)
        enderr = min(max(np.linalg.norm(pts[0] - p1m), np.linalg.norm(pts[-1] - p2m)),
                     max(np.linalg.norm(pts[0] - p2m), np.linalg.norm(pts[-1] - p1m)))
        if not enderr <= tol:
            v.append(_V("horoarc/angles/%s/arc-ends" % model,
                        "%s: the arc from %.6f to %.6f rad ends at %s, %s instead of the stated endpoints %s, %s"
                        % (where, th[0], th[1], _f(pts[0]), _f(pts[-1]), _f(p1m), _f(p2m))))
        beta = math.atan2(xim[1] - c[1], xim[0] - c[0])
        inside, margin = orc.angle_in_ccw_arc(beta, th[0], th[1])
        if inside and margin > 1e-3:
            v.append(_V("horoarc/angles/%s/arc-contains-centre" % model,
                        "%s: the counter-clockwise arc from %.6f to %.6f rad passes through the ideal centre (angle %.6f)" % (where, th[0], th[1], beta)))
        for j in range(1, 8):
            if not orc.inside_model(model, pts[j]) > 0:
                v.append(_V("horoarc/angles/%s/arc-outside-model" % model, "%s: sample %d = %s" % (where, j, _f(pts[j]))))
                break
    d = orc.ccw_delta(th[0], th[1]) if not deg else orc.ccw_delta(th[0], th[1])
    return {"v": v, "t": 2, "o": "%s|%s|%.1f" % (model, layout, d), "nt": True}


# ------------------------------------------------------------------------------------------
# subspaces
# ------------------------------------------------------------------------------------------
def case_subspace(case):
    from geometry_tools import hyperbolic as H
    n, model, ctor = case["n"], case["model"], case["ctor"]
    t = 2
    if ctor == "Subspace":
        K = np.array(case["basis"], dtype=float)
        k = K.shape[0] - 1
        m, Q, cond = orc.flat_frame(K)
        obj = H.Subspace(np.array([_row(x) for x in K]))
        ideal = [x for x in K] + orc.flat_ideal_points(m, Q)
        where = "Subspace(ideal basis %s) %s" % (_f(K), model)
        if model == "poincare":
            sym = np.linalg.norm(K.mean(axis=0) - m) <= 1e-9
        else:
            Kh = np.array([hyp.klein_to("halfspace", x) for x in K])
            dd = np.linalg.norm(Kh - Kh.mean(axis=0), axis=1)
            sym = float(np.max(dd) - np.min(dd)) <= 1e-9
    else:
        w = np.array(case["normal"], dtype=float)
        k = n - 1
        m, Q = orc.hyperplane_flat(w)
        obj = H.Hyperplane(w)
        pd = np.asarray(obj.proj_data, dtype=float)
        ibasis = pd[1:]
        bad = (not _finite(pd)) or np.max(np.abs(hyp.mink(ibasis, ibasis)) / np.sum(ibasis * ibasis, axis=-1)) > 1e-8 \
            or np.max(np.abs(hyp.mink(ibasis, w[None, :]))) > 1e-8 * (1 + np.max(np.abs(ibasis)))
        if bad:
            # the hyperplane itself is broken (find_isometry, finding F11): C15's business
            return {"v": [], "t": 1, "o": "hyperplane-broken(C15)", "nt": False}
        ideal = orc.flat_ideal_points(m, Q)
        where = "Hyperplane(%s) %s" % (_f(w), model)
        sym = False
    c, r = obj.sphere_parameters(model)
    c = np.asarray(c, dtype=float)
    through_origin = float(np.linalg.norm(m)) <= 1e-9
    cls = "k=1" if k == 1 else ("k>=2-symmetric-basis" if sym else "k>=2-generic-basis")
    key = "subspace/sphere_parameters/%s/%s" % (model, cls)
    if ctor != "Subspace":
        key = "subspace/sphere_parameters/%s/hyperplane-%s" % (model, "dim2" if n == 2 else "dim>=3")
    v = []
    if np.ndim(r) != 0 or c.shape != (n,):
        return {"v": [_V("subspace/sphere_parameters/%s/shape" % model, "%s: centre shape %r radius ndim %d" % (where, c.shape, np.ndim(r)))], "t": t}
    if orc.is_nonfinite_or_huge(r, HUGE) or not _finite(c):
        if not (model == "poincare" and through_origin):
            v.append(_V(key, "%s: centre %s radius %r although the subspace is a proper sphere in this model" % (where, _f(c), r)))
        return {"v": v, "t": t, "o": "%s|flat" % model, "nt": False}
    r = float(r)
    if model == "poincare":
        V = 1.0 / max(float(np.linalg.norm(m)), 1e-12) if not through_origin else 1.0
        tol = TAU * (1.0 + min(V, 1e9) + r)
    else:
        V = _hs_scale(n, ideal)
        tol = TAU * (1.0 + V + r) ** 2
    worst = max(abs(np.linalg.norm(hyp.klein_to(model, e) - c) - r) for e in ideal)
    if not worst <= tol:
        v.append(_V(key, "%s: centre %s radius %.9g: an ideal point of the subspace is %.3g off the sphere (tol %.2g)" % (where, _f(c), r, worst, tol)))
    if model == "halfspace":
        # the sphere reported in the boundary R^(n-1) of the half-space model (docstring: the (k-1)-sphere that is the ideal
        # boundary of the k-dimensional subspace): it contains the boundary coordinates of the subspace's ideal points
        from geometry_tools import GeometryError
        bkey = "subspace/boundary_sphere_parameters/%s" % ("k=n-1" if k == n - 1 else "k<n-1")
        t += 1
        try:
            bc, br = obj.boundary_sphere_parameters()
        except GeometryError as e:
            if "unique sphere through" not in str(e):
                raise
            v.append(_V(bkey, "%s: boundary_sphere_parameters() raises GeometryError: %s" % (where, e)))
            bc = None
        if bc is not None:
            bc = np.asarray(bc, dtype=float)
            if bc.shape != (n - 1,) or np.ndim(br) != 0 or not (_finite(bc) and math.isfinite(float(br))):
                v.append(_V(bkey, "%s: boundary_sphere_parameters() = centre %r radius %r" % (where, bc, br)))
            else:
                bw = max(abs(np.linalg.norm(hyp.klein_to(model, e)[:-1] - bc) - float(br)) for e in ideal)
                if not bw <= tol:
                    v.append(_V(bkey, "%s: boundary sphere centre %s radius %.9g: an ideal point of the subspace is %.3g off it (tol %.2g)" % (where, _f(bc), float(br), bw, tol)))
    return {"v": v, "t": t, "o": "%s|k%d|%s|%.1f" % (model, k, cls, min(r, 99.0)), "nt": True}


# ------------------------------------------------------------------------------------------
# composite segments: the vectorised answer at index i is the answer for the unit at index i
# (the single-object sections above decide the geometry; this section binds arrays to them)
# ------------------------------------------------------------------------------------------
def case_composite(case):
    from geometry_tools import hyperbolic as H
    n, model, deg, shape = case["n"], case["model"], case["deg"], case["shape"]
    pairs = case["pairs"]
    rows = np.array([[_row(a), _row(b)] for a, b in pairs], dtype=float)          # (N, 2, n+1)
    v, t = [], 1
    comp = H.Segment(rows.reshape(tuple(shape) + (2, n + 1)).copy())
    if n == 2:
        c, r, th = comp.circle_parameters(degrees=deg, model=model)
    else:
        c, r = comp.sphere_parameters(model=model)
        th = None
    ide = np.asarray(comp.ideal_endpoint_coords("projective"), dtype=float)
    c = np.asarray(c, dtype=float).reshape(len(pairs), -1)
    r = np.asarray(r, dtype=float).reshape(len(pairs))
    ide = ide.reshape(len(pairs), 2, n + 1)
    if th is not None:
        th = np.asarray(th, dtype=float).reshape(len(pairs), 2)
    for i in range(len(pairs)):
        single = H.Segment(rows[i].copy())
        t += 1
        if n == 2:
            c1, r1, th1 = single.circle_parameters(degrees=deg, model=model)
        else:
            c1, r1 = single.sphere_parameters(model=model)
            th1 = None
        r1 = float(r1)
        if not (np.isfinite(r1) and r1 < 1e3):
            continue                                  # straight-line limit: only the radius class is defined
        scale = (1.0 + r1) ** 2
        if not np.max(np.abs(c[i] - np.ravel(c1))) <= 1e-6 * scale or not abs(r[i] - r1) <= 1e-6 * scale:
            v.append(_V("composite/%s/centre-radius" % model, "Segment array of shape %s, unit %d = %s: centre %s radius %.9g, single object gives %s %.9g"
                        % (tuple(shape), i, _f(pairs[i]), _f(c[i]), r[i], _f(c1), r1)))
        if th1 is not None:
            full = 360.0 if deg else 2 * np.pi
            d = np.abs((th[i] - np.ravel(th1) + full / 2) % full - full / 2)
            if not np.max(d) <= (1e-5 * (180 / np.pi if deg else 1.0)) * scale:
                v.append(_V("composite/%s/angles" % model, "Segment array of shape %s, unit %d = %s: angles %s, single object gives %s"
                            % (tuple(shape), i, _f(pairs[i]), _f(th[i]), _f(th1))))
        i1 = np.asarray(single.ideal_endpoint_coords("projective"), dtype=float)
        if not float(np.max(hyp.proj_sin_err(ide[i], i1))) <= 1e-7:
            v.append(_V("composite/ideal-endpoints", "Segment array of shape %s, unit %d: ideal endpoints %s vs single %s" % (tuple(shape), i, _f(ide[i]), _f(i1))))
    return {"v": v, "t": t, "o": "%s|%s|%d|%d" % (model, tuple(shape), n, len(v)), "nt": len(pairs) > 1}


def case_polygon(case):
    """Polygon.circle_parameters reports the circles of the polygon's edge segments (in the order of the
    vertices, the last edge closing up), with and without flatten, in degrees or radians: each edge is
    bound to the answer of the single Segment(v_i, v_{i+1}), itself decided by the pairs sections."""
    from geometry_tools import hyperbolic as H
    model, deg, flatten, shape = case["model"], case["deg"], case["flatten"], tuple(case["shape"])
    polys = case["polys"]                                  # N polygons, each k Klein points of H^2
    k = len(polys[0])
    rows = np.array([[_row(x) for x in pg] for pg in polys], dtype=float)          # (N, k, 3)
    v, t = [], 1
    poly = H.Polygon(rows.reshape(shape + (k, 3)).copy())
    where = "Polygon array of shape %s with %d vertices, %s, degrees=%r, flatten=%r" % (shape, k, model, deg, flatten)
    try:
        out = poly.circle_parameters(degrees=deg, model=model, flatten=flatten)
    except TypeError as e:
        return {"v": [_V("polygon/circle_parameters/raises", "%s: %s" % (where, e))], "t": 1}
    c, r, th = (np.asarray(x, dtype=float) for x in out)
    lead = (len(polys) * k,) if flatten else shape + (k,)
    if c.shape != lead + (2,) or r.shape != lead or th.shape != lead + (2,):
        return {"v": [_V("polygon/circle_parameters/shape", "%s: shapes %r %r %r, expected leading axes %r"
                         % (where, c.shape, r.shape, th.shape, lead))], "t": 1}
    c, r, th = c.reshape(-1, 2), r.reshape(-1), th.reshape(-1, 2)
    full = 360.0 if deg else 2 * np.pi
    for i in range(len(polys)):
        for j in range(k):
            single = H.Segment(np.array([rows[i, j], rows[i, (j + 1) % k]]))
            c1, r1, th1 = single.circle_parameters(degrees=deg, model=model)
            t += 1
            r1 = float(r1)
            u = i * k + j
            if not (np.isfinite(r1) and r1 < 1e3):
                continue
            scale = (1.0 + r1) ** 2
            if not np.max(np.abs(c[u] - np.ravel(c1))) <= 1e-6 * scale or not abs(r[u] - r1) <= 1e-6 * scale:
                v.append(_V("polygon/%s/centre-radius" % model, "%s, polygon %d edge %d: centre %s radius %.9g, the edge segment alone gives %s %.9g"
                            % (where, i, j, _f(c[u]), r[u], _f(c1), r1)))
            d = np.abs((th[u] - np.ravel(th1) + full / 2) % full - full / 2)
            if not np.max(d) <= (1e-5 * (180 / np.pi if deg else 1.0)) * scale:
                v.append(_V("polygon/%s/angles" % model, "%s, polygon %d edge %d: angles %s, the edge segment alone gives %s"
                            % (where, i, j, _f(th[u]), _f(th1))))
    return {"v": v[:4], "t": t, "o": "%s|%s|%d|%r|%d" % (model, shape, k, flatten, len(v)), "nt": True}


def polygon_cases(q, seed):
    P, I = _alphabet(2, True, seed)
    pts = [list(map(float, x)) for x in P[:7]]
    for k in (3, 4, 5):
        tuples = [list(c) for c in itertools.permutations(pts, k)]
        tuples = tuples[::(7 if k == 3 else 40 if k == 4 else 240)] if q else tuples[::(2 if k == 3 else 8 if k == 4 else 40)]
        for (size, shape) in ((1, []), (2, [2]), (4, [2, 2])):
            blocks = [tuples[i:i + size] for i in range(0, len(tuples) - size + 1, size)]
            for blk in blocks:
                for model in MODELS:
                    for deg in (True, False):
                        for flatten in (False, True):
                            yield {"polys": blk, "shape": shape, "model": model, "deg": deg, "flatten": flatten}


def composite_cases(q, seed):
    """Blocks of consecutive ordered pairs of the lattice, packed as composite Segments of several shapes."""
    for n in ((2, 3) if q else (2, 3, 4)):
        P, I = _alphabet(n, True, seed)
        pts = [list(map(float, x)) for x in P[:8] + I[:4]]
        allpairs = [[a, b] for a, b in itertools.permutations(pts, 2)]
        for (size, shape) in ((6, [6]), (6, [2, 3]), (4, [2, 1, 2]), (1, [1])):
            blocks = [allpairs[i:i + size] for i in range(0, len(allpairs) - size + 1, size)]
            if q:
                blocks = blocks[::2]
            for blk in blocks:
                for model in MODELS:
                    for deg in ((True, False) if n == 2 else (False,)):
                        yield {"n": n, "pairs": blk, "shape": shape, "model": model, "deg": deg}


# ------------------------------------------------------------------------------------------
# histories: an answer must depend on the object's current data only (differential oracle, mc/diffhist.py)
# ------------------------------------------------------------------------------------------
HIST_OPS = ["q-circle", "q-ideal", "move0", "move1", "rebuild", "index0", "flatten"]


def _hist_iso(H, n, which):
    u = lattice.generic_dir(n, 11 + which, 0)
    g = H.Point(hyp.klein_to_projective((0.45 if which == 0 else -0.6) * u)).origin_to()
    return g @ H.Isometry.standard_rotation(0.7 + which, dimension=n) if n >= 2 else g


def _hist_queries(H, obj, n, kind):
    out = []
    if kind in ("Segment", "Geodesic"):
        if n == 2:
            # degrees first, then radians, then degrees again on the same object: the unit conversion must not
            # leak from one answer into the next (or into arrays already handed to the caller)
            # (consecutively for one model, then the other; and once more interleaved)
            for m in MODELS:
                out += [("circle_parameters-deg-%s" % m, (lambda m=m: obj.circle_parameters(degrees=True, model=m))),
                        ("circle_parameters-%s" % m, (lambda m=m: obj.circle_parameters(degrees=False, model=m))),
                        ("circle_parameters-deg2-%s" % m, (lambda m=m: obj.circle_parameters(degrees=True, model=m)))]
            out += [("circle_parameters-again-%s" % m, (lambda m=m: obj.circle_parameters(degrees=False, model=m))) for m in MODELS]
        out += [("sphere_parameters-%s" % m, (lambda m=m: obj.sphere_parameters(model=m))) for m in MODELS]
        out += [("ideal_endpoint_coords-%s" % m, (lambda m=m: obj.ideal_basis_coords(m))) for m in ("klein", "poincare", "projective")]
    elif kind == "Horosphere":
        out += [("sphere_parameters-%s" % m, (lambda m=m: obj.sphere_parameters(model=m))) for m in MODELS]
    elif kind == "Subspace":
        out += [("sphere_parameters-%s" % m, (lambda m=m: obj.sphere_parameters(model=m))) for m in MODELS]
        out += [("ideal_basis_coords-klein", lambda: obj.ideal_basis_coords("klein"))]
    return out


def case_history(case):
    from geometry_tools import hyperbolic as H
    from mc import diffhist
    n, kind, data, ops = case["n"], case["kind"], np.array(case["data"], dtype=float), case["ops"]
    Cls = getattr(H, kind)
    obj = Cls(data.copy())
    v, t = [], 1
    for op in ops:
        t += 1
        if op.startswith("q-"):
            for nm, f in _hist_queries(H, obj, n, kind):
                if (op == "q-circle") == ("parameters" in nm):
                    f()
        elif op in ("move0", "move1"):
            obj = _hist_iso(H, n, int(op[-1])) @ obj
        elif op == "rebuild":
            obj = Cls(obj)
        elif op == "index0":
            if len(obj.shape) == 0:
                return {"v": [], "t": t, "o": "n/a", "nt": False}
            obj = obj[0]
        elif op == "flatten":
            obj = obj.flatten_to_unit()
    if type(obj) is not Cls:
        return {"v": [_V("history/type/%s" % kind, "after %r the object is a %s" % (ops, type(obj).__name__))], "t": t}
    fresh = Cls(np.array(obj.proj_data))
    handed = []
    for (nm, f), (_, g) in zip(_hist_queries(H, obj, n, kind), _hist_queries(H, fresh, n, kind)):
        r_obj, r_fresh = f(), g()
        got, want = diffhist.flatten_result(r_obj), diffhist.flatten_result(r_fresh)
        handed.append((nm, got, [(k, np.array(a, copy=True)) for k, a in got]))
        t += 2
        if nm.startswith("circle_parameters") and not v:
            # the angle pair itself (dropped by the generic comparison because of its noise class) must at least be
            # in the unit asked for: degrees = radians * 180/pi for the same object, compared modulo a full turn
            th_o, th_f = np.asarray(r_obj[2], dtype=float), np.asarray(r_fresh[2], dtype=float)
            full = 360.0 if "deg" in nm else 2 * np.pi
            dlt = np.abs((th_o - th_f + full / 2) % full - full / 2)
            rr = np.asarray(r_fresh[1], dtype=float)
            ok = np.isfinite(rr) & (rr < 50.0)
            if np.any(ok) and not np.all(dlt[ok] <= 1e-4 * full):
                v.append(_V("history/%s/angle-units/after-%s" % (kind, ops[-1] if ops else "construct"),
                            "H^%d %s after %r: %s angles %r, fresh object %r" % (n, kind, ops, nm, th_o.tolist(), th_f.tolist())))
                break
        if not diffhist.same_result(got, want, nm):
            v.append(_V("history/%s/%s/after-%s" % (kind, nm.split("-")[0], ops[-1] if ops else "construct"),
                        "H^%d %s after %r: %s differs from the same query on a fresh object with the same data:\n%r\nfresh\n%r" % (n, kind, ops, nm, got, want)))
            break
    if not v and n == 2 and kind in ("Segment", "Geodesic"):
        # degrees, radians and degrees again on the SAME object: one geometry, two units
        byname = {nm: got for nm, got, _ in handed}
        for m in MODELS:
            try:
                deg = np.asarray(byname["circle_parameters-deg-%s" % m][2][1], dtype=float)
                rad = np.asarray(byname["circle_parameters-%s" % m][2][1], dtype=float)
                deg2 = np.asarray(byname["circle_parameters-deg2-%s" % m][2][1], dtype=float)
                rr = np.asarray(byname["circle_parameters-%s" % m][1][1], dtype=float)
            except (KeyError, IndexError):
                continue
            ok = np.isfinite(rr) & (rr < 50.0)
            d1 = np.abs((deg - rad * 180.0 / np.pi + 180.0) % 360.0 - 180.0)
            d2 = np.abs((deg2 - deg + 180.0) % 360.0 - 180.0)
            if np.any(ok) and not (np.all(d1[ok] <= 1e-6) and np.all(d2[ok] <= 1e-6)):
                v.append(_V("history/%s/degrees-vs-radians/%s" % (kind, m),
                            "H^%d %s after %r: circle_parameters angles in degrees %r, in radians %r, in degrees again %r" % (
                                n, kind, ops, deg.tolist(), rad.tolist(), deg2.tolist())))
                break
    if not v:
        for nm, arrs, snaps in handed:
            for (k, a), (_, b) in zip(arrs, snaps):
                if a.shape != b.shape or not np.array_equal(a, b, equal_nan=True):
                    v.append(_V("history/%s/returned-array-rewritten" % kind, "H^%d %s after %r: the array returned by %s was changed by a later query" % (n, kind, ops, nm)))
                    break
            if v:
                break
    return {"v": v, "t": t, "o": "%s|%d|%s|%d" % (kind, n, "-".join(ops), len(v)), "nt": len(ops) > 0}


def history_cases(q, seed):
    depth = 3
    seqs = [list(s) for d in range(1, depth + 1) for s in itertools.product(HIST_OPS, repeat=d)
            if any(o.startswith("q-") for o in s[:-1]) and not s[-1].startswith("q-")]
    for n in (2, 3):
        P, I = _alphabet(n, True, seed)
        a, b, c = [_row(x) for x in (P[3], P[6], P[8])]
        i1, i2, i3 = [_row(x) for x in (I[0], I[2], I[3])]
        roots = [("Segment", [a, b]), ("Segment", [[a, b], [b, c]]), ("Segment", [a, i1]),
                 ("Geodesic", [i1, i2]), ("Geodesic", [[i1, i2], [i2, i3]]),
                 ("Horosphere", [i1, a]), ("Horosphere", [[i1, a], [i2, b]])]
        if n == 3:
            roots.append(("Subspace", [i1, i2, i3]))
        for kind, data in roots:
            for ops in seqs:
                if "index0" in ops and np.array(data).ndim < 3:
                    continue
                yield {"n": n, "kind": kind, "data": data, "ops": ops}


# ------------------------------------------------------------------------------------------
# enumeration
# ------------------------------------------------------------------------------------------
DEEP = False          # set by run() in the parent process only (cases carry their data)


def _alphabet(n, q, seed):
    big = (120 if n == 2 else 40) if DEEP else (30 if n == 2 else 16)
    bigi = (30 if n == 2 else 16) if DEEP else (12 if n == 2 else 8)
    P = lattice.klein_points(n, m_generic=6 if q else big, seed=seed, rmax=0.9 if q else 0.99)
    I = lattice.ideal_dirs(n, m_generic=4 if q else bigi, seed=seed, avoid_infinity=INF_MARGIN)
    return P, I


def _is_ideal(x):
    return abs(float(np.dot(x, x)) - 1.0) < 1e-12


def pair_cases(n, q, seed):
    P, I = _alphabet(n, q, seed)
    pts = [list(map(float, x)) for x in P + I]
    for a, b in itertools.permutations(pts, 2):
        both_ideal = _is_ideal(a) and _is_ideal(b)
        classes = ["Segment", "Segment.geodesic"] + (["Geodesic"] if both_ideal else [])
        if n == 2 or not q:
            classes.append("Segment(array)")
        for model in MODELS:
            for cls in classes:
                for deg in ((True, False) if n == 2 else (False,)):
                    yield {"n": n, "a": a, "b": b, "model": model, "deg": deg, "cls": cls}


SEPARATIONS = [1e-3, 1e-5, 1e-7]


def close_pair_cases(n, seed):
    """Pairs of interior points at Klein separation 1e-3, 1e-5, 1e-7 around the first 12 lattice points (the corner
    points and 4 generic ones), in 2 generic directions each, in both orders."""
    P, I = _alphabet(n, False, seed)
    for i, a in enumerate(P[:12]):
        for kdir in range(2):
            u = lattice.generic_dir(n, 80 + 2 * i + kdir, seed)
            for d in SEPARATIONS:
                b = a + d * u
                if not float(b @ b) < 0.995:
                    b = a - d * u
                A, B = list(map(float, a)), list(map(float, b))
                for x, y in ((A, B), (B, A)):
                    for model in MODELS:
                        for cls in ("Segment", "Segment(array)", "Segment.geodesic"):
                            for deg in ((True, False) if n == 2 else (False,)):
                                yield {"n": n, "a": x, "b": y, "model": model, "deg": deg, "cls": cls}


def limit_cases(q, seed):
    """exact and near straight-line limits that the lattice does not contain by itself."""
    for n in (2, 3):
        for kdir in range(2 if q else 5):
            u = lattice.generic_dir(n, 40 + kdir, seed)
            w = lattice.generic_dir(n, 60 + kdir, seed)
            w = w - (w @ u) * u
            w = w / np.linalg.norm(w)
            # near diameters of the Poincare ball (and one exact one in a generic direction)
            for delta in (0.0, 1e-2, 1e-4) + (() if q else (1e-3, 1e-5)):
                A = 0.5 * u
                B = -0.3 * u + delta * w
                for cls in ("Segment", "Segment.geodesic"):
                    for deg in ((True, False) if n == 2 else (False,)):
                        yield {"n": n, "a": list(map(float, A)), "b": list(map(float, B)), "model": "poincare", "deg": deg, "cls": cls}
                        yield {"n": n, "a": list(map(float, B)), "b": list(map(float, A)), "model": "poincare", "deg": deg, "cls": cls}
            # vertical and near-vertical lines of the half-space: Klein lines through e1
            e1 = orc.infinity(n)
            inward = -math.cos(0.5 + 0.2 * kdir) * e1 + math.sin(0.5 + 0.2 * kdir) * (w - (w @ e1) * e1) / np.linalg.norm(w - (w @ e1) * e1)
            smax = 2.0 * math.cos(0.5 + 0.2 * kdir)      # e1 + s inward is inside the ball for 0 < s < smax
            for delta in (0.0, 1e-2) + (() if q else (1e-3, 0.1)):
                A = e1 + 0.3 * smax * inward
                B = e1 + 0.75 * smax * inward + delta * u
                if not (float(A @ A) < 0.98 and float(B @ B) < 0.98):
                    continue
                for cls in ("Segment", "Segment.geodesic"):
                    for deg in ((True, False) if n == 2 else (False,)):
                        yield {"n": n, "a": list(map(float, A)), "b": list(map(float, B)), "model": "halfspace", "deg": deg, "cls": cls}
                        yield {"n": n, "a": list(map(float, B)), "b": list(map(float, A)), "model": "halfspace", "deg": deg, "cls": cls}


def horo_cases(q, seed):
    for n in (2, 3, 4):
        P, I = _alphabet(n, q, seed)
        I0 = lattice.ideal_dirs(n, m_generic=4 if q else 8, seed=seed, avoid_infinity=0.0)
        for model in MODELS:
            for xi in (I0 if model == "poincare" else I):
                for p in P:
                    for ctor in ("pair", "array"):
                        yield {"n": n, "xi": list(map(float, xi)), "ref": list(map(float, p)), "model": model, "ctor": ctor}


PHIS = [0.7, -0.7, 2.0, -2.0, 3.0, 4.4]


def case_horoarc_composite(case):
    """A composite HorosphereArc of several DIFFERENT arcs: every unit of circle_parameters is bound to the
    answer of the single arc (decided by section horosphere-arcs)."""
    from geometry_tools import hyperbolic as H
    model, deg, shape = case["model"], case["deg"], tuple(case["shape"])
    units = case["units"]
    X, P1, P2 = [], [], []
    for u in units:
        xi, p1 = np.array(u["xi"], dtype=float), np.array(u["p1"], dtype=float)
        p2, gap = _horo_second_point(xi, p1, u["phi"])
        X.append(_row(xi)); P1.append(_row(p1)); P2.append(_row(p2))
    rs = lambda A: np.array(A, dtype=float).reshape(shape + (3,))
    comp = H.HorosphereArc(H.Point(rs(X)), H.Point(rs(P1)), H.Point(rs(P2)))
    where = "HorosphereArc composite of shape %r (%s, degrees=%r)" % (shape, model, deg)
    c, r, th = (np.asarray(x, dtype=float) for x in comp.circle_parameters(model=model, degrees=deg))
    if c.shape != shape + (2,) or r.shape != shape or th.shape != shape + (2,):
        return {"v": [_V("horoarc/composite/shape", "%s: shapes %r %r %r" % (where, c.shape, r.shape, th.shape))], "t": 1}
    c, r, th = c.reshape(-1, 2), r.reshape(-1), th.reshape(-1, 2)
    v, t = [], 1
    full = 360.0 if deg else 2 * math.pi
    for i in range(len(units)):
        single = H.HorosphereArc(H.Point(np.array(X[i])), H.Point(np.array(P1[i])), H.Point(np.array(P2[i])))
        c1, r1, th1 = (np.asarray(x, dtype=float) for x in single.circle_parameters(model=model, degrees=deg))
        t += 1
        scale = (1.0 + float(r1)) ** 2
        if not np.max(np.abs(c[i] - c1)) <= 1e-6 * scale or not abs(r[i] - float(r1)) <= 1e-6 * scale:
            v.append(_V("horoarc/composite/%s/centre-radius" % model, "%s, unit %d: centre %s radius %.9g, the single arc gives %s %.9g" % (where, i, _f(c[i]), r[i], _f(c1), float(r1))))
        d = np.abs((th[i] - np.ravel(th1) + full / 2) % full - full / 2)
        if not np.max(d) <= (1e-5 * (180 / math.pi if deg else 1.0)) * scale:
            v.append(_V("horoarc/composite/%s/angles" % model, "%s, unit %d (centre %s): angles %s, the single arc gives %s" % (where, i, _f(units[i]["xi"]), _f(th[i]), _f(th1))))
    return {"v": v[:4], "t": t, "o": "%s|%r|%d" % (model, shape, len(v)), "nt": True}


def horoarc_composite_cases(q, seed):
    base = [c for c in horoarc_cases(True, seed) if c["layout"] == "single" and c["model"] == MODELS[0] and c["deg"]]
    # consecutive cases share the ideal centre: stride through the list so that the units of one object differ in everything
    stride = max(1, len(base) // 7)
    order = [base[(i * stride + i // 7) % len(base)] for i in range(len(base))]
    for (size, shape) in ((3, [3]), (4, [2, 2]), (3, [3, 1]), (2, [1, 2])):
        blocks = [order[i:i + size] for i in range(0, len(order) - size + 1, size)]
        for blk in (blocks[::4] if q else blocks):
            for model in MODELS:
                for deg in (True, False):
                    yield {"units": [{"xi": u["xi"], "p1": u["p1"], "phi": u["phi"]} for u in blk], "shape": shape, "model": model, "deg": deg}


def horoarc_cases(q, seed):
    P, I = _alphabet(2, q, seed)
    for xi in I:
        for p in P:
            for phi in PHIS:
                p2, gap = _horo_second_point(np.array(xi), np.array(p), phi)
                if gap < 0.3 or float(p2 @ p2) > 0.9999:
                    continue      # second endpoint too close to the ideal centre
                for model in MODELS:
                    for deg in (True, False):
                        for layout in ("single", "composite"):
                            yield {"xi": list(map(float, xi)), "p1": list(map(float, p)), "phi": phi, "model": model, "deg": deg, "layout": layout}


NORMALS = {2: [[0.5, 1.2, -0.4], [0.0, 1.0, 0.5], [-0.4, 0.5, 1.2], [0.3, -1.0, 0.1]],
           3: [[0.5, 1.2, -0.4, 0.3], [0.0, 1.0, 0.5, -0.4], [-0.4, 0.5, 1.2, 1.0], [0.3, -1.0, 0.1, 0.7], [0.2, 0.1, 0.9, -0.5]],
           4: [[0.5, 1.2, -0.4, 0.3, 0.1], [0.0, 1.0, 0.5, -0.4, 0.7], [-0.4, 0.5, 1.2, 1.0, -0.3]]}


def subspace_cases(q, seed):
    for n in (2, 3, 4):
        I = lattice.ideal_dirs(n, m_generic=4 if q else 6, seed=seed, avoid_infinity=INF_MARGIN)
        I0 = lattice.ideal_dirs(n, m_generic=4 if q else 6, seed=seed, avoid_infinity=0.0)
        e1 = orc.infinity(n)
        for k in range(1, n):
            for model in MODELS:
                for basis in itertools.combinations(I0 if model == "poincare" else I, k + 1):
                    K = np.array(basis)
                    m, Q, cond = orc.flat_frame(K)
                    if cond < 1e-3:
                        continue          # ideal points not affinely independent: not a basis
                    if model == "halfspace" and orc.flat_min_angle_to(m, Q, e1) < INF_MARGIN:
                        continue          # the subspace comes too close to the point at infinity
                    yield {"n": n, "model": model, "ctor": "Subspace", "basis": [list(map(float, x)) for x in basis]}
        for w in NORMALS[n]:
            m, Q = orc.hyperplane_flat(np.array(w))
            for model in MODELS:
                if model == "halfspace" and orc.flat_min_angle_to(m, Q, e1) < INF_MARGIN:
                    continue
                yield {"n": n, "model": model, "ctor": "Hyperplane", "normal": w}


def run(ctx):
    # the full exploration takes ~10 s on 16 cores, so the quick tier runs the thorough bounds as well
    q, seed = False, ctx.seed
    global DEEP
    DEEP = not ctx.quick          # thorough tier: about twice as many lattice points per dimension
    only = getattr(ctx, "only", None)

    def want(name):
        return not only or any(name.startswith(p) for p in only)

    ctx.rule = ("engine P: every ordered pair of distinct points of the Klein lattice P_n u I_n (corner + irrational-lattice "
                "points, |k| <= %.2f, ideal directions >= 0.2 rad from the half-space point at infinity) x model x unit x "
                "construction; every (ideal centre, reference) pair; every (k+1)-subset of I_n as an ideal basis; a case is "
                "non-trivial when the object is not a straight line of the model (those only have the radius class checked)"
                % (0.9 if q else 0.99))
    ctx.assume("points are given by their Klein representative (x0 = 1); rescaled representatives belong to C12")
    ctx.assume("half-space: circle equations at tolerance 1e-6 (1+V)^2, V = largest half-space coordinate of the ideal endpoints "
               "(oracle); the pairs whose geodesic ends within 0.2 rad of the point at infinity are thereby only checked to that scale")
    ctx.assume("the angle pair of a half-space geodesic that ends within 0.2 rad of the point at infinity is not checked "
               "(its sign is below the sqrt-eps noise of the centre height); its circle equations are")
    ctx.assume("exact straight lines (Poincare diameters: Klein line within 1e-12 of the origin; half-space verticals: an ideal "
               "endpoint within 1e-9 rad of infinity) must report a NaN/inf or > 1e6 radius; nothing else is demanded of them")
    ctx.assume("ideal bases of subspaces are affinely independent (relative singular value >= 1e-3); half-space subspaces stay "
               ">= 0.2 rad from the point at infinity")
    ctx.assume("HorosphereArc endpoints lie on one horosphere (second endpoint constructed by the oracle on the Poincare horocircle), "
               ">= 0.3 rad away from the ideal centre")
    ctx.assume("Poincare subspaces through the origin may report a non-finite radius (flat limit)")
    ctx.assume("boundary_sphere_parameters (the sphere in the boundary R^(n-1) of the half-space model) is 'the sphere reported for a totally geodesic subspace': "
               "it must contain the boundary coordinates of the subspace's ideal points, for every k = 1..n-1 (its docstring: the (k-1)-sphere of a k-dimensional subspace); "
               "same tolerance as the half-space sphere")
    ctx.tolerances["ideal endpoints (Klein)"] = ("relative Minkowski norm max(1e-9, 128 eps/|A-B|), collinearity max(1e-8, 128 eps/|A-B|), against the oracle chord ends "
                                                 "max(1e-7, 256 eps/|A-B|): two points determine their line to eps/|A-B|; measured on the library with a cancellation-free "
                                                 "discriminant: residual <= 12 eps/|A-B| for |A-B| = 1e-1 .. 1e-8 (the quadratic formula on Minkowski products of size 1 gave 2 eps/|A-B|^2)")
    ctx.tolerances["poincare circle"] = ("(1+V) max(1e-6, 1e3 eps/|A-B|), V = 1/dist(origin, Klein line) ~ |centre|: sqrt-eps class (Poincare coordinates of ideal points carry 1e-8), "
                                         "scaled by the size of the circle; measured <= 6 eps (1+V)/|A-B| for close endpoints")
    ctx.tolerances["halfspace circle"] = ("(1+V)^2 max(1e-6, 8 sqrt(eps/|A-B|)), V = max half-space coordinate of the ideal endpoints: DESIGN section 4 sqrt-eps class; the centre is computed from "
                                          "the half-space coordinates of the ideal endpoints, i.e. from the square root of their null-cone residual eps/|A-B|: measured <= 0.4 sqrt(eps/|A-B|) (1+V)^2")
    ctx.tolerances["arc ends of a geodesic"] = "the circle tolerance, at least (1+V)^(1|2) 8 sqrt(eps/|A-B|): conformal coordinates of ideal endpoints that are null to eps/|A-B|"
    ctx.tolerances["arc on segment"] = "Klein collinearity and betweenness at the circle tolerance; |d(A,x)+d(x,B)-d(A,B)| <= 1e-6 (1+d)^2 in the model's closed-form metric"
    ctx.tolerances["straight-line limit"] = "radius NaN/inf or > 1e6 (drawtools switches to a straight line on isnan or r > 80)"
    dom = {"P_n": "corner + %s generic Klein points" % ("6" if q else "30 (n=2) / 16"), "I_n": "axis, diagonal and %s generic ideal directions" % ("4" if q else "12 (n=2) / 8"),
           "models": MODELS}
    if want("pairs-H2"):
        cases = list(pair_cases(2, q, seed))
        ctx.product("pairs-H2", "checks.c14:case_pair", cases, chunk=64,
                    domains=dict(dom, units=["degrees", "radians"], classes=["Segment", "Segment(array)", "Segment.geodesic", "Geodesic"]))
    for n in (3, 4):
        if want("pairs-H%d" % n):
            cases = list(pair_cases(n, q, seed))
            ctx.product("pairs-H%d" % n, "checks.c14:case_pair", cases, chunk=64, domains=dom)
    if want("close-pairs"):
        cases = [c for n in (2, 3, 4) for c in close_pair_cases(n, seed)]
        ctx.product("close-pairs", "checks.c14:case_pair", cases, chunk=64,
                    domains={"n": [2, 3, 4], "first endpoint": "the first 12 points of P_n (corner points and 4 generic ones)",
                             "second endpoint": "first + d u, d in %s, u 2 generic directions per point; both orders" % SEPARATIONS,
                             "models": MODELS, "classes": ["Segment", "Segment(array)", "Segment.geodesic"],
                             "keys": "the keys of the pairs sections with the suffix /close-endpoints"})
    if want("composite"):
        ctx.product("composite-segments", "checks.c14:case_composite", list(composite_cases(q, seed)), chunk=8,
                    domains={"n": [2, 3] if q else [2, 3, 4], "shapes": [[6], [2, 3], [2, 1, 2], [1]], "pairs": "consecutive blocks of all ordered pairs of 12 lattice points",
                             "oracle": "the single-object answer for each unit (itself decided by the sections above)"})
    if want("polygon"):
        ctx.product("polygon-edges", "checks.c14:case_polygon", list(polygon_cases(q, seed)), chunk=16,
                    domains={"vertices": "ordered 3-, 4-, 5-tuples of 7 lattice points of H^2 (every 7th / 40th / 240th in quick)",
                             "shapes": [[], [2], [2, 2]], "flatten": [False, True], "units": ["degrees", "radians"],
                             "oracle": "Segment(v_i, v_i+1).circle_parameters for each edge (decided by pairs-H2)"})
    if want("histories"):
        ctx.product("histories", "checks.c14:case_history", list(history_cases(q, seed)), chunk=32,
                    domains={"ops": HIST_OPS, "sequences": "all op sequences of length <= 3 that contain a query before the last (non-query) op",
                             "roots": "Segment / Geodesic / Horosphere single and (2,), Segment with an ideal endpoint, Subspace (n=3); n = 2, 3",
                             "oracle": "the same query on a fresh object built from the current primary data (mc/diffhist.py)"})
    if want("limits"):
        ctx.product("limits", "checks.c14:case_pair", list(limit_cases(q, seed)), chunk=16,
                    domains={"poincare": "A = 0.5u, B = -0.3u + delta w, delta in {0, 1e-2 .. 1e-5}", "halfspace": "Klein lines through e1 (+ delta u)"})
    if want("horospheres"):
        ctx.product("horospheres", "checks.c14:case_horo", list(horo_cases(q, seed)), chunk=64,
                    domains={"n": [2, 3, 4], "centre": "I_n (Poincare: incl. e1)", "reference": "P_n", "ctor": ["pair", "array"]})
    if want("horosphere-arcs"):
        ctx.product("horosphere-arcs", "checks.c14:case_horoarc", list(horoarc_cases(q, seed)), chunk=64,
                    domains={"centre": "I_2", "p1": "P_2", "phi": PHIS, "layout": ["single", "composite"], "units": ["degrees", "radians"]})
    if want("horosphere-arcs"):
        ctx.product("horosphere-arcs-composite", "checks.c14:case_horoarc_composite", list(horoarc_composite_cases(ctx.quick, seed)), chunk=16,
                    domains={"shapes": [[3], [2, 2], [3, 1], [1, 2]], "units": "strided blocks of the valid single arcs (different ideal centres, reference points and openings inside one object)",
                             "oracle": "the single arc's answer for each unit (section horosphere-arcs)"})
    if want("subspaces"):
        ctx.product("subspaces", "checks.c14:case_subspace", list(subspace_cases(q, seed)), chunk=64,
                    domains={"n": [2, 3, 4], "k": "1..n-1", "basis": "all (k+1)-subsets of I_n", "hyperplane normals": sum(len(x) for x in NORMALS.values()),
                             "calls": ["sphere_parameters(model)", "boundary_sphere_parameters() (half-space cases)"]})
