"""C12 - results are independent of number packaging and of homogeneous rescaling.

Engine P.  (a) packaging: (entry point, value, packaging) - every packaging of the same real
value must give numerically the same, floating-point, usable result;  (b) rescaling:
(geometric function, lattice input, per-unit lambda pattern) - every lambda pattern must give
the same geometry as the unscaled input;  (c) integer-valued homogeneous coordinates in every packaging;  (d) the
module-level coordinate functions on single matrices and composites of points laid out as rows and as columns
(column_vectors=True), under per-point rescaling.
"""
import itertools
import math

import numpy as np

from mc import lattice
from mc.oracle import hyp

TOL = 1e-9
TOL32 = 2e-5          # float32 packaging carries 6e-8 relative input error, amplified by cosh <= 10
TOL_IDEAL = 1e-6      # sqrt-class (DESIGN 4.3)


# =============================================================================================
# (a) packaging
# =============================================================================================
def pack_scalar(v, how):
    if how == "pyfloat":
        return float(v)
    if how == "npfloat64":
        return np.float64(v)
    if how == "npfloat32":
        return np.float32(v)
    if how == "arr0d":
        return np.array(float(v))
    if how == "arr0d32":
        return np.array(v, dtype=np.float32)
    if how == "pyint":
        return int(v)
    if how == "npint64":
        return np.int64(v)
    if how == "npint32":
        return np.int32(v)
    if how == "arr0d_int":
        return np.array(int(v))
    raise ValueError(how)


SCALAR_PACKS = ["pyfloat", "npfloat64", "npfloat32", "arr0d", "arr0d32"]
INT_PACKS = ["pyint", "npint64", "npint32", "arr0d_int"]


def pack_array(v, how):
    a = np.array(v, dtype=float)
    if how == "list":
        return a.tolist()
    if how == "tuple":
        def tup(x):
            return tuple(tup(y) for y in x) if isinstance(x, list) else x
        return tup(a.tolist())
    if how == "ndarray64":
        return a.copy()
    if how == "ndarray32":
        return a.astype(np.float32)
    if how == "list_npfloat":
        def cv(x):
            return [cv(y) for y in x] if isinstance(x, list) else np.float64(x)
        return cv(a.tolist())
    if how == "list_of_rows":
        return [np.array(r) for r in a] if a.ndim >= 2 else [np.float64(x) for x in a]
    if how == "mixed_literal":          # e.g. [[2., 0], [0, .5]] - int literals among floats
        def cv(x):
            if isinstance(x, list):
                return [cv(y) for y in x]
            return int(x) if float(x).is_integer() and x == 0 else float(x)
        return cv(a.tolist())
    if how == "fortran":
        return np.asfortranarray(a)
    if how == "list_int":
        return a.astype(int).tolist()
    if how == "ndarray_int":
        return a.astype(np.int64)
    if how == "ndarray_int32":
        return a.astype(np.int32)
    raise ValueError(how)


ARRAY_PACKS = ["list", "tuple", "ndarray64", "ndarray32", "list_npfloat", "list_of_rows", "mixed_literal", "fortran"]
ARRAY_INT_PACKS = ["list_int", "ndarray_int", "ndarray_int32"]


def _is32(how):
    return "32" in how


def _data(x):
    return x.proj_data if hasattr(x, "proj_data") else np.asarray(x)


def _rot(theta):
    c, s = math.cos(theta), math.sin(theta)
    return np.array([[c, -s], [s, c]])


def _block(n, blk):
    m = np.eye(n + 1)
    k = blk.shape[0]
    m[1:1 + k, 1:1 + k] = blk
    return m


# entry -> (kind, values, function(packaged) -> result, expected(value) or None, must_float, postops)
def _entries():
    from geometry_tools import hyperbolic as H, projective as PR, utils, coxeter
    E = {}
    angles = [0.3, -2.1, 1.0, 3.0, 0.0]
    E["utils.rotation_matrix"] = ("scalar", angles, lambda a: utils.rotation_matrix(a),
                                  lambda v: _rot(v), True)
    for dim in (2, 3):
        E["Isometry.standard_rotation/dim%d" % dim] = (
            "scalar", angles, (lambda d: lambda a: H.Isometry.standard_rotation(a, dimension=d))(dim),
            (lambda d: lambda v: _block(d, _rot(v)).T)(dim), True)
    E["Isometry.standard_loxodromic"] = (
        "scalar", [1.5, 0.4, 2.0, 3.0], lambda a: H.Isometry.standard_loxodromic(2, a),
        lambda v: np.array([[(v + 1 / v) / 2, (v - 1 / v) / 2, 0], [(v - 1 / v) / 2, (v + 1 / v) / 2, 0], [0, 0, 1.0]]), True)
    E["IdealPoint.from_angle"] = (
        "scalar", angles, lambda a: H.IdealPoint.from_angle(a),
        lambda v: np.array([1.0, math.cos(v), math.sin(v)]), True)
    E["IdealPoint.from_angle/array"] = (
        "array", [[0.3, 1.0, -2.0], [0.0, 3.0]], lambda a: H.IdealPoint.from_angle(a),
        lambda v: np.stack([np.ones(len(v)), np.cos(v), np.sin(v)], axis=-1), True)
    blocks = [_rot(0.7).tolist(), [[0.0, 1.0], [1.0, 0.0]], [[-1.0, 0.0], [0.0, 1.0]]]
    E["Isometry.elliptic"] = ("array", blocks, lambda b: H.Isometry.elliptic(2, b),
                              lambda v: _block(2, np.array(v)).T, False)
    sl2 = [[[2.0, 0.0], [0.0, 0.5]], [[1.0, 1.0], [0.0, 1.0]], [[3.0, 0.0], [0.0, 1.0 / 3]], [[2.0, 1.0], [1.0, 1.0]],
           [[0.0, -1.0], [1.0, 0.0]]]
    E["hyperbolic.sl2_iso"] = ("array", sl2, lambda m: H.sl2_iso(m), None, True)
    E["Isometry.from_sl2"] = ("array", sl2[:2], lambda m: H.Isometry.from_sl2(m), None, True)
    for n in (3, 5, 8):
        E["Polygon.regular_polygon/angle/n%d" % n] = (
            "scalar", [f * (n - 2) * math.pi / n for f in (0.2, 0.5, 0.9)] + ([1.0] if (n - 2) * math.pi / n > 1 else []),
            (lambda k: lambda a: H.Polygon.regular_polygon(k, angle=a))(n), None, True)
        E["Polygon.regular_polygon/radius/n%d" % n] = (
            "scalar", [0.3, 1.0, 2.5], (lambda k: lambda r: H.Polygon.regular_polygon(k, radius=r))(n), None, True)
    def _tv():
        p = H.Point(np.array([1.0, 0.3, -0.2]))
        return p.unit_tangent_towards(H.Point(np.array([1.0, -0.5, 0.4])))
    E["TangentVector.point_along"] = ("scalar", [0.7, -1.3, 2.0], lambda t: _tv().point_along(t), None, True)
    E["TangentVector.point_along/array"] = ("array", [[0.7], [2.0]], lambda t: H.TangentVector(np.stack([_tv().proj_data] * len(t))).point_along(np.asarray(t) if not isinstance(t, np.ndarray) else t), None, True)
    E["hyperbolic.hyp_to_affine_dist"] = ("array", [[0.5, 1.0, -2.0], [3.0]], lambda r: H.hyp_to_affine_dist(r if isinstance(r, np.ndarray) else np.asarray(r, dtype=float)), None, True)
    E["hyperbolic.regular_polygon_radius"] = ("scalar", [0.4, 1.0], lambda a: H.regular_polygon_radius(5, a), None, True)
    E["hyperbolic.polygon_interior_angle"] = ("scalar", [0.3, 1.0, 2.0], lambda r: H.polygon_interior_angle(5, r), None, True)
    pts = [[0.1, 0.0], [0.5, -0.25], [1.0, 0.0], [0.0, 0.0], [[0.0, 1.0], [-1.0, 0.0]]]
    for model in ("klein", "poincare"):
        E["hyperbolic.Point/%s" % model] = ("array", pts, (lambda m: lambda c: H.Point(c, model=m))(model), None, False)
    E["hyperbolic.Point/halfspace"] = ("array", [[0.5, 1.0], [-2.0, 0.25], [0.0, 1.0], [1.0, 2.0], [[3.0, 1.0], [-1.0, 4.0]]],
                                       lambda c: H.Point(c, model="halfspace"), None, False)
    E["hyperbolic.get_point"] = ("array", pts[:2], lambda c: H.get_point(c), None, False)
    proj = [[1.0, 0.5, 0.25], [2.0, -1.0, 0.0], [[1.0, 0.0, 0.5], [1.0, 0.25, 0.25]]]
    E["hyperbolic.Point/projective"] = ("array", proj, lambda c: H.Point(c), None, False)
    E["projective.Point"] = ("array", proj, lambda c: PR.Point(c), None, False)
    E["projective.Point/chart"] = ("array", pts, lambda c: PR.Point(c, chart_index=1), None, False)
    mats = [[[1.0, 2.0, 0.0], [0.0, 1.0, 0.5], [0.0, 0.0, 1.0]], [[2.0, 1.0], [1.0, 1.0]]]
    E["projective.Transformation"] = ("array", mats, lambda m: PR.Transformation(m), None, False)
    E["projective.Transformation/column_vectors"] = ("array", mats, lambda m: PR.Transformation(m, column_vectors=True), None, False)
    E["hyperbolic.Isometry"] = ("array", [np.eye(3).tolist(), _block(2, _rot(0.5)).tolist()],
                                lambda m: H.Isometry(m), None, False)
    E["utils.array_like"] = ("array", [[0.5, 1.0], [[1.0, 2.0], [3.0, 4.5]]], lambda a: utils.array_like(a), None, False)
    E["utils.number/like"] = ("scalar", [0.5, 2.0], lambda a: np.asarray(utils.number(0.5, like=a)), None, False)
    E["utils.zeros/like"] = ("scalar", [0.5, 2.0], lambda a: utils.zeros((2, 2), like=a), None, False)
    E["utils.identity/like"] = ("scalar", [0.5, 2.0], lambda a: utils.identity(3, like=a), None, False)
    E["utils.identity/like-array"] = ("array", [[0.5, 1.0]], lambda a: utils.identity(3, like=a), None, False)
    # Coxeter labels
    tri = [[2, 3, 7], [3, 3, 4], [2, 4, 5], [4, 4, 4]]

    def cox_mat(labels):
        p, q, r = labels
        return [[1, p, r], [p, 1, q], [r, q, 1]]
    for route in ("bilinear_form", "geometric_representation", "canonical_representation", "hyperbolic_rep"):
        def f(m, route=route):
            G = coxeter.CoxeterGroup(matrix=m)
            r = getattr(G, route)()
            if route == "bilinear_form":
                return r
            return np.stack([_data(r[g]) for g in "abc"])
        E["CoxeterGroup(matrix)." + route] = ("array", [cox_mat(t) for t in tri], f, None, True)

        def g(labels, route=route):
            G = coxeter.TriangleGroup(labels)
            r = getattr(G, route)()
            if route == "bilinear_form":
                return r
            return np.stack([_data(r[x]) for x in "abc"])
        E["TriangleGroup." + route] = ("array", tri, g, None, True)
    # infinite labels (negative entries), free Cartan parameters
    inf_mats = [[[1, -1, 3], [-1, 1, -1], [3, -1, 1]], [[1, -1, -1], [-1, 1, 4], [-1, 4, 1]]]
    params = {(0, 1): -3.0, (1, 2): -2.5, (0, 2): -2.25}

    def with_params(m):
        return {k: v for k, v in params.items() if np.array(m)[k] < 0}
    for route in ("bilinear_form", "geometric_representation", "canonical_representation", "cartan_matrix", "tits_vinberg_rep",
                  "rep-then-cartan_matrix"):
        def h(m, route=route):
            G = coxeter.CoxeterGroup(matrix=m)
            pr = with_params(inf_mats[0] if np.array(m, dtype=float)[0][2] == 3 else inf_mats[1])
            if route == "bilinear_form":
                return G.bilinear_form()
            if route == "cartan_matrix":
                return G.cartan_matrix(pr)
            if route == "rep-then-cartan_matrix":
                G.canonical_representation()
                return np.stack([G.cartan_matrix(pr), np.array(G.coxeter_matrix, dtype=float)])
            r = G.tits_vinberg_rep(pr) if route == "tits_vinberg_rep" else getattr(G, route)()
            return np.stack([_data(r[g]) for g in "abc"])
        E["CoxeterGroup(matrix,inf)." + route] = ("array", inf_mats, h, None, True)
    return E


def packaging_cases():
    E = _entries()
    for name in sorted(E):
        kind, values, f, exp, must_float = E[name]
        for vi, v in enumerate(values):
            integral = bool(np.all(np.array(v, dtype=float) == np.round(np.array(v, dtype=float))))
            if kind == "scalar":
                packs = SCALAR_PACKS + (INT_PACKS if integral else [])
            else:
                packs = ARRAY_PACKS + (ARRAY_INT_PACKS if integral else [])
            for how in packs:
                yield {"entry": name, "vi": vi, "pack": how}


def _postops(name, res):
    """The library's own inverse / eigenvalue / trigonometric routines must run on the result."""
    from geometry_tools import utils
    d = _data(res)
    out = []
    if d.dtype.kind not in "fc":
        return out
    if hasattr(res, "inv"):
        res.inv()
        out.append("inv")
    if d.ndim >= 2 and d.shape[-1] == d.shape[-2]:
        utils.eig(d)
        out.append("eig")
    utils.cos(d)
    out.append("cos")
    return out


def case_packaging(case):
    E = _entries()
    name, vi, how = case["entry"], case["vi"], case["pack"]
    kind, values, f, exp, must_float = E[name]
    v = values[vi]
    entry_class = name.split("/")[0]
    viol = []
    if kind == "scalar":
        ref_in, got_in = pack_scalar(v, "npfloat64"), pack_scalar(v, how)
    else:
        ref_in, got_in = pack_array(v, "ndarray64"), pack_array(v, how)
    pack_class = "float32" if _is32(how) and "int" not in how else "float"
    is_int_input = "int" in how
    if how == "mixed_literal" and not np.any(np.array(v, dtype=float) != 0):
        is_int_input = True          # every literal became an int: an all-integer input
    key = lambda what: "packaging/%s/%s/%s" % (what, entry_class, pack_class if not is_int_input else "integer")
    try:
        ref = _data(f(ref_in))
    except Exception as e:
        return {"v": [{"key": key("reference-raises"), "msg": "%s(%r as float64) raises %s: %s" % (name, v, type(e).__name__, str(e)[:200])}], "t": 1}
    snapshot = np.array(got_in, copy=True) if isinstance(got_in, np.ndarray) else None
    try:
        res = f(got_in)
    except Exception as e:
        return {"v": [{"key": key("raises"), "msg": "%s(%r packaged as %s) raises %s: %s" % (name, v, how, type(e).__name__, str(e)[:200])}],
                "t": 2, "o": "EXC"}
    got = _data(res)
    if isinstance(got_in, np.ndarray) and not np.array_equal(got_in, snapshot):
        viol.append({"key": key("input-mutated"), "msg": "%s(%r as %s) changed the caller's array to %r" % (name, v, how, got_in)})
    if got.dtype == np.dtype("O"):
        viol.append({"key": key("object-dtype"), "msg": "%s(%r as %s) has dtype object" % (name, v, how)})
        return {"v": viol, "t": 2, "o": "object"}
    needs_float = must_float or not is_int_input
    if needs_float and got.dtype.kind not in "fc":
        viol.append({"key": key("non-float-dtype"), "msg": "%s(%r as %s) has dtype %s" % (name, v, how, got.dtype)})
    tol = TOL32 if _is32(how) else TOL
    if got.shape != ref.shape:
        viol.append({"key": key("shape"), "msg": "%s(%r as %s): shape %s vs %s" % (name, v, how, got.shape, ref.shape)})
    else:
        err = float(np.max(np.abs(got.astype(complex) - ref.astype(complex)))) if got.size else 0.0
        if not err <= tol * (1 + float(np.max(np.abs(ref))) if ref.size else 1):
            viol.append({"key": key("value"), "msg": "%s(%r as %s) differs from the float64 packaging by %.3g:\n%r\nvs\n%r" % (name, v, how, err, got, ref)})
    if exp is not None:
        e = np.asarray(exp(np.array(v, dtype=float) if kind == "array" else float(v)))
        if e.shape != ref.shape or not np.max(np.abs(ref - e)) <= 1e-9:
            viol.append({"key": "packaging/oracle-formula/%s" % entry_class, "msg": "%s(%r) = %r, formula %r" % (name, v, ref, e)})
    ops = []
    if not viol:
        try:
            ops = _postops(name, res)
        except Exception as e2:
            viol.append({"key": key("unusable-result"), "msg": "%s(%r as %s): %s: %s" % (name, v, how, type(e2).__name__, str(e2)[:200])})
    return {"v": viol, "t": 2 + len(ops), "o": (entry_class, str(got.dtype), got.shape), "nt": how not in ("npfloat64", "ndarray64")}


# documented snippets, executed literally -------------------------------------------------------
def case_snippet(case):
    i = case["i"]
    from geometry_tools import hyperbolic
    from numpy import pi
    v = []

    def close(a, b, tol=1e-7):
        return np.allclose(np.asarray(a, dtype=float), np.asarray(b, dtype=float), atol=tol)
    if i == 0:
        point = hyperbolic.Point([0.1, 0.0], model=hyperbolic.Model.KLEIN)
        p2 = hyperbolic.get_point([0.1, 0.0], model="klein")
        got = point.coords(model="poincare")
        if not (close(got, [0.05012563, 0.0]) and close(p2.coords("poincare"), got)):
            v.append({"key": "snippet/hyperbolic-doc-point", "msg": repr(got)})
    elif i == 1:
        hyp_iso = hyperbolic.sl2_iso([[2., 0.], [0., -1. / 2]])
        point = hyperbolic.get_point([0., 0.])
        got = (hyp_iso @ point).coords(model="halfplane")
        if not close(got, [0.0, 0.25]):
            v.append({"key": "snippet/hyperbolic-doc-sl2_iso", "msg": repr(got)})
    elif i == 2:
        p1 = hyperbolic.Point([0., 0.1], model="klein")
        p2 = hyperbolic.Point([0.1, 0.], model="klein")
        pts = hyperbolic.Point([p1, p2])
        iso = hyperbolic.sl2_iso([[1., 1.], [0., 1.]])
        got = (iso @ pts).coords(model="klein")
        if not close(got, [[-0.375, 0.6875], [-0.29032258, 0.70967742]]):
            v.append({"key": "snippet/hyperbolic-doc-parabolic", "msg": repr(got)})
    elif i == 3:
        free_rep = hyperbolic.HyperbolicRepresentation()
        free_rep["a"] = hyperbolic.sl2_iso([[3., 0], [0., 1. / 3]])
        rot = hyperbolic.Isometry.standard_rotation(pi / 2)
        free_rep["b"] = rot @ free_rep["a"] @ rot.inv()
        pt = hyperbolic.Point([[0., 0.3], [0.1, 0.0]], model="klein")
        words = free_rep.free_words_less_than(2)
        isos = free_rep.isometries(words)
        got = (isos.apply(pt, "pairwise")).coords(model="klein")
        exp = np.array([[[0.0, 0.3], [0.1, 0.0]], [[-9.75609756e-01, 6.58536585e-02], [-9.70270270e-01, 0.0]],
                        [[9.75609756e-01, 6.58536585e-02], [9.80000000e-01, 0.0]],
                        [[0.0, -9.55172414e-01], [2.19512195e-02, -9.75609756e-01]],
                        [[0.0, 9.86792453e-01], [2.19512195e-02, 9.75609756e-01]]])
        # the property fixes pairwise axis order (object axes first); the doc output lists the
        # isometry axis first, so compare as a set of (isometry, point) images
        g = np.asarray(got, dtype=float).reshape(-1, 2)
        e = exp.reshape(-1, 2)
        ok = g.shape == e.shape and all(np.min(np.linalg.norm(e - row, axis=1)) < 1e-7 for row in g) \
            and all(np.min(np.linalg.norm(g - row, axis=1)) < 1e-7 for row in e)
        if not ok:
            v.append({"key": "snippet/hyperbolic-doc-free-rep", "msg": repr(got)})
    elif i == 4:
        from geometry_tools import coxeter
        G = coxeter.TriangleGroup((2, 3, 7))
        rep = G.hyperbolic_rep()
        m = rep["abc"]
        d = _data(m)
        if d.dtype.kind != "f" or not np.all(np.isfinite(d)):
            v.append({"key": "snippet/coxeter-triangle-rep", "msg": repr(d)})
    elif i == 5:
        poly = hyperbolic.Polygon.regular_polygon(8, angle=pi / 4)
        d = poly.proj_data
        if d.dtype.kind != "f" or d.shape != (8, 3):
            v.append({"key": "snippet/regular-octagon", "msg": repr(d)})
    elif i == 6:
        rot = hyperbolic.Isometry.standard_rotation(0.3)
        inv = rot.inv()
        if not close((rot @ inv).proj_data, np.eye(3)):
            v.append({"key": "snippet/rotation-inverse", "msg": repr(inv.proj_data)})
    return {"v": v, "t": 3, "o": i}


# =============================================================================================
# (b) homogeneous rescaling
# =============================================================================================
LAM = lattice.LAMBDAS


def _pts(n, seed, quick):
    P = lattice.klein_points(n, 8 if quick else 12, seed)
    return P


def _proj(k, lam):
    return hyp.klein_to_projective(np.asarray(k, dtype=float), lam)


def _unordered_pair_err(a, b):
    """a, b: (2, m) projective rows as an unordered pair."""
    e1 = max(hyp.proj_sin_err(a[0], b[0]), hyp.proj_sin_err(a[1], b[1]))
    e2 = max(hyp.proj_sin_err(a[0], b[1]), hyp.proj_sin_err(a[1], b[0]))
    return min(e1, e2)


RESC_FUNCS = ["coords", "distance", "segment", "tangent", "origin_to", "polygon", "image", "tangent_iso", "angle", "segment_ideal", "tangent_unit", "angle_units"]


def rescale_cases(dims, seed, quick):
    for n in dims:
        P = _pts(n, seed, quick)
        np_ = len(P)
        idx = list(range(np_))
        sub = idx if not quick else idx[:8]
        for i in idx:                       # single-point functions: every lattice point, in both tiers
            for l in LAM[1:]:
                yield {"f": "coords", "n": n, "pts": [i], "lam": [l]}
                if n >= 2:
                    yield {"f": "origin_to", "n": n, "pts": [i], "lam": [l]}
        pairs = [(i, j) for i in sub for j in sub if i != j]
        if quick:
            pairs = pairs[::3]
        for (i, j) in pairs:
            for lam in itertools.product(LAM, repeat=2):
                if lam == (1.0, 1.0):
                    continue
                yield {"f": "distance", "n": n, "pts": [i, j], "lam": list(lam)}
                yield {"f": "segment", "n": n, "pts": [i, j], "lam": list(lam)}
                if n >= 2:
                    yield {"f": "tangent", "n": n, "pts": [i, j], "lam": list(lam)}
                    yield {"f": "image", "n": n, "pts": [i, j], "lam": list(lam)}
        # segments with one (or two) IDEAL endpoints: index -1-k refers to the k-th ideal direction
        nid = len(lattice.ideal_dirs(n, 2, seed)) if n >= 1 else 0
        for i in sub[:5]:
            for k in range(min(nid, 3)):
                for lam in itertools.product(LAM, repeat=2):
                    if lam == (1.0, 1.0):
                        continue
                    yield {"f": "segment_ideal", "n": n, "pts": [i, -1 - k], "lam": list(lam)}
                    yield {"f": "segment_ideal", "n": n, "pts": [-1 - k, i], "lam": list(lam)}
        for k in range(min(nid, 3) - 1):
            for lam in itertools.product(LAM, repeat=2):
                if lam != (1.0, 1.0):
                    yield {"f": "segment_ideal", "n": n, "pts": [-1 - k, -2 - k], "lam": list(lam)}
        # a tangent vector is ONE unit of two rows: rescaling the whole unit (negative factors included), or moving it
        # by an isometry stored as -M, must not change where it points
        if n >= 2:
            for (i, j) in pairs[::4]:
                for l in LAM[1:]:
                    yield {"f": "tangent_unit", "n": n, "pts": [i, j], "lam": [l]}
        triples = [(i, j, k) for i in sub[:6] for j in sub[:6] for k in sub[:6] if len({i, j, k}) == 3]
        if quick:
            triples = triples[::7]
        for t in (triples if n >= 2 else []):
            for lam in itertools.product(LAM, repeat=3):
                if lam == (1.0, 1.0, 1.0):
                    continue
                yield {"f": "polygon", "n": n, "pts": list(t), "lam": list(lam)}
                yield {"f": "angle", "n": n, "pts": list(t), "lam": list(lam)}
                yield {"f": "tangent_iso", "n": n, "pts": list(t), "lam": list(lam)}
            # two tangent vectors at one basepoint, each ONE unit (point row, vector row) carrying its OWN factor: every
            # sign combination of the two units (equal and opposite), also as units of one composite
            for lam in itertools.product(LAM, repeat=2):
                if lam != (1.0, 1.0):
                    yield {"f": "angle_units", "n": n, "pts": list(t), "lam": list(lam)}


def _geom(f, n, K, lam, seed, quick):
    """Geometric output of function f on the points with Klein coords K scaled by lam: a dict of
    named arrays with a comparison mode each."""
    from geometry_tools import hyperbolic as H
    X = [_proj(k, l) for k, l in zip(K, lam)]
    out = {}
    if f == "coords":
        p = H.Point(X[0])
        for m in ("klein", "poincare", "halfspace", "hyperboloid"):
            c = p.coords(m)
            if m == "hyperboloid":
                # a model coordinate like the others: the SAME numbers for every representative (a negative factor must not
                # move the coordinates to the other sheet), and they are the future-sheet unit vector of the point
                out[m] = ("abs", c)
                out["hyperboloid-unit"] = ("abs", np.abs(hyp.mink(c, c)))
                out["hyperboloid-future-sheet"] = ("abs", np.asarray(c, dtype=float) - hyp.unit_hyperboloid(_proj(K[0], 1.0)))
            else:
                out[m] = ("abs", c)
    elif f == "distance":
        out["d"] = ("abs", H.Point(X[0]).distance(H.Point(X[1])))
        out["d-composite"] = ("abs", H.Point(np.stack([X[0], X[1]])).distance(H.Point(np.stack([X[1], X[0]]))))
        # model coordinates of a composite whose units carry independent factors (unit by unit)
        comp = H.Point(np.stack([X[0], X[1]]))
        for m in ("hyperboloid", "poincare"):
            out["composite-coords-%s" % m] = ("abs", comp.coords(m))
    elif f == "segment":
        s = H.Segment(H.Point(X[0]), H.Point(X[1]))
        out["endpoints-klein"] = ("abs", s.endpoint_coords("klein") if hasattr(s, "endpoint_coords") else s.coords("klein"))
        out["ideal"] = ("pair", s.ideal_endpoint_coords("projective"))
        s2 = H.Segment(np.stack([X[0], X[1]]))
        out["ideal-from-array"] = ("pair", s2.ideal_endpoint_coords("projective"))
        if n == 2:
            for m in ("poincare", "halfspace"):
                c, r, th = s.circle_parameters(degrees=False, model=m)
                if np.isfinite(r) and r < 1e3:
                    out["circle-%s" % m] = ("abs6", np.concatenate([np.ravel(c), np.ravel(r)]))
                    out["angles-%s" % m] = ("angle", np.ravel(th))
    elif f == "tangent":
        p, q = H.Point(X[0]), H.Point(X[1])
        tv = p.unit_tangent_towards(q)
        out["base"] = ("proj", tv.point)
        for t in (0.7, -0.4):
            out["point_along(%s)" % t] = ("abs", tv.point_along(t).coords("klein"))
        d = hyp.dist_klein(K[0], K[1])
        out["reaches-target"] = ("abs", tv.point_along(float(d)).coords("klein"))
    elif f == "origin_to":
        p = H.Point(X[0])
        for fo in (True, False):
            iso = p.origin_to(force_oriented=fo)
            test = H.Point(np.array([_proj(k, 1.0) for k in _pts(n, seed, True)[:6]]))
            out["image-of-origin/fo=%s" % fo] = ("abs", (iso @ H.Point.get_origin(n)).coords("klein"))
            # as a projective map the isometry is determined by its action on points
            out["action/fo=%s" % fo] = ("abs", (iso @ test).coords("klein"))
    elif f == "polygon":
        poly = H.Polygon(np.stack(X))
        out["vertices"] = ("abs", poly.get_vertices().coords("klein"))
        e = poly.get_edges()
        out["edges"] = ("abs", H.Point(e.proj_data).coords("klein"))
        out["edge-ideal"] = ("pairs", e.ideal_endpoint_coords("projective"))
    elif f == "image":
        iso = H.Point(_proj(K[1], 1.0)).origin_to() @ H.Isometry.standard_loxodromic(n, 1.7)
        out["image"] = ("abs", (iso @ H.Point(X[0])).coords("klein"))
        out["image-pair"] = ("abs", (iso @ H.PointPair(H.Point(X[0]), H.Point(X[1]))).coords("klein"))
    elif f == "segment_ideal":
        s_ = H.Segment(H.Point(X[0]), H.Point(X[1]))
        out["ideal"] = ("pair", s_.ideal_endpoint_coords("projective"))
        s2 = H.Segment(np.stack([X[0], X[1]]))
        out["ideal-from-array"] = ("pair", s2.ideal_endpoint_coords("projective"))
        out["ideal-klein"] = ("pair", s_.ideal_endpoint_coords("klein"))
        if n == 2:
            c, r, th = s_.circle_parameters(degrees=False, model="poincare")
            if np.isfinite(r) and r < 1e3:
                out["circle-poincare"] = ("abs6", np.concatenate([np.ravel(c), np.ravel(r)]))
    elif f == "tangent_unit":
        p, q = H.Point(_proj(K[0], 1.0)), H.Point(_proj(K[1], 1.0))
        data = np.array(p.unit_tangent_towards(q).proj_data, dtype=float)          # (2, n+1): point row, vector row
        tv = H.TangentVector(lam[0] * data)
        for t in (0.7, -0.4):
            out["point_along(%s)" % t] = ("abs", tv.point_along(t).coords("klein"))
        test = H.Point(np.array([_proj(k, 1.0) for k in _pts(n, seed, True)[:6]]))
        out["origin_to-action"] = ("abs", (tv.origin_to() @ test).coords("klein"))
        # the same tangent vector moved by an isometry given as M and as lam*M (the same projective map)
        g = H.Point(_proj(K[1], 1.0)).origin_to() @ H.Isometry.standard_rotation(0.9, dimension=n)
        g2 = H.Isometry(lam[0] * np.array(g.proj_data, dtype=float))
        moved = g2 @ H.TangentVector(data.copy())
        out["moved-point_along"] = ("abs", moved.point_along(0.6).coords("klein"))
    elif f == "angle":
        p = H.Point(X[0])
        a = p.unit_tangent_towards(H.Point(X[1])).angle(p.unit_tangent_towards(H.Point(X[2])))
        out["angle"] = ("abs6", a)
    elif f == "angle_units":
        p = H.Point(_proj(K[0], 1.0))
        d1 = np.array(p.unit_tangent_towards(H.Point(_proj(K[1], 1.0))).proj_data, dtype=float)      # (2, n+1)
        d2 = np.array(p.unit_tangent_towards(H.Point(_proj(K[2], 1.0))).proj_data, dtype=float)
        u1, u2 = lam[0] * d1, lam[1] * d2
        out["angle"] = ("abs6", H.TangentVector(u1.copy()).angle(H.TangentVector(u2.copy())))
        out["angle-swapped"] = ("abs6", H.TangentVector(u2.copy()).angle(H.TangentVector(u1.copy())))
        out["angle-point-vector"] = ("abs6", H.TangentVector(u1[0].copy(), u1[1].copy()).angle(H.TangentVector(u2[0].copy(), u2[1].copy())))
        # composite of three units against a composite of three units: the factors differ unit by unit on both sides
        out["angle-composite"] = ("abs6", H.TangentVector(np.stack([u1, u2, u1])).angle(H.TangentVector(np.stack([u2, u1, d1.copy()]))))
        # oracle: the Riemannian angle of the two unscaled directions at the common basepoint
        c = hyp.mink(d1[1], d2[1]) / math.sqrt(hyp.mink(d1[1], d1[1]) * hyp.mink(d2[1], d2[1]))
        out["angle-oracle"] = ("abs6", np.asarray(out["angle"][1], dtype=float) - math.acos(min(1.0, max(-1.0, float(c)))))
    elif f == "tangent_iso":
        p = H.Point(X[0])
        t1 = p.unit_tangent_towards(H.Point(X[1]))
        t2 = H.Point(X[1]).unit_tangent_towards(H.Point(X[2]))
        iso = t1.isometry_to(t2)
        test = H.Point(np.array([_proj(k, 1.0) for k in _pts(n, seed, True)[:6]]))
        out["isometry_to-action"] = ("abs6", (iso @ test).coords("klein"))
    return out


def case_rescale(case):
    f, n, seed, quick = case["f"], case["n"], case.get("seed", 0), case.get("quick", True)
    P = _pts(n, seed, quick)
    I = lattice.ideal_dirs(n, 2, seed)
    K = [P[i] if i >= 0 else I[-1 - i] for i in case["pts"]]
    lam = case["lam"]
    ref = _geom(f, n, K, [1.0] * len(K), seed, quick)
    got = _geom(f, n, K, lam, seed, quick)
    v = []
    nan_ref = 0
    sign_class = "negative" if any(l < 0 for l in lam) else "positive"
    for name in ref:
        mode, a = ref[name]
        if name not in got:
            continue
        b = got[name][1]
        a, b = np.asarray(a, dtype=float), np.asarray(b, dtype=float)
        if a.shape != b.shape:
            v.append({"key": "rescale/%s/shape" % f, "msg": "%s: %s vs %s" % (name, a.shape, b.shape)})
            continue
        if mode == "abs6" and f in ("angle", "angle_units") and np.isnan(a).any():
            # arccos just outside [-1, 1] for an exactly straight angle: NaN on the unscaled input is
            # not a rescaling relation (it is C13's business); nothing to compare
            nan_ref += 1
            continue
        if mode == "abs":
            err = np.max(np.abs(a - b)) if a.size else 0.0
            tol = 1e-8
        elif mode == "abs6":
            err = np.max(np.abs(a - b)) if a.size else 0.0
            tol = TOL_IDEAL * (1 + np.max(np.abs(a))) ** 2
        elif mode == "angle":
            dlt = np.abs(np.angle(np.exp(1j * (a - b))))
            err, tol = np.max(dlt), 1e-5
        elif mode == "proj":
            err, tol = np.max(hyp.proj_sin_err(a, b)), 1e-8
        elif mode == "pair":
            err, tol = _unordered_pair_err(a, b), TOL_IDEAL
        elif mode == "pairs":
            err, tol = max(_unordered_pair_err(x, y) for x, y in zip(a, b)), TOL_IDEAL
        if not err <= tol:
            v.append({"key": "rescale/%s/%s/%s-factor" % (f, name.split("(")[0].split("/")[0], sign_class),
                      "msg": "%s n=%d pts=%r lambda=%r: %s changes by %.3g\nunscaled %r\nscaled   %r" % (f, n, [k.tolist() for k in K], lam, name, err, a, b)})
    return {"v": v, "t": 2 * max(1, len(ref)), "o": (f, n, sign_class, len(ref), nan_ref), "nt": True}


# =============================================================================================
# ------------------------------------------------------------------------------------------
# (c) integer-valued homogeneous coordinates: the stored data may stay integer, but every geometric
#     output must be the one of the float64 packaging
# ------------------------------------------------------------------------------------------
INT_TIMELIKE = {2: [[1, 0, 0], [2, 1, 0], [3, -1, 1], [5, 2, -3], [-2, 1, 0], [4, 0, 3]],
                3: [[1, 0, 0, 0], [2, 1, 0, 1], [3, -1, 1, 0], [-5, 2, -3, 1], [4, 0, 3, 2]]}
INT_POINT_PACKS = ["list_int", "tuple_int", "ndarray_int", "ndarray_int32", "ndarray_float32"]
INT_OUTPUTS = ["coords/hyperboloid", "coords/klein", "coords/poincare", "coords/halfspace", "distance", "origin_to", "unit_tangent_towards",
               "point_along", "segment/ideal-endpoints", "segment/circle", "isometry-image", "composite/coords", "composite/distance",
               "hyperplane/reflection", "spacelike_to", "timelike_to", "tangent-vector/point_along", "tangent-vector/origin_to"]


def _ipack(x, how):
    a = np.array(x)
    if how == "list_int":
        return a.tolist()
    if how == "tuple_int":
        return tuple(tuple(r) for r in a.tolist()) if a.ndim == 2 else tuple(a.tolist())
    if how == "ndarray_int":
        return a.astype(np.int64)
    if how == "ndarray_int32":
        return a.astype(np.int32)
    if how == "ndarray_float32":
        return a.astype(np.float32)
    return a.astype(np.float64)


def _int_output(H, name, n, i, j, how):
    """One geometric output computed from integer-valued coordinates packaged `how` (fresh objects each time:
    several library routines normalise floating data in place)."""
    T = INT_TIMELIKE[n]
    pk = lambda x: _ipack(x, how)
    P = lambda k: H.Point(pk(T[k % len(T)]))
    proj = lambda d: np.asarray(d, dtype=float) / np.linalg.norm(np.asarray(d, dtype=float), axis=-1, keepdims=True) * np.sign(np.asarray(d, dtype=float)[..., :1] + 1e-300)
    e1 = [0, 1] + [0] * (n - 1)
    e0 = [1] + [0] * n
    normal = [1, 2] + [1] * (n - 1)
    if name.startswith("coords/"):
        return np.asarray(P(i).coords(name.split("/")[1]), dtype=float)
    if name == "distance":
        return np.asarray(P(i).distance(P(j)), dtype=float)
    if name == "origin_to":
        return np.asarray(P(i).origin_to().matrix, dtype=float)
    if name == "unit_tangent_towards":
        return proj(np.asarray(P(i).unit_tangent_towards(P(j)).proj_data).reshape(-1))
    if name == "point_along":
        return np.asarray(P(i).unit_tangent_towards(P(j)).point_along(0.5).coords("klein"), dtype=float)
    if name == "segment/ideal-endpoints":
        e = np.asarray(H.Segment(P(i), P(j)).ideal_endpoint_coords("klein"), dtype=float)
        return e[np.lexsort(e.T[::-1])]
    if name == "segment/circle":
        if n != 2:
            return np.concatenate([np.ravel(x) for x in H.Segment(P(i), P(j)).sphere_parameters()])
        return np.concatenate([np.ravel(x) for x in H.Segment(P(i), P(j)).circle_parameters(degrees=False)])
    if name == "isometry-image":
        return np.asarray((P(j).origin_to() @ P(i)).coords("klein"), dtype=float)
    if name == "composite/coords":
        return np.asarray(H.Point(pk(T)).coords("poincare"), dtype=float)
    if name == "composite/distance":
        return np.asarray(H.Point(pk(T[:2])).distance(H.Point(pk(T[2:4]))), dtype=float)
    if name == "hyperplane/reflection":
        return np.asarray(H.Hyperplane(pk(normal if i % 2 else e1)).reflection_across().matrix, dtype=float)
    if name == "spacelike_to":
        return np.asarray(H.spacelike_to(np.asarray(pk(normal))).matrix, dtype=float)
    if name == "timelike_to":
        return np.asarray(H.timelike_to(np.asarray(pk(T[i % len(T)]))).matrix, dtype=float)
    if name == "tangent-vector/point_along":
        return np.asarray(H.TangentVector(pk(e0), pk(e1)).point_along(0.5 + 0.25 * i).coords("klein"), dtype=float)
    if name == "tangent-vector/origin_to":
        return np.asarray(H.TangentVector(pk([e0, e1])).origin_to().matrix, dtype=float)
    raise ValueError(name)


def case_intpoints(case):
    from geometry_tools import hyperbolic as H
    n, name, i, j, how = case["n"], case["out"], case["i"], case["j"], case["pack"]
    where = "%s from integer-valued coordinates of H^%d (points %d, %d) packaged as %s" % (name, n, i, j, how)
    ref = _int_output(H, name, n, i, j, "ndarray_float64")
    try:
        got = _int_output(H, name, n, i, j, how)
    except Exception as e:
        return {"v": [{"key": "integer-points/raises/%s/%s" % (name, "float32" if how.endswith("float32") else "integer"),
                       "msg": "%s raises %s: %s" % (where, type(e).__name__, str(e)[:160])}], "t": 2, "o": "EXC"}
    tol = TOL32 * 10 if how.endswith("float32") else TOL
    v = []
    if got.shape != ref.shape:
        v.append({"key": "integer-points/shape/%s" % name, "msg": "%s: shape %r, float64 packaging %r" % (where, got.shape, ref.shape)})
    elif (np.any(np.isfinite(got) != np.isfinite(ref))
          or not float(np.max(np.abs(np.where(np.isfinite(ref), got - ref, 0.0)), initial=0.0)) <= tol * (1 + float(np.max(np.abs(ref[np.isfinite(ref)]), initial=0.0)))):
        # (a segment through the origin is a straight line of the model: NaN circle in every packaging)
        v.append({"key": "integer-points/value/%s/%s" % (name, "float32" if how.endswith("float32") else "integer"),
                  "msg": "%s: %r, float64 packaging gives %r" % (where, got.tolist(), ref.tolist())})
    return {"v": v, "t": 2, "o": (name, how, got.shape), "nt": True}


def intpoint_cases():
    for n in (2, 3):
        N = len(INT_TIMELIKE[n])
        for out in INT_OUTPUTS:
            for i in range(N):
                for j in ([(i + 1) % N, (i + 2) % N] if out in ("distance", "unit_tangent_towards", "point_along", "segment/ideal-endpoints",
                                                                "segment/circle", "isometry-image") else [0]):
                    for how in INT_POINT_PACKS:
                        yield {"n": n, "out": out, "i": i, "j": j, "pack": how}

# ------------------------------------------------------------------------------------------
# (d) the module-level coordinate functions (projective.affine_coords / projective_coords, hyperbolic.kleinian_coords /
#     hyperboloid_coords) on single matrices and COMPOSITES of points, laid out as rows (default) and as columns
#     (column_vectors=True), under per-point rescaling: the column answer is the row answer with the last two axes
#     swapped, and the row answer is the oracle's (x_others / x_chart of the UNSCALED points)
# ------------------------------------------------------------------------------------------
CF_BATCHES = [[], [1], [3], [4], [2, 3]]
CF_COUNTS = [1, 2, 3, 4, 5]
CF_PACKS = ["ndarray64", "list"]
CF_RADII = [0.3, 0.55, 0.8, 0.45, 0.7]


def _cf_rows(n, count, seed, start):
    """`count` interior points of H^n as rows (1, k): a scan of the generic-direction lattice that skips rows with a
    coordinate below 0.05 in modulus (every point lies well inside every standard affine chart)."""
    out, k = [], start
    while len(out) < count:
        r = np.concatenate([[1.0], CF_RADII[k % len(CF_RADII)] * lattice.generic_dir(n, k, seed)])
        k += 1
        if np.min(np.abs(r)) >= 0.05:
            out.append(r)
    return np.array(out)


def coordfn_cases():
    for n in (2, 3):
        fns = [["affine", c] for c in range(n + 1)] + [["affine", None], ["klein", 0], ["hyperboloid", 0]]
        fns += [["projective", c] for c in range(n + 1)]
        for f, c in fns:
            for b in CF_BATCHES:
                for m in CF_COUNTS:
                    for pack in (CF_PACKS if f != "hyperboloid" else CF_PACKS[:1]):
                        yield {"f": f, "chart": c, "n": n, "batch": b, "m": m, "pack": pack}


def case_coordfn(case):
    from geometry_tools import hyperbolic as H, projective as PR
    f, c, n, batch, m, pack, seed = case["f"], case["chart"], case["n"], tuple(case["batch"]), case["m"], case["pack"], case.get("seed", 0)
    total = int(np.prod(batch, dtype=int)) * m
    X = _cf_rows(n, total, seed, 7 * n + m).reshape(batch + (m, n + 1))          # unscaled rows
    kind = "composite" if batch else "single"
    v, calls, outcomes = [], 0, []

    def call(data, cols):
        kw = {"column_vectors": True} if cols else {}
        if f == "affine":
            return PR.affine_coords(data, chart_index=c, **kw)
        if f == "klein":
            return H.kleinian_coords(data, **kw)
        if f == "hyperboloid":
            return H.hyperboloid_coords(data, **kw)
        return PR.projective_coords(data, chart_index=c, **kw)

    patterns = [None] + ([0, 1, 2, 3] if f != "projective" else [])
    for pat in patterns:
        if pat is None:
            lam = np.ones(batch + (m, 1))
        else:
            lam = np.array([LAM[(k + pat) % len(LAM)] for k in range(total)]).reshape(batch + (m, 1))
        rows_in = X[..., 1:] if f == "projective" else lam * X
        res = {}
        for cols in (False, True):
            layout = "%s-%s" % ("columns" if cols else "rows", kind)
            arr = np.swapaxes(rows_in, -1, -2).copy() if cols else rows_in.copy()
            data = pack_array(arr, pack)
            snap = np.array(arr, copy=True)
            calls += 1
            try:
                r = call(data, cols)
            except Exception as e:
                v.append({"key": "coordfn/raises/%s/%s" % (f, layout), "msg": "%s(chart %r) of %r points of H^%d, batch %r, as %s (%s): %s: %s" % (
                    f, c, m, n, batch, layout, pack, type(e).__name__, str(e)[:200])})
                continue
            if isinstance(data, np.ndarray) and f != "hyperboloid" and not np.array_equal(data, snap):
                v.append({"key": "coordfn/input-mutated/%s/%s" % (f, layout), "msg": "%s changed the caller's array" % f})
            chart = c
            if f == "affine" and c is None:
                if not (isinstance(r, tuple) and len(r) == 2):
                    v.append({"key": "coordfn/auto-chart/%s/%s" % (f, layout), "msg": "affine_coords(chart_index=None) returned %r instead of (affine, chart)" % (r,)})
                    continue
                r, chart = r[0], int(r[1])
                if not 0 <= chart <= n:
                    v.append({"key": "coordfn/auto-chart/%s/%s" % (f, layout), "msg": "chart %r" % chart})
                    continue
            r = np.asarray(r)
            if cols:
                r = np.swapaxes(r, -1, -2) if r.ndim >= 2 else r
            # oracle, from the unscaled rows
            if f in ("affine", "klein"):
                exp = np.delete(X, chart, axis=-1) / X[..., chart:chart + 1]
            elif f == "projective":
                exp = np.insert(X[..., 1:], chart, 1.0, axis=-1)
            else:
                exp = None
            where = "%s(chart %r) of %d points of H^%d, batch %r, as %s (%s), lambda pattern %r" % (f, c, m, n, batch, layout, pack, pat)
            if exp is not None:
                if r.shape != exp.shape:
                    v.append({"key": "coordfn/shape/%s/%s" % (f, layout), "msg": "%s: shape %r, expected %r" % (where, r.shape, exp.shape)})
                    continue
                if r.dtype.kind not in "fc" and f != "projective":
                    v.append({"key": "coordfn/non-float-dtype/%s/%s" % (f, layout), "msg": "%s: dtype %s" % (where, r.dtype)})
                err = float(np.max(np.abs(r.astype(float) - exp)))
                if not err <= TOL * (1.0 + float(np.max(np.abs(exp)))):
                    v.append({"key": "coordfn/value/%s/%s/%s" % (f, layout, "unscaled" if pat is None else "rescaled"),
                              "msg": "%s: differs from x_others / x_chart of the unscaled points by %.3g\n%r\nexpected\n%r" % (where, err, r, exp)})
            else:
                if r.shape != X.shape:
                    v.append({"key": "coordfn/shape/%s/%s" % (f, layout), "msg": "%s: shape %r, expected %r" % (where, r.shape, X.shape)})
                    continue
                e1 = float(np.max(hyp.proj_sin_err(r.astype(float), X)))
                e2 = float(np.max(np.abs(np.abs(hyp.mink(r, r)) - 1.0)))
                if not (e1 <= 1e-8 and e2 <= 1e-8):
                    v.append({"key": "coordfn/value/%s/%s/%s" % (f, layout, "unscaled" if pat is None else "rescaled"),
                              "msg": "%s: not the points on the unit hyperboloid (projective error %.3g, |<x,x>| - 1 = %.3g)\n%r" % (where, e1, e2, r)})
                else:
                    # the hyperboloid model is ONE sheet: the coordinates are the future-pointing unit vectors of the
                    # unscaled points, whatever the sign of the factor each point was given with
                    e3 = float(np.max(np.abs(r.astype(float) - hyp.unit_hyperboloid(X))))
                    if not e3 <= TOL * (1.0 + float(np.max(np.abs(X)))):
                        v.append({"key": "coordfn/sheet/%s/%s/%s" % (f, layout, "unscaled" if pat is None else "rescaled"),
                                  "msg": "%s: differs by %.3g from the future-sheet unit vectors of the points (x0 > 0): time coordinates %r" % (
                                      where, e3, r[..., 0].tolist())})
            res[cols] = (r, chart)
        if len(res) == 2 and not v:
            (a, ca), (b_, cb) = res[False], res[True]
            if ca != cb or a.shape != b_.shape or not float(np.max(np.abs(a.astype(float) - b_.astype(float)))) <= TOL * (1.0 + float(np.max(np.abs(a)))):
                v.append({"key": "coordfn/layout/%s/%s" % (f, kind), "msg": "%s(chart %r), batch %r, %d points, lambda pattern %r: the column-vector answer is not the row-vector answer "
                          "with the last two axes swapped (charts %r / %r)\n%r\nvs\n%r" % (f, c, batch, m, pat, ca, cb, b_, a)})
        outcomes.append(tuple(sorted(res)))
    return {"v": v, "t": calls, "o": (f, n, kind, m if m <= n + 1 else "many", len(v) == 0), "nt": True}


def run(ctx):
    q = ctx.quick
    ctx.rule = ("(a) every (entry point, value, packaging) triple of the tables in checks/c12.py; non-trivial = packaging "
                "differs from the float64 reference packaging; (b) every (function, lattice input, per-unit lambda pattern in "
                "{1,-1,2.5,-0.3}^units minus the all-ones pattern)")
    ctx.assume("only the installed NumPy (2.5.3) is exercised; the 'all NumPy >= 1.22' part of the quantifier is not covered")
    ctx.assume("integer-only coordinates given to a plain constructor (Point/Transformation/array_like) may stay integer (pinned by test_get_origin); "
               "entry points that take angles, lengths or Coxeter labels must return floating data for integer input too")
    ctx.assume("a segment's two ideal endpoints are compared as an unordered pair")
    ctx.assume("tangent vectors, angles and origin_to are exercised in dimension >= 2 only (C13's range); coordinates, distance and segments also in dimension 1")
    ctx.tolerances.update({"packaging": "1e-9 relative-absolute; 2e-5 when the packaging is float32 (input carries 6e-8 relative error)",
                           "rescale": "1e-8 on Klein coordinates of lattice points (|k|<=0.9), 1e-6 class for ideal endpoints / circle parameters / arccos"})
    ctx.product("packaging", "checks.c12:case_packaging", list(packaging_cases()),
                domains={"entries": len(_entries()), "scalar packagings": SCALAR_PACKS + INT_PACKS, "array packagings": ARRAY_PACKS + ARRAY_INT_PACKS}, chunk=16)
    ctx.product("doc-snippets", "checks.c12:case_snippet", [{"i": i} for i in range(7)], domains={"snippets": 7}, chunk=1)
    ctx.product("integer-points", "checks.c12:case_intpoints", list(intpoint_cases()),
                domains={"coordinates": INT_TIMELIKE, "packagings": INT_POINT_PACKS, "outputs": INT_OUTPUTS,
                         "oracle": "the same output from the float64 ndarray packaging (itself decided by C01, C13, C14, C15)"}, chunk=16)
    cf = []
    for c in coordfn_cases():
        c["seed"] = ctx.seed
        cf.append(c)
    ctx.assume("module-level coordinate functions: points lie inside the requested chart (every coordinate >= 0.05 in modulus); hyperbolic.hyperboloid_coords "
               "is given ndarrays only (its docstring says ndarray; it normalises its argument in place, which is not judged here); with chart_index=None "
               "the chosen chart may depend on the scaling, the returned coordinates must be the ones of the returned chart")
    ctx.product("coordinate-functions", "checks.c12:case_coordfn", cf,
                domains={"functions": ["projective.affine_coords chart 0..n and None", "hyperbolic.kleinian_coords", "hyperbolic.hyperboloid_coords",
                                       "projective.projective_coords chart 0..n"], "n": [2, 3], "batch shapes": CF_BATCHES, "points per matrix": CF_COUNTS,
                         "layouts": ["rows", "columns (column_vectors=True)"], "packagings": CF_PACKS,
                         "lambda patterns": "all ones + the 4 cyclic shifts of {1,-1,2.5,-0.3} over the points (one factor per point)"}, chunk=16)
    dims = (2, 3, 4) if q else (1, 2, 3, 4, 5)
    cases = []
    for c in rescale_cases(dims, ctx.seed, q):
        c["seed"] = ctx.seed
        c["quick"] = q
        cases.append(c)
    ctx.product("rescaling", "checks.c12:case_rescale", cases,
                domains={"dims": list(dims), "functions": RESC_FUNCS, "lambdas": LAM, "points per dim": len(_pts(2, ctx.seed, q))}, chunk=32)
