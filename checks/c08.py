"""C08 - Coxeter group representations satisfy the relations and preserve the form.

Engine P.  One case = one Coxeter matrix with one way of writing infinity, one constructor route
(matrix / diagram) and one naming style; inside the case every representation the API offers is built
fresh (geometric, canonical, both diagonalised, Cartan-matrix representations, Tits-Vinberg, hyperbolic)
and compared with the cosine form / signature computed by the oracle (mc/oracle/coxeter_words.py).
Groups whose cosine form is DEGENERATE (affine groups, infinite dihedral group, (2,2,inf), ...) are asked for the diagonalised
geometric / canonical representation as well (kinds geometric-diag/degenerate-form, canonical-diag/degenerate-form: relations,
form diag(-1.., 0.., +1..) preserved, conjugate of the undiagonalised representation).
Two more constructor configurations run the same comparison: "matrix-owned" (the caller keeps the ndarray /
nested list it passed as matrix= and afterwards leaves it alone, overwrites it with another Coxeter matrix
or with arbitrary integers: the group must keep the labels it was built from, and no call may write into
the caller's container or change G.coxeter_matrix) and "diagram+matrix" (redundant matrix= next to
diagram=: the documented behaviour is that the matrix is ignored).
Section request-order: the order in which the representations are requested from the ONE group object is
enumerated (each kind first; reversed; a diagonalised representation with a non-standard Cartan matrix -
Tits-Vinberg with free parameters, S C S - directly before hyperbolic_rep / the diagonalised geometric and
canonical ones) and every representation is requested a second time at the end (same generators).
Section word-values-owned: what rep[word] / isometries(words) hand out is the CALLER's: for every kind and every word of
length <= 2 (empty word, single generators, pairs) the value is read, written into in place (overwritten, or used as an
accumulator acc[...] = acc @ rep[g]) and read again - same value as before; all the other checks then run on the
representation whose values have been written over.
Second family: hyperbolic triangle groups, fixed points of the three rotations vs the angles pi/p,
pi/q, pi/r (mc/oracle/hyp.py).
"""
import itertools
import math
import warnings

import numpy as np

from mc.oracle import coxeter_words as cw
from mc.oracle import hyp

ALPHA = "abcdefghijklmnopqrstuvwxyz"
MAXMSG = 2


def gen_names(n, style):
    if style == "alpha":
        return [ALPHA[i] for i in range(n)]
    if style == "alphanum":
        return ["s%d" % i for i in range(n)]
    if style == "xyz":                      # diagram route only: names of the caller's choice
        return ["xyzuvw"[i] for i in range(n)]
    raise ValueError(style)


class Collector:
    def __init__(self, head):
        self.head = head
        self.d = {}
        self.worst = {}

    def add(self, key, msg):
        e = self.d.setdefault(key, [0, []])
        e[0] += 1
        if len(e[1]) < MAXMSG:
            e[1].append(msg)

    def num(self, key, err, tol, msg):
        """numeric sub-check: err must be <= tol"""
        r = float(err) / tol if tol > 0 else float("inf")
        if not (r <= self.worst.get(key.split("/")[0], (0.0,))[0]):
            self.worst[key.split("/")[0]] = (r, key)
        if not (err <= tol):
            self.add(key, "%s: error %.3g > tolerance %.3g" % (msg, err, tol))

    def out(self):
        return [{"key": k, "msg": "%s: %d witness(es), e.g. %s" % (self.head, n, " | ".join(ms))}
                for k, (n, ms) in sorted(self.d.items())]


PACKAGINGS = ["ndarray-int", "ndarray-float", "list"]
AFTERS = ["keep", "other", "garbage"]


def garbage(n):
    """not a Coxeter matrix at all: not symmetric, diagonal != 1, mixed signs"""
    return [[7 * i - 3 * j - 2 for j in range(n)] for i in range(n)]


def pack(m, packaging):
    if packaging == "list":
        return [list(r) for r in m]
    return np.array(m, dtype=(int if packaging == "ndarray-int" else float))


DIAGRAM_CONTAINERS = ["list", "tuple", "edges-as-lists", "dict-keys", "zip", "generator", "iterator", "map"]
PAIR_ORDERS = ["index", "rev", "rot"]


def pair_order(n, kind):
    """the pairs of a complete diagram on n nodes, listed so that the nodes first appear in index order ("index"), in
    reversed order ("rev": c, b, a) or rotated ("rot": b, c, .., a)"""
    if kind == "index":
        return [[i, j] for i in range(n) for j in range(i + 1, n)]
    if kind == "rev":
        return [[j, i] for i in range(n) for j in range(i + 1, n)][::-1]
    r = list(range(1, n)) + [0]
    return [[r[i], r[j]] for i in range(n) for j in range(i + 1, n)]


def diagram_container(kind, diagram):
    """the diagram ("an iterable of tuples") in one of the kinds of iterable; the last four can be walked only once"""
    if kind == "list":
        return list(diagram)
    if kind == "tuple":
        return tuple(diagram)
    if kind == "edges-as-lists":
        return [list(e) for e in diagram]
    if kind == "dict-keys":
        return dict.fromkeys(diagram).keys()
    if kind == "zip":
        return zip([e[0] for e in diagram], [e[1] for e in diagram], [e[2] for e in diagram])
    if kind == "generator":
        return (e for e in diagram)
    if kind == "iterator":
        return iter(diagram)
    if kind == "map":
        return map(tuple, [list(e) for e in diagram])
    raise ValueError(kind)


def build_group(case, V):
    """Fresh CoxeterGroup; returns (G, matrix written by the harness in the order of G.ordered_gens,
    names in that order, (container handed to the constructor as matrix=, its expected contents at
    the end of the case) or None); G is None when the constructor result cannot be interpreted."""
    from geometry_tools import coxeter
    m = case["m"]
    n = len(m)
    style = case.get("style", "alpha")
    route = case.get("route", "matrix")
    if route == "matrix":
        G = coxeter.CoxeterGroup(matrix=[list(r) for r in m], generator_style=style)
        return G, m, gen_names(n, style), None
    if route == "matrix-owned":
        # the caller keeps (and possibly reuses) the container it handed over
        box = pack(m, case["packaging"])
        G = coxeter.CoxeterGroup(matrix=box, generator_style=style)
        final = m
        if case["after"] != "keep":
            final = case["m2"] if case["after"] == "other" else garbage(n)
            for i in range(n):
                for j in range(n):
                    box[i][j] = final[i][j]
        return G, m, gen_names(n, style), (box, final)
    names = gen_names(n, style)
    pairs = case.get("pairs") or [[i, j] for i in range(n) for j in range(i + 1, n)]
    diagram = [(names[i], names[j], m[i][j]) for (i, j) in pairs]
    box = None
    if route == "diagram":
        G = coxeter.CoxeterGroup(diagram=diagram_container(case.get("container", "list"), diagram))
    else:
        # "diagram+matrix": redundant data; documented (docstring of generator_style, text of the
        # warning "ignoring Coxeter matrix and constructing from diagram"): the diagram defines the group
        box = pack(case["m2"], case.get("packaging", "list"))
        with warnings.catch_warnings():
            warnings.simplefilter("ignore")
            G = coxeter.CoxeterGroup(diagram=diagram, matrix=box, generator_style=case.get("mstyle", "alpha"))
    order = list(G.ordered_gens)
    if sorted(map(str, order)) != sorted(names):
        V.add("ctor/generator-names/" + route, "diagram on generators %r: the group has generators %r" % (names, order))
        return None, m, names, None
    idx = [names.index(g) for g in order]
    return G, [[m[a][b] for b in idx] for a in idx], order, (None if box is None else (box, case["m2"]))


def W(word, names, single):
    """word of letters -> what the library's representation indexing expects"""
    return "".join(names[s] for s in word) if single else [names[s] for s in word]


def words_upto(n, L):
    for k in range(L + 1):
        for w in itertools.product(range(n), repeat=k):
            yield w


def mat(x):
    """ndarray of a representation value (plain ndarray or a Transformation-like object; the
    latter stores the transpose, which is irrelevant for every quantity used on it here)."""
    if hasattr(x, "proj_data"):
        return np.asarray(x.proj_data, dtype=float)
    return np.asarray(x, dtype=float)


def scale_of(Ms):
    return max(1.0, max(float(np.max(np.abs(M))) for M in Ms))


# ----------------------------------------------------------------------------------------------
def relation_checks(V, tag, R, nm, names, single, exact_order):
    """involutions, (st)^m = I, and for exact_order: (st)^k != I for 0 < k < m."""
    n = len(nm)
    t = 0
    I = np.eye(n)
    gens = [mat(R[W((i,), names, single)]) for i in range(n)]
    t += n
    sc = scale_of(gens)
    for i in range(n):
        sq = mat(R[W((i, i), names, single)])
        t += 1
        V.num("%s/involution" % tag, np.max(np.abs(sq - I)), 1e-9 * sc ** 2, "generator %s squared" % names[i])
    for i in range(n):
        for j in range(n):
            if i == j:
                continue
            mm = nm[i][j]
            if mm <= 0:
                continue
            P = mat(R[W((i, j) * mm, names, single)])
            t += 1
            st = gens[i] @ gens[j]
            s2 = max(1.0, float(np.max(np.abs(st))))
            V.num("%s/braid-relation/m=%s" % (tag, "2" if mm == 2 else ("3" if mm == 3 else ">=4")),
                  np.max(np.abs(P - I)), 1e-9 * mm * s2 ** 2 * sc ** 2,
                  "(%s%s)^%d" % (names[i], names[j], mm))
            if exact_order and i < j:
                for k in range(1, mm):
                    Q = mat(R[W((i, j) * k, names, single)])
                    t += 1
                    if not (np.max(np.abs(Q - I)) >= 1e-3):
                        V.add("%s/order-too-small" % tag, "(%s%s)^%d = I although m = %d" % (names[i], names[j], k, mm))
    return gens, t


def case_group(case):
    route = case.get("route", "matrix")
    V = Collector("matrix %r (%s, %s%s)" % (case["m"], route, case.get("style", "alpha"),
                                           ", diagram given as %s, pairs %r" % (case["container"], case.get("pairs")) if "container" in case else ""))
    G, m, names, caller = build_group(case, V)
    if G is None:
        return {"v": V.out(), "t": 1, "o": "ctor", "nt": True}
    n = len(m)
    single = all(len(x) == 1 for x in names)
    cls = route + ("/" + case["packaging"] if "packaging" in case else "")

    def same_matrix(x, want):
        try:
            a = np.asarray(x)
            return a.shape == (len(want), len(want[0])) and bool(np.all(a == np.array(want)))
        except Exception:
            return False

    def owned(call):
        """the group's own labels are those it was constructed from, whatever has been called since and
        whatever the caller has done to the container it passed in"""
        if not same_matrix(G.coxeter_matrix, m):
            V.add("ownership/coxeter_matrix-changed/%s/%s" % (call, cls), "coxeter_matrix is now %r"
                  % (np.asarray(G.coxeter_matrix).tolist(),))
            return False
        return True

    if not same_matrix(G.coxeter_matrix, m):
        V.add("ctor/coxeter_matrix" + ("" if route in ("matrix", "diagram") else "/" + cls), "library matrix %r%s" % (np.asarray(G.coxeter_matrix).tolist(),
              "" if caller is None else "; the container passed as matrix= now holds %r" % (np.asarray(caller[0]).tolist(),)))
        return {"v": V.out(), "t": 1, "o": "ctor", "nt": True}
    nm = cw.normalize(m)
    B = cw.cosine_form(nm)
    pos, neg, null, clear = cw.signature(nm)
    has_inf = cw.has_infinite_label(nm)
    t = 1
    I = np.eye(n)
    words3 = list(words_upto(n, int(case.get("Lw", 3))))

    # ---- the cosine form itself
    Bret = G.bilinear_form()
    Bl = np.array(Bret, dtype=float)
    t += 1
    if case.get("scribble"):
        # the returned array belongs to the caller: overwriting it must not reach the group
        try:
            Bret[...] = 99.0
        except (TypeError, ValueError):
            pass
    owned("bilinear_form")
    if Bl.shape != B.shape:
        V.add("bilinear_form/shape", "shape %r" % (Bl.shape,))
    else:
        for i in range(n):
            for j in range(n):
                if not (abs(Bl[i, j] - B[i, j]) <= 1e-12):
                    cls2 = "diagonal" if i == j else ("infinite-label" if nm[i][j] <= 0 else "finite-label")
                    V.add("bilinear_form/value/" + cls2, "entry (%d,%d) for label %r is %r, -cos(pi/m) = %r"
                          % (i, j, m[i][j], float(Bl[i, j]), float(B[i, j])))

    # ---- which representations the API offers for this group, and how each is requested
    diag_ok = null == 0 and clear
    # a DEGENERATE cosine form (affine groups, the infinite dihedral group, (2,2,inf), ...): the form cannot be brought to a
    # diagonal of +-1, the diagonalised representation is still a representation (a conjugate of the undiagonalised one)
    deg_ok = null > 0 and clear
    DEG = "/degenerate-form"

    def guarded(kind, f):
        # these two requests must not take the rest of the case with them
        def g():
            try:
                return f()
            except Exception as e:  # noqa: BLE001 - converted into a violation
                V.add("%s/exception/%s" % (kind, type(e).__name__), "%s: %s" % (type(e).__name__, str(e)[:200]))
                return None
        return g
    hyp_ok = clear and neg == 1 and null == 0 and pos == n - 1 and n >= 3
    C0 = 2.0 * B
    d = np.array([1.0 + 0.5 * i for i in range(n)])
    C1 = (C0 * d[:, None]) / d[None, :]                 # D C D^-1: not symmetric, same cyclic products
    sg = np.array([(-1.0) ** i for i in range(n)])
    C2 = C0 * sg[:, None] * sg[None, :]                 # S C S, S = diag(+1,-1,+1,..): symmetric, same cyclic products
    other = "alphanum" if case.get("style", "alpha") == "alpha" else "alpha"
    # renaming INTO the style the group's own names come from: generator number i of G.ordered_gens gets the i-th default
    # name, which may be the own name of another generator (diagram listing its nodes in another order)
    own = case.get("style", "alpha") if case.get("style", "alpha") in ("alpha", "alphanum") else "alpha"
    params, pm = {}, np.zeros((n, n))
    tvd_ok, tneg, tpos = False, 0, 0
    if has_inf:
        for i in range(n):
            for j in range(i + 1, n):
                if nm[i][j] <= 0:
                    params[(i, j)] = -2.5 - 0.25 * (i + j)
                    pm[i, j] = params[(i, j)]
        # the deformed Cartan matrix (free parameters are documented for the pairs whose label is
        # written negative; with the label written 0 the library leaves the entry at -2): diagonalised
        # only when every infinite label is negative and the deformed form is non-degenerate
        if all(m[i][j] < 0 for (i, j) in params):
            Cd = C0.copy()
            for (i, j), pv in params.items():
                Cd[i, j] = Cd[j, i] = pv
            evd = np.linalg.eigvalsh(Cd / 2.0)
            if float(np.min(np.abs(evd))) > 1e-3:
                tvd_ok, tneg, tpos = True, int(np.sum(evd < 0)), int(np.sum(evd > 0))

    def scribbled_tv():
        # the Cartan matrix handed out is the caller's as well
        Cm = G.cartan_matrix(dict(params))
        try:
            Cm[...] = 99.0
        except (TypeError, ValueError):
            pass
        return G.tits_vinberg_rep(dict(params))

    # Cartan / parameter arrays are the CALLER's: each kind gets one array that is handed to the library on every
    # request of that kind (first request, repeated request) and must still hold the same numbers afterwards
    mine = {"cartan": C0.copy(), "cartan-nonsymmetric": C1.copy(), "cartan-renamed": C1.copy(),
            "cartan-renamed-own-style": C1.copy(), "cartan-renamed-own-style-diag": C2.copy(),
            "cartan-signed-diag": C2.copy(), "tits-vinberg/matrix": np.array(pm, copy=True)}
    pristine = {k: np.array(a, copy=True) for k, a in mine.items()}

    # (kind, applicable, request, generator names of the result)
    table = [
        ("geometric", True, lambda: G.geometric_representation(), names),
        ("canonical", True, lambda: G.canonical_representation(), names),
        ("geometric-diag", diag_ok, lambda: G.geometric_representation(diagonalize=True), names),
        ("canonical-diag", diag_ok, lambda: G.canonical_representation(diagonalize=True), names),
        ("geometric-diag" + DEG, deg_ok, guarded("geometric-diag" + DEG, lambda: G.geometric_representation(diagonalize=True)), names),
        ("canonical-diag" + DEG, deg_ok, guarded("canonical-diag" + DEG, lambda: G.canonical_representation(diagonalize=True)), names),
        ("cartan", True, lambda: G.cartan_representation(mine["cartan"]), names),
        ("cartan-nonsymmetric", True, lambda: G.cartan_representation(mine["cartan-nonsymmetric"]), names),
        ("cartan-renamed", True, lambda: G.cartan_representation(mine["cartan-renamed"], rename_generators=True, generator_style=other),
         gen_names(n, other)),
        ("cartan-renamed-own-style", True,
         lambda: G.cartan_representation(mine["cartan-renamed-own-style"], rename_generators=True, generator_style=own), gen_names(n, own)),
        ("cartan-renamed-own-style-diag", diag_ok,
         lambda: G.cartan_representation(mine["cartan-renamed-own-style-diag"], rename_generators=True, generator_style=own, diagonalize=True),
         gen_names(n, own)),
        ("tits-vinberg-renamed-own-style", has_inf,
         lambda: G.tits_vinberg_rep(dict(params), rename_generators=True, generator_style=own), gen_names(n, own)),
        ("cartan-signed-diag", diag_ok, lambda: G.cartan_representation(mine["cartan-signed-diag"], diagonalize=True), names),
        ("tits-vinberg/dict", has_inf, lambda: G.tits_vinberg_rep(dict(params)), names),
        ("tits-vinberg/matrix", has_inf, lambda: G.tits_vinberg_rep(mine["tits-vinberg/matrix"]), names),
        ("tits-vinberg-diag", tvd_ok, lambda: G.tits_vinberg_rep(dict(params), diagonalize=True), names),
        ("tits-vinberg/after-scribble", has_inf and bool(case.get("scribble")), scribbled_tv, names),
        ("hyperbolic", hyp_ok, lambda: G.hyperbolic_rep(), names),
    ]
    kinds = [k for (k, ok, _, _) in table if ok]
    request = {k: f for (k, ok, f, _) in table if ok}
    names_of = {k: nms for (k, ok, _, nms) in table if ok}
    # ---- the order in which they are requested from the ONE group object
    order = list(kinds)
    spec = case.get("order")
    if spec:
        if any(k not in kinds for k in spec[1:]):
            return {"v": V.out(), "t": t, "o": "order-n/a", "nt": False}
        if spec[0] == "first":
            order = [spec[1]] + [k for k in kinds if k != spec[1]]
        elif spec[0] == "before":           # spec[1] directly before spec[2]
            order = [k for k in kinds if k != spec[1]]
            order.insert(order.index(spec[2]), spec[1])
        elif spec[0] == "reversed":
            order = kinds[::-1]
        else:
            raise ValueError(spec)
    reps = {}
    for k in order:
        reps[k] = request[k]()
        t += 1
        owned(k)

    def gens_of(k):
        if reps[k] is None:
            return None
        nms = names_of[k]
        sgl = all(len(x) == 1 for x in nms)
        return [mat(reps[k][W((i,), nms, sgl)]) for i in range(n)]
    first = {k: gens_of(k) for k in kinds}

    # ---- the values handed out belong to the caller: reading rep[word], writing into the returned matrix in place and
    #      reading again gives the value the representation had before (all later checks run on the representation after this)
    handout = case.get("handout")
    if handout:
        for k in kinds:
            R = reps[k]
            if R is None:
                continue
            nms = names_of[k]
            sgl = all(len(x) == 1 for x in nms)
            kb = k.split("/")[0]

            def raw(x):
                return x.proj_data if hasattr(x, "proj_data") else x

            def hostile(a, w):
                # in-place use of an array the caller was given
                if not isinstance(a, np.ndarray) or not a.flags.writeable:
                    return
                if handout == "accumulate":
                    g = mat(R[W(((w[-1] + 1) % n if w else 0,), nms, sgl)])
                    a[...] = (a @ g if a.ndim == 2 else a @ g[None]) * 2.0 + 1.0
                else:
                    a[...] = 99.0
            for w in words_upto(n, 2):
                lw = W(w, nms, sgl)
                a = raw(R[lw])
                before = np.array(a, dtype=float, copy=True)
                hostile(a, w)
                after = np.asarray(raw(R[lw]), dtype=float)
                t += 2
                if after.shape != before.shape or not (np.max(np.abs(after - before)) <= 1e-9 * scale_of([before])):
                    V.add("ownership/word-value-aliased/%s/len=%s" % (kb, (str(len(w)) if len(w) < 2 else ">=2")),
                          "%s: rep[%r] was %r; after the caller wrote into the returned matrix (%s) rep[%r] is %r"
                          % (k, lw, before.tolist(), handout, lw, after.tolist()))
            if k == "hyperbolic":
                ws = [W(w, nms, sgl) for w in words_upto(n, 2) if len(w) >= 1]
                a = raw(R.isometries(list(ws)))
                before = np.array(a, dtype=float, copy=True)
                hostile(a, (0,))
                after = np.asarray(raw(R.isometries(list(ws))), dtype=float)
                t += 2
                if after.shape != before.shape or not (np.max(np.abs(after - before)) <= 1e-9 * scale_of([before])):
                    V.add("ownership/word-value-aliased/hyperbolic/isometries", "isometries(%r) differs after the caller wrote into the "
                          "array of the first answer (%s)" % (ws, handout))
            owned("handout/" + kb)
        if any(key.startswith("ownership/word-value-aliased/") for key in V.d):
            # the representation objects have been damaged through the alias: the remaining checks would only repeat that
            return {"v": V.out(), "t": t, "o": "handout-aliased", "nt": True}

    # ---- geometric and canonical representation
    geo, can = reps["geometric"], reps["canonical"]
    ggens, tt = relation_checks(V, "geometric", geo, nm, names, single, False)
    t += tt
    cgens, tt = relation_checks(V, "canonical", can, nm, names, single, True)
    t += tt
    conv = "?"
    ec = er = 0.0
    gw = {}
    for w in words3:
        M = mat(geo[W(w, names, single)])
        gw[w] = M
        t += 1
        s = max(1.0, float(np.max(np.abs(M)))) ** 2
        ec = max(ec, float(np.max(np.abs(M.T @ B @ M - B))) / s)
        er = max(er, float(np.max(np.abs(M @ B @ M.T - B))) / s)
    # "preserves the form": M^T B M = B for matrices acting on column vectors (s_i = I - e_i e_i^T C,
    # the convention of cartan_representation) or M B M^T = B for row vectors; the property does not
    # fix the convention, so either is accepted provided it is the same for all words
    conv = "col" if ec <= er else "row"
    V.num("geometric/form-preserved", min(ec, er), 1e-9, "max over words of length <= 3 of |M^T B M - B| / |M|^2 "
          "(column convention %.3g, row convention %.3g)" % (ec, er))
    for w in words3:
        C = mat(can[W(w, names, single)])
        t += 1
        want = np.linalg.inv(gw[w]).T
        V.num("canonical/dual-of-geometric", float(np.max(np.abs(C - want))), 1e-9 * scale_of([want]) ** 2,
              "word %r: canonical vs inverse transpose of geometric" % (w,))

    # ---- diagonalised variants (only for a non-degenerate form: the documented target is a
    #      diagonal form with unit-modulus entries)
    def diag_form_checks(tag, R, nneg, npos, ref, nnull=0):
        """relations, M^T D M = D for D = diag(-1 x nneg, 0 x nnull, +1 x npos), same traces as the undiagonalised
        representation `ref` (dict word -> matrix)"""
        nonlocal t
        D = np.diag([-1.0] * nneg + [0.0] * nnull + [1.0] * npos)
        _, tt = relation_checks(V, tag, R, nm, names, single, False)
        t += tt
        out = {}
        for w in words3:
            M = mat(R[W(w, names, single)])
            out[w] = M
            t += 1
            s = max(1.0, float(np.max(np.abs(M)))) ** 2
            V.num("%s/form-preserved" % tag, float(np.max(np.abs(M.T @ D @ M - D))) / s, 1e-8,
                  "word %r: |M^T D M - D| / |M|^2 with D = diag(-1 x %d, +1 x %d)" % (w, nneg, npos))
            # same representation up to conjugacy: traces agree with the undiagonalised one
            V.num("%s/conjugate-of-undiagonalised" % tag if tag != "geometric-diag" else "geometric-diag/conjugate-of-geometric",
                  abs(float(np.trace(M) - np.trace(ref[w]))),
                  1e-8 * scale_of([M, ref[w]]) * n, "word %r: trace differs" % (w,))
        return out

    o_diag = ""
    if diag_ok:
        gd = diag_form_checks("geometric-diag", reps["geometric-diag"], neg, pos, gw)
        cand = reps["canonical-diag"]
        _, tt = relation_checks(V, "canonical-diag", cand, nm, names, single, True)
        t += tt
        for w in words3:
            C = mat(cand[W(w, names, single)])
            t += 1
            want = np.linalg.inv(gd[w]).T
            V.num("canonical-diag/dual-of-geometric", float(np.max(np.abs(C - want))), 1e-8 * scale_of([want]) ** 2,
                  "word %r" % (w,))
        o_diag = "D"
    if deg_ok:
        o_diag = "N"
        gdr, cdr = reps["geometric-diag" + DEG], reps["canonical-diag" + DEG]
        gd = None
        if gdr is not None:
            # order_eigenvalues="signed": ascending eigenvalues, the kernel between the negative and the positive directions
            gd = diag_form_checks("geometric-diag" + DEG, gdr, neg, pos, gw, nnull=null)
            # a conjugate of the geometric representation, not a quotient of it: the powers of the Coxeter element (the
            # translations of an affine group) keep the rank of M - I
            cox_w = tuple(range(n))
            for k in (1, 2, 3, 4):
                w = cox_w * k
                M, M0 = mat(gdr[W(w, names, single)]), mat(geo[W(w, names, single)])
                t += 2
                rk = [int(np.sum(np.linalg.svd(X - I, compute_uv=False) > 1e-6 * scale_of([X]))) for X in (M, M0)]
                if rk[0] != rk[1]:
                    V.add("geometric-diag" + DEG + "/conjugate-of-geometric/rank", "Coxeter element to the power %d: rank(M - I) = %d, "
                          "undiagonalised %d" % (k, rk[0], rk[1]))
        if cdr is not None:
            _, tt = relation_checks(V, "canonical-diag" + DEG, cdr, nm, names, single, True)
            t += tt
            for w in (words3 if gd is not None else []):
                C = mat(cdr[W(w, names, single)])
                t += 1
                if abs(np.linalg.det(gd[w])) > 1e-6:
                    want = np.linalg.inv(gd[w]).T
                    V.num("canonical-diag" + DEG + "/dual-of-geometric", float(np.max(np.abs(C - want))), 1e-8 * scale_of([want]) ** 2,
                          "word %r" % (w,))

    # ---- Cartan-matrix representations
    for tag in ("cartan", "cartan-nonsymmetric", "cartan-renamed", "cartan-renamed-own-style", "cartan-renamed-own-style-diag",
                "tits-vinberg-renamed-own-style"):
        if tag not in reps:
            continue
        nms = names_of[tag]
        _, tt = relation_checks(V, tag, reps[tag], nm, nms, all(len(x) == 1 for x in nms), False)
        t += tt
    if diag_ok:
        # S C S is the Cartan matrix of the geometric representation conjugated by S: same traces
        diag_form_checks("cartan-signed-diag", reps["cartan-signed-diag"], neg, pos, gw)
    if has_inf:
        tvw = None
        for tag in ("tits-vinberg/dict", "tits-vinberg/matrix", "tits-vinberg/after-scribble"):
            if tag not in reps:
                continue
            _, tt = relation_checks(V, tag.split("/")[0], reps[tag], nm, names, single, False)
            t += tt
        if tvd_ok:
            tvw = {w: mat(reps["tits-vinberg/dict"][W(w, names, single)]) for w in words3}
            t += len(words3)
            diag_form_checks("tits-vinberg-diag", reps["tits-vinberg-diag"], tneg, tpos, tvw)
            o_diag += "T"

    # ---- hyperbolic representation
    o_hyp = ""
    if hyp_ok:
        hr = reps["hyperbolic"]
        J = hyp.J(n - 1)
        hg, tt = relation_checks(V, "hyperbolic", hr, nm, names, single, False)
        t += tt
        for i, M in enumerate(hg):
            s = max(1.0, float(np.max(np.abs(M)))) ** 2
            V.num("hyperbolic/in-O(d,1)", float(np.max(np.abs(M.T @ J @ M - J))) / s, 1e-8,
                  "generator %s: |M^T J M - J| / |M|^2" % names[i])
            sv = np.linalg.svd(M - I, compute_uv=True)
            V.num("hyperbolic/reflection/rank", float(sv[1][1]) / max(1.0, float(sv[1][0])), 1e-7,
                  "generator %s: M - I has second singular value" % names[i])
            V.num("hyperbolic/reflection/trace", abs(float(np.trace(M)) - (n - 2)), 1e-8 * s,
                  "generator %s: trace %r, a reflection has %d" % (names[i], float(np.trace(M)), n - 2))
            # the (-1)-eigenvector (normal of the wall) must be spacelike
            ev, evec = np.linalg.eig(M.T)       # proj_data is the row matrix: x -> x @ M
            k = int(np.argmin(np.abs(ev + 1.0)))
            v = np.real(evec[:, k])
            q = float(hyp.mink(v, v)) / float(np.sum(v * v))
            if not (q > 1e-9):
                V.add("hyperbolic/reflection/normal-not-spacelike", "generator %s: <v,v>/|v|^2 = %r" % (names[i], q))
        ws = [w for w in words3 if len(w) >= 1]
        iso = hr.isometries([W(w, names, single) for w in ws])
        t += 1
        arr = mat(iso)
        if arr.shape != (len(ws), n, n):
            V.add("hyperbolic/isometries/shape", "shape %r for %d words" % (arr.shape, len(ws)))
        else:
            for w, M in zip(ws, arr):
                s = max(1.0, float(np.max(np.abs(M)))) ** 2
                V.num("hyperbolic/in-O(d,1)", float(np.max(np.abs(M.T @ J @ M - J))) / s, 1e-8,
                      "isometries(): word %r" % (w,))
                want = np.eye(n)
                for x in w:
                    want = want @ hg[x]
                # proj_data of a product of column matrices A.B is (A.B)^T = B^T.A^T: compare both ways
                e1 = float(np.max(np.abs(M - want)))
                w2 = np.eye(n)
                for x in reversed(w):
                    w2 = w2 @ hg[x]
                e2 = float(np.max(np.abs(M - w2)))
                V.num("hyperbolic/isometries/product", min(e1, e2), 1e-8 * s, "word %r is not the product of its letters" % (w,))
        o_hyp = "H%d" % (n - 1)

    # ---- every representation asked for a second time, after all the others: a representation is a
    #      function of the group and the arguments of the request, not of what was requested before
    for k in (kinds if case.get("repeat") else []):
        reps[k] = request[k]()
        t += 1
        again = gens_of(k)
        if again is None or first[k] is None:
            continue
        sc = scale_of(first[k] + again)
        err = max(float(np.max(np.abs(a - b))) for a, b in zip(first[k], again))
        V.num("repeat/%s" % k.split("/")[0], err, 1e-9 * sc,
              "%s requested again at the end: generators differ from the first request (order of requests %r)" % (k, order))
    if case.get("repeat"):
        owned("second-requests")

    if caller is not None:
        if case.get("automaton"):
            G.automaton()
            t += 1
            owned("automaton")
            # asked for again after everything else: still the relations of the ORIGINAL labels
            _, tt = relation_checks(V, "geometric", G.geometric_representation(), nm, names, single, False)
            t += tt + 1
        box, final = caller
        if not same_matrix(box, final):
            V.add("ownership/caller-container-modified/" + cls, "the container passed as matrix= held %r, now %r"
                  % (final, np.asarray(box).tolist()))
    for knd in sorted(mine):
        if mine[knd].shape != pristine[knd].shape or not np.array_equal(mine[knd], pristine[knd]):
            V.add("ownership/caller-cartan-modified/" + knd, "the array handed to the library for the %s request held %r, now %r"
                  % (knd, pristine[knd].tolist(), mine[knd].tolist()))
    worst = max([r for (r, k) in V.worst.values()] or [0.0])
    cox = np.eye(n)
    for gmat in ggens:
        cox = cox @ gmat
    o = "sig(%d,%d,%d)%s%s|%s|%s|tr=%.3f" % (pos, neg, null, o_diag, o_hyp, conv, "inf" if has_inf else "fin",
                                             float(np.trace(cox)))
    return {"v": V.out(), "t": t, "o": o, "nt": n >= 2 and any(x != 2 for r in nm for x in r if x != 1),
            "worst": worst, "worst_key": max(V.worst.values())[1] if V.worst else ""}


# ----------------------------------------------------------------------------------------------
# triangle groups
# ----------------------------------------------------------------------------------------------
def angle_between_rays(p, x, y):
    """Angle at the interior point p (timelike vector) between the geodesic rays towards x and y
    (timelike or lightlike vectors): angle of the tangent vectors t = x + <p,x> p / (-<p,p>)."""
    p = np.asarray(p, dtype=float)
    p = p / math.sqrt(-hyp.mink(p, p))
    ts = []
    for z in (x, y):
        z = np.asarray(z, dtype=float)
        if hyp.mink(z, p) > 0:              # same sheet / same nappe as p
            z = -z
        tz = z + hyp.mink(p, z) * p
        ts.append(tz / math.sqrt(hyp.mink(tz, tz)))
    return math.acos(max(-1.0, min(1.0, float(hyp.mink(ts[0], ts[1])))))


def case_triangle(case):
    from geometry_tools import coxeter
    pqr = list(case["pqr"])
    V = Collector("triangle group %r" % (pqr,))
    T = coxeter.TriangleGroup(tuple(pqr))
    hr = T.hyperbolic_rep()
    t = 2
    verts = []
    kinds = []
    ideal_any = any(x <= 0 for x in pqr)
    for w, lab in (("ab", pqr[0]), ("bc", pqr[1]), ("ca", pqr[2])):
        iso = hr[w]
        fp = iso.fixed_point()
        t += 2
        x = np.asarray(fp.proj_data, dtype=float)
        P = np.asarray(iso.proj_data, dtype=float)
        if x.shape != (3,):
            V.add("triangle/fixed_point/shape", "fixed point of %s has shape %r" % (w, x.shape))
            return {"v": V.out(), "t": t, "o": "shape", "nt": True}
        tolx = 1e-4 if lab <= 0 else 1e-7
        V.num("triangle/fixed_point/%s" % ("ideal" if lab <= 0 else "interior"),
              float(hyp.proj_sin_err(x @ P, x)), tolx, "fixed_point() of %s is moved by it" % w)
        q = float(hyp.mink(x, x)) / float(np.sum(x * x))
        if lab <= 0:
            if abs(q) > 1e-6:
                V.add("triangle/vertex-type/infinite-label", "label inf at %s: fixed point has <x,x>/|x|^2 = %r, "
                      "expected an ideal (lightlike) point" % (w, q))
            kinds.append("i")
        else:
            if not q < -1e-6:
                V.add("triangle/vertex-type/finite-label", "label %d at %s: fixed point has <x,x>/|x|^2 = %r, "
                      "expected a point of the hyperbolic plane" % (lab, w, q))
            kinds.append("f")
        verts.append(x)
    if V.d:
        return {"v": V.out(), "t": t, "o": "".join(kinds), "nt": True}
    tol = 1e-4 if ideal_any else 1e-6
    for k in range(3):
        lab = pqr[k]
        if lab <= 0:
            continue                        # ideal vertex: angle 0 = pi/inf, verified by lightlikeness
        p, x, y = verts[k], verts[(k + 1) % 3], verts[(k + 2) % 3]
        want = math.pi / lab
        a1 = angle_between_rays(p, x, y)
        V.num("triangle/angle/%s" % ("with-ideal-vertex" if ideal_any else "compact"), abs(a1 - want), tol,
              "angle at the fixed point of %s is %r, pi/%d = %r" % (("ab", "bc", "ca")[k], a1, lab, want))
        if not ideal_any:
            kl = [v[1:] / v[0] for v in (p, x, y)]
            a2 = float(hyp.angle_at(kl[0], kl[1], kl[2]))      # hyperbolic law of cosines on distances
            V.num("triangle/angle/compact", abs(a2 - want), tol,
                  "law of cosines: angle at the fixed point of %s is %r, pi/%d = %r" % (("ab", "bc", "ca")[k], a2, lab, want))
    worst = max([r for (r, k) in V.worst.values()] or [0.0])
    return {"v": V.out(), "t": t, "o": "".join(kinds) + "|" + ",".join(str(x if x > 0 else "inf") for x in sorted(pqr, key=lambda z: (z <= 0, z))),
            "nt": True, "worst": worst}


# ----------------------------------------------------------------------------------------------
def sym_matrix(n, labels):
    m = [[1 if i == j else None for j in range(n)] for i in range(n)]
    for (i, j), l in zip(itertools.combinations(range(n), 2), labels):
        m[i][j] = m[j][i] = l
    return m


def encodings(m):
    ninf = sum(1 for i in range(len(m)) for j in range(i) if m[i][j] <= 0)
    if ninf == 0:
        return [m]
    return [cw.encode(m, 0), cw.encode(m, -1)]


def all_matrices(n, labels):
    for ls in itertools.product(labels, repeat=n * (n - 1) // 2):
        yield sym_matrix(n, ls)


def rank5_family(labels):
    perm = [2, 0, 4, 1, 3]
    for ls in itertools.product(labels, repeat=4):
        p = cw.path_matrix(list(ls))
        yield p
        yield cw.permute(p, perm)
        yield cw.star_matrix(list(ls), centre=0)
        yield cw.star_matrix(list(ls), centre=2)
    for ls in itertools.product(labels, repeat=5):
        yield cw.cycle_matrix(list(ls))


def triangle_cases():
    labs = [2, 3, 4, 5, 6, 7, 8, 0]
    out = []
    for p, q, r in itertools.combinations_with_replacement(labs, 3):
        inv = sum((1.0 / x if x > 0 else 0.0) for x in (p, q, r))
        if not inv < 1 - 1e-12:
            continue
        for perm in sorted(set(itertools.permutations((p, q, r)))):
            if 0 in perm:
                out.append({"pqr": [x if x > 0 else 0 for x in perm]})
                out.append({"pqr": [x if x > 0 else -1 for x in perm]})
            else:
                out.append({"pqr": list(perm)})
    return out


ROUTES = [("matrix", "alpha", None), ("matrix", "alphanum", None), ("diagram", "alpha", None),
          ("diagram", "alphanum", None), ("diagram", "xyz", "rev")]


def route_cases(m, routes):
    n = len(m)
    for (route, style, pairs) in routes:
        c = {"m": m, "route": route, "style": style}
        if pairs == "rev":
            c["pairs"] = [[j, i] for i in range(n) for j in range(i + 1, n)][::-1]
        yield c


def shifted(m, labs):
    """a different valid Coxeter matrix of the same rank: every off-diagonal label replaced by its
    successor in the cycle labs (infinity keeps the encoding used in m)"""
    inf = min([x for r in m for x in r if x <= 0] or [0])
    norm = [0 if x <= 0 else x for x in labs]

    def nxt(x):
        y = norm[(norm.index(0 if x <= 0 else x) + 1) % len(norm)]
        return inf if y == 0 else y
    n = len(m)
    return [[1 if i == j else nxt(m[i][j]) for j in range(n)] for i in range(n)]


def bordered(m, label=3):
    n = len(m)
    return [list(r) + [label] for r in m] + [[label] * n + [1]]


def owned_cases(m, labs, k=None):
    """matrix route, the caller keeps the container: (packaging, what the caller does with it after the
    constructor returned) - all 9 combinations, or the k-th of the cycle"""
    combos = [(pk, af) for pk in PACKAGINGS for af in AFTERS]
    sel = range(len(combos)) if k is None else [k % len(combos)]
    for c in sel:
        pk, af = combos[c]
        case = {"m": m, "route": "matrix-owned", "style": ("alpha", "alphanum")[(c + (k or 0) // len(combos)) % 2],
                "packaging": pk, "after": af, "scribble": True, "automaton": len(m) <= 3}
        if af == "other":
            case["m2"] = shifted(m, labs)
        yield case


def redundant_cases(m, labs, mode, k=0):
    """diagram route with a redundant matrix= argument: the same matrix, a different matrix of the same
    rank, of rank + 1, of rank - 1 (rank >= 3); x naming of the diagram; x (generator_style, packaging of
    the matrix).  mode "full": complete product; "cycled": every (matrix, naming), the last factor cycled;
    "one": the k-th (matrix, naming) of the cycle only."""
    n = len(m)
    sh = shifted(m, labs)
    variants = [m, sh, bordered(sh)] + ([[r[:n - 1] for r in sh[:n - 1]]] if n >= 3 else [])
    dstyles = [("alpha", None), ("alphanum", None), ("xyz", "rev")]
    extra = [(ms, pk) for ms in ("alpha", "alphanum") for pk in ("list", "ndarray-int")]
    combos = [(a, b) for a in range(len(variants)) for b in range(len(dstyles))]
    for idx, (a, b) in enumerate(combos):
        if mode == "one" and idx != k % len(combos):
            continue
        for e in (range(len(extra)) if mode == "full" else [(idx + k) % len(extra)]):
            case = {"m": m, "route": "diagram+matrix", "style": dstyles[b][0], "m2": variants[a],
                    "mstyle": extra[e][0], "packaging": extra[e][1]}
            if dstyles[b][1] == "rev":
                case["pairs"] = [[j, i] for i in range(n) for j in range(i + 1, n)][::-1]
            yield case


DIAG_SOURCES = ["tits-vinberg-diag", "cartan-signed-diag"]
DIAG_TARGETS = ["hyperbolic", "geometric-diag", "canonical-diag"]
ORDER_KINDS = ["canonical", "geometric-diag", "canonical-diag", "cartan", "cartan-nonsymmetric", "cartan-renamed",
               "cartan-signed-diag", "tits-vinberg/dict", "tits-vinberg/matrix", "tits-vinberg-diag", "hyperbolic"]
ORDERS = ([None, ["reversed"]] + [["first", k] for k in ORDER_KINDS]
          + [["before", a, b] for a in DIAG_SOURCES for b in DIAG_TARGETS])


def order_cases(m, route, orders):
    """the same group data, one case per order in which the representations are requested from the one
    group object; every representation is requested a second time at the end"""
    for o in orders:
        for c in route_cases(m, [route]):
            c["Lw"] = 2
            c["repeat"] = True
            if o is not None:
                c["order"] = o
            yield c


def _wanted(ctx, name):
    only = getattr(ctx, "only", None)
    return not only or any(name.startswith(p) for p in only)


def run(ctx):
    q = ctx.quick

    def P(name, fn, cases, **kw):
        if _wanted(ctx, name):
            ctx.product(name, fn, cases, **kw)

    ctx.rule = ("one case = (Coxeter matrix, encoding of infinity, constructor route, naming style, order of requests); inside it all "
                "representations offered by the API are requested from ONE group object (section request-order: in every enumerated order, "
                "and a second time at the end) and all relations / all words of length <= 3 are "
                "evaluated (rank 4 quick and rank 5: length <= 2); non-trivial = the matrix has a label other than 2; triangle cases: one (p,q,r) ordering "
                "with one encoding of infinity")
    ctx.assume("Coxeter matrices are symmetric integer matrices, 1 on the diagonal, entries >= 2 or <= 0 (infinite); "
               "a diagram lists every pair of generators once")
    ctx.assume("a group is defined by the data handed to its constructor at that moment: what the caller does afterwards with the "
               "container it passed as matrix= (or with arrays returned by bilinear_form / cartan_matrix) does not change the group")
    ctx.assume("diagram= together with matrix=: the diagram defines the group (constructor docstring: generator_style 'is ignored if a "
               "diagram is specified'; warning text 'ignoring Coxeter matrix and constructing from diagram'); the warning is suppressed")
    ctx.assume("diagonalize=True for a non-degenerate cosine form (all |eigenvalues| > 1e-6): the documented target is a diagonal form "
               "with unit-modulus entries (kinds geometric-diag, canonical-diag, cartan-*-diag).  For a DEGENERATE cosine form (null "
               "eigenvalues <= 1e-9 in the oracle, the others > 1e-6: affine groups, infinite dihedral group, (2,2,inf), ...) "
               "geometric_representation / canonical_representation(diagonalize=True) are requested as kinds "
               "geometric-diag/degenerate-form, canonical-diag/degenerate-form: involutions, braid relations, exact orders (canonical), "
               "M^T D M = D for D = diag(-1 x neg, 0 x null, +1 x pos) (utils.diagonalize_form: 'W^T B W = D with the same signature as B', "
               "signed order), same traces as the undiagonalised representation (words of length <= Lw) and the same rank of M - I "
               "on the powers 1..4 of the Coxeter element; an exception of these two requests is reported as <kind>/exception/<Type> and the case goes on")
    ctx.assume("tits_vinberg_rep(parameters, diagonalize=True) is requested only when every infinite label of the matrix is written "
               "negative (cartan_matrix documents free parameters for those entries) and the harness's deformed symmetric Cartan matrix "
               "has all |eigenvalues| > 1e-3; cartan_representation(S C S, diagonalize=True) only for a non-degenerate cosine form")
    ctx.assume("a diagram is any iterable of (generator, generator, label) triples (constructor docstring), also one that can be walked "
               "only once; its generators are named as it names them, in the order of first appearance")
    ctx.assume("rename_generators=True names generator number i (in the order of G.ordered_gens) by the i-th default name of "
               "generator_style, whatever the group's own names are")
    ctx.assume("a representation is a function of the group and of the arguments of the request: requested again after any other "
               "requests to the same group object it has the same generators (1e-9 relative)")
    ctx.assume("a matrix (or Isometry) returned by rep[word] / rep.isometries(words) is the caller's: writing into it in place does not "
               "change what the representation returns for any word afterwards (section word-values-owned)")
    ctx.assume("hyperbolic_rep is requested only when the oracle's cosine form has signature (d,1), eigenvalue margin 1e-6")
    ctx.assume("'preserves the form' is accepted in either matrix convention (M^T B M = B or M B M^T = B), the same "
               "for all words; O(d,1) membership and the diagonal +-1 forms are convention independent")
    ctx.assume("Cartan matrices handed to cartan_representation have diagonal 2 and C_ij C_ji = 4 cos^2(pi/m_ij) for "
               "finite m_ij (the symmetric one and a diagonal conjugate D C D^-1); Tits-Vinberg parameters are given "
               "for the infinite pairs only")
    ctx.tolerances["relations"] = ("|X - I| <= 1e-9 * m * |st|^2 * |gens|^2 (products of at most 2m <= 24 matrices, "
                                   "entries O(|gens|)); measured <= 1e-12 relative; defects are O(1)")
    ctx.tolerances["form"] = ("|M^T B M - B| / |M|^2 <= 1e-9 (undiagonalised), 1e-8 after conjugation by the "
                              "eigenbasis scaled by 1/sqrt|lambda| (|lambda| >= 1e-6 by assumption)")
    ctx.tolerances["triangle"] = ("angles 1e-6 for compact triangles; 1e-4 when an ideal vertex is involved: the "
                                  "parabolic rotation is a defective matrix (one 3x3 Jordan block), LAPACK returns its "
                                  "fixed vector to eps^(1/3) ~ 6e-6")
    # ---- rank 2 and 3
    fin = list(range(2, 13))
    labs = fin + [0]
    cases = []
    for l in labs:
        for mm in encodings(sym_matrix(2, [l])):
            cases.extend(route_cases(mm, ROUTES))
    P("rank2", "checks.c08:case_group", cases,
      domains={"labels": labs, "infinity written as": [0, -1], "routes": [r[:2] for r in ROUTES]}, chunk=4)
    cases = []
    sub = [2, 3, 4, 5, 7, 12, 0]
    for m in all_matrices(3, labs):
        for mm in encodings(m):
            if q:
                full = all((x in sub) for r in m for x in r if x != 1)
                cases.extend(route_cases(mm, ROUTES if full else ROUTES[:1]))
            else:
                cases.extend(route_cases(mm, ROUTES))
    P("rank3", "checks.c08:case_group", cases,
      domains={"labels": labs, "ordered matrices": 13 ** 3, "infinity written as": [0, -1],
               "routes": ([r[:2] for r in ROUTES] if not q else "matrix/alpha for all; all 5 routes for labels %r" % sub)},
      chunk=16)
    # ---- the diagram as every kind of iterable, its nodes named in both default styles and listed in other orders
    combos = [(cn, st, po) for cn in DIAGRAM_CONTAINERS for st in ("alpha", "alphanum", "xyz") for po in PAIR_ORDERS]
    fullm = [sym_matrix(2, [3]), sym_matrix(2, [-1]), sym_matrix(3, [3, 2, 7]), sym_matrix(3, [3, 3, 3]), sym_matrix(3, [4, -1, 3]),
             sym_matrix(3, [-1, 0, -2]), sym_matrix(4, [3, 2, 2, 4, 2, 5]), sym_matrix(4, [3, -1, 2, 3, 2, 3])]
    cases = []

    def dcase(mm, k):
        cn, st, po = combos[k % len(combos)]
        return {"m": mm, "route": "diagram", "style": st, "container": cn, "pairs": pair_order(len(mm), po), "Lw": 2}
    for mm in fullm:
        cases.extend(dcase(mm, k) for k in range(len(combos)))
    k = 0
    for m in all_matrices(3, sub):
        for mm in encodings(m):
            cases.append(dcase(mm, 5 * k))          # 5 is coprime to 72: the combinations are cycled evenly
            k += 1
    for i, m in enumerate(all_matrices(4, [2, 3, 0] if q else [2, 3, 4, 0])):
        if q and i % 3:
            continue
        cases.append(dcase(encodings(m)[-1], 5 * k))
        k += 1
    P("diagram-input-kinds", "checks.c08:case_group", cases,
      domains={"diagram given as": DIAGRAM_CONTAINERS, "node names": ["alpha", "alphanum", "xyz"],
               "nodes first appear in the order": {"index": "a, b, c, ..", "rev": ".., c, b, a", "rot": "b, c, .., a"},
               "complete product (72) for the matrices": fullm,
               "one combination each (cycled)": "every rank 3 matrix over %r with both encodings of infinity; %s rank 4 matrix over %r"
                                                % (sub, "every third" if q else "every", [2, 3, 0] if q else [2, 3, 4, 0]),
               "kinds": "as in the other sections, including the renamings into the group's own naming style "
                        "(cartan_representation / tits_vinberg_rep with rename_generators=True, also diagonalised)"}, chunk=16)
    # ---- the group owns its labels (matrix route) / redundant matrix= next to diagram= (diagram wins)
    own, red = [], []
    for l in labs:
        for mm in encodings(sym_matrix(2, [l])):
            own.extend(owned_cases(mm, labs))
            red.extend(redundant_cases(mm, labs, "full"))
    small = [2, 3, 5, 0]
    for k, m in enumerate(all_matrices(3, sub if q else labs)):
        full = all((x in small) for r in m for x in r if x != 1)
        for mm in encodings(m):
            own.extend(owned_cases(mm, labs, None if full else k))
            red.extend(redundant_cases(mm, labs, "cycled" if full else "one", k))
    for c in own + red:
        c["Lw"] = 2
    P("rank2-3-owned-labels", "checks.c08:case_group", own,
      domains={"labels": "rank 2: %r; rank 3: %r, all 9 combinations; other rank 3 matrices over %r: one combination per matrix, cycled"
                         % (labs, small, sub if q else labs),
               "container passed as matrix=": PACKAGINGS,
               "afterwards the caller": ["keeps it", "overwrites it in place with another Coxeter matrix (every label changed)",
                                         "overwrites it in place with a non-symmetric matrix of arbitrary integers"],
               "also": "the arrays returned by bilinear_form / cartan_matrix are overwritten by the caller; automaton() is called"},
      chunk=16)
    P("rank2-3-diagram-plus-matrix", "checks.c08:case_group", red,
      domains={"labels": "rank 2: %r; rank 3: %r; other rank 3 matrices over %r: one (redundant matrix, naming) per matrix, cycled"
                         % (labs, small, sub if q else labs),
               "redundant matrix": ["the diagram's", "same rank, every label different", "rank + 1", "rank - 1 (rank 3)"],
               "diagram naming": ["alpha", "alphanum", "xyz, pairs reversed"],
               "generator_style x packaging of the matrix": "rank 2: complete product; rank 3: cycled"}, chunk=16)
    # ---- the order of the requests to one group object
    cases = []
    k = 0
    for l in labs:
        for mm in encodings(sym_matrix(2, [l])):
            cases.extend(order_cases(mm, ROUTES[k % len(ROUTES)], ORDERS))
            k += 1
    for m in all_matrices(3, small if q else labs):
        for mm in encodings(m):
            cases.extend(order_cases(mm, ROUTES[k % len(ROUTES)], ORDERS))
            k += 1
    if q:
        for m in all_matrices(3, sub):
            if all((x in small) for r in m for x in r if x != 1):
                continue
            for mm in encodings(m):
                cases.extend(order_cases(mm, ROUTES[k % len(ROUTES)], [ORDERS[1 + k % (len(ORDERS) - 1)]]))
                k += 1
    for m in all_matrices(4, [2, 3, 0] if q else [2, 3, 4, 0]):
        mm = encodings(m)[-1]               # infinity written -1: the Tits-Vinberg parameters count
        cases.extend(order_cases(mm, ROUTES[k % len(ROUTES)], [ORDERS[1 + k % (len(ORDERS) - 1)]]))
        k += 1
    P("request-order", "checks.c08:case_group", cases,
      domains={"orders": "default (the order of the other sections); reversed; each kind first, then the others in default order: %r; "
                         "%r directly before each of %r" % (ORDER_KINDS, DIAG_SOURCES, DIAG_TARGETS),
               "kinds": "as in the other sections; tits-vinberg-diag = tits_vinberg_rep(parameters -2.5 - (i+j)/4 on the infinite pairs, "
                        "diagonalize=True), only when every infinite label is written negative and the deformed form has |eigenvalues| > 1e-3; "
                        "cartan-signed-diag = cartan_representation(S C S, diagonalize=True), S = diag(+1,-1,+1,..), only for a non-degenerate cosine form",
               "second request": "after all checks every representation is requested again; generators equal those of the first request",
               "matrices": "rank 2: labels %r x all orders; rank 3: labels %r x all orders%s; rank 4: labels %r, infinity written -1, orders cycled; "
                           "route cycled over the 5 routes"
                           % (labs, small if q else labs, ", the other matrices over %r with the orders cycled" % sub if q else "",
                              [2, 3, 0] if q else [2, 3, 4, 0]),
               "an order naming a kind the group does not have (no infinite label, degenerate form, not hyperbolic)": "trivial case"},
      chunk=32)
    # ---- values handed out by rep[word] are written into by the caller
    HANDOUTS = ["overwrite", "accumulate"]
    cases = []
    for l in labs:
        for mm in encodings(sym_matrix(2, [l])):
            for h in HANDOUTS:
                for c in route_cases(mm, ROUTES):
                    c.update({"Lw": 2, "repeat": True, "handout": h})
                    cases.append(c)
    k = 0
    for m in all_matrices(3, sub if q else labs):
        full = all((x in small) for r in m for x in r if x != 1)
        for mm in encodings(m):
            for h in (HANDOUTS if full else [HANDOUTS[k % 2]]):
                for c in route_cases(mm, [ROUTES[(k // 2) % len(ROUTES)]]):
                    c.update({"Lw": 2, "repeat": True, "handout": h})
                    cases.append(c)
            k += 1
    for i, m in enumerate(all_matrices(4, [2, 3, 0])):
        if q and i % 3:
            continue
        for c in route_cases(encodings(m)[-1], [ROUTES[(k // 2) % len(ROUTES)]]):
            c.update({"Lw": 2, "repeat": True, "handout": HANDOUTS[k % 2]})
            cases.append(c)
        k += 1
    P("word-values-owned", "checks.c08:case_group", cases,
      domains={"the caller": {"overwrite": "a = rep[word]; a[...] = 99", "accumulate": "acc = rep[word]; acc[...] = 2 (acc @ rep[g]) + 1"},
               "words read, written into and read again": "all words of length <= 2 over the generators (empty word, generators, pairs), for "
                                                          "every kind of representation the group offers (Isometry values: their proj_data); "
                                                          "hyperbolic: also the array of isometries(all words of length 1..2)",
               "then": "all checks of the other sections on the same representation objects, every representation requested again at the end",
               "matrices": "rank 2: labels %r x both ways x 5 routes; rank 3: labels %r x both ways, other matrices over %r one way (cycled); "
                           "%s rank 4 matrix over [2, 3, 0], infinity written -1; route cycled"
                           % (labs, small, sub if q else labs, "every third" if q else "every")}, chunk=16)
    # ---- rank 4
    labs4 = [2, 3, 4, 0] if q else [2, 3, 4, 5, 6, 0]
    cases = []
    for i, m in enumerate(all_matrices(4, labs4)):
        enc = encodings(m)
        mm = enc[i % len(enc)]
        for c in route_cases(mm, [ROUTES[i % len(ROUTES)]]):
            c["Lw"] = 2 if q else 3
            cases.append(c)
    P("rank4", "checks.c08:case_group", cases,
      domains={"labels": labs4, "ordered matrices": len(cases), "route / encoding": "cycled deterministically over the 5 routes and 2 encodings"},
      chunk=32)
    cases = []
    labs4o = [2, 3, 0] if q else [2, 3, 4, 0]
    for i, m in enumerate(all_matrices(4, labs4o)):
        enc = encodings(m)
        mm = enc[i % len(enc)]
        cs = list(owned_cases(mm, labs4o, i // 2)) if i % 2 == 0 else list(redundant_cases(mm, labs4o, "one", i // 2))
        for c in cs:
            c["Lw"] = 2
            cases.append(c)
    P("rank4-owned-labels-and-diagram-plus-matrix", "checks.c08:case_group", cases,
      domains={"labels": labs4o, "ordered matrices": len(cases),
               "configuration": "alternating owned-labels / diagram+matrix, the combinations of each cycled deterministically"},
      chunk=32)
    # ---- rank 5 (thorough)
    if not q:
        cases = []
        for i, m in enumerate(rank5_family([3, 4, 5, 0])):
            enc = encodings(m)
            mm = enc[i % len(enc)]
            for c in route_cases(mm, [ROUTES[i % len(ROUTES)]]):
                c["Lw"] = 2
                cases.append(c)
        P("rank5-paths-stars-cycles", "checks.c08:case_group", cases,
          domains={"shapes": ["path", "path scrambled", "star centre 0", "star centre 2", "5-cycle"],
                   "edge labels": [3, 4, 5, "inf"]}, chunk=16)
    # ---- triangle groups
    tc = triangle_cases()
    P("triangles", "checks.c08:case_triangle", tc,
      domains={"labels": "p<=q<=r in {2..8, inf}, 1/p+1/q+1/r < 1", "orderings": "all distinct of the 6",
               "infinity written as": [0, -1], "cases": len(tc)}, chunk=8)
