"""C11 - derived data stays coherent with primary data; queries do not move objects.

Engine E over object histories (DESIGN.md 5/C11) for hyperbolic.Polygon, hyperbolic.Segment,
hyperbolic.TangentVector and projective.Polygon.  A history is replayed on fresh library objects and on a model
that is simply the expected primary data (an ndarray of projective rows, moved by plain numpy).  In every reached
state:
  * class and shapes of primary / auxiliary data are consistent with the model;
  * aux_data == type(obj)(obj.proj_data).aux_data row-projectively, and == the oracle's recomputation
    (mc/oracle/derived.py);
  * the primary rows are projectively the model's.
The op "set-coords" re-sets the coordinates of the existing object through a model / affine-chart setter (every class with
auxiliary data, integer-typed polygons included): the derived data must follow, objects derived earlier must not move.
The op "queries" calls every read-only query and checks after each single call that the object's rows, the rows of
every object passed as an argument and the arrays the caller supplied are projectively what they were -- and, for tangent
vectors, that the LENGTH of the vector (Minkowski norm of the vector row relative to the point row; the two rows are one
unit) is what it was.  The coordinate arrays the queries RETURN are the caller's: a later query, a later operation on the
object (item assignment, re-set coordinates) must not change them, and writing into them must not move the object
(homogeneous coordinates excepted: projective_coords is documented as the accessor of the stored array).
"""
import hashlib
import itertools
import math
import warnings

import numpy as np

from mc import lattice
from mc.oracle import hyp
from mc.oracle import shapes as S
from mc.oracle.derived import edges_of, ideal_endpoints, tangent_aux, rows_err, pair_err_unordered, canon_rows
from mc.oracle.derived import mink as mink_rows

CLASSES = ["H.Polygon", "H.Segment", "H.TangentVector", "P.Polygon"]
INT_H_CLASSES = ["H.Segment/int", "H.TangentVector/int", "H.Polygon/int"]
TOL = 1e-8
RADII = [0.1, 0.35, 0.6, 0.8, 0.5, 0.25, 0.7, 0.45]
N_DIM = 2


def V(key, msg):
    return {"key": key, "msg": msg}


# ------------------------------------------------------------------------------------------------
# units, isometries
# ------------------------------------------------------------------------------------------------
def trow(k, seed):
    """Interior point of H^2 as a projective row; representatives of both signs and several scales."""
    return lattice.LAMBDAS[k % 4] * np.concatenate([[1.0], RADII[k % len(RADII)] * lattice.generic_dir(N_DIM, k, seed)])


def prow(k):
    """Rows of a projective polygon in RP^2: float, generic, in the standard chart."""
    return np.array([1.0, 0.37 * ((k * 5) % 7) - 1.0, 0.53 * ((k * 3) % 5) - 0.9 + 0.01 * k])


def unit_data(cls, k, seed):
    if cls == "H.Polygon":
        return np.stack([trow(3 * k + i, seed) for i in range(3)])
    if cls == "H.Segment":
        return np.stack([trow(2 * k, seed), trow(2 * k + 1, seed)])
    if cls == "H.Segment/ideal":
        # first endpoint ideal (generic angle: lightlike only up to rounding), second interior or ideal
        th = 0.3 + 0.77 * k
        first = lattice.LAMBDAS[k % 4] * np.array([1.0, math.cos(th), math.sin(th)])
        if k % 3 == 2:
            th2 = th + 1.9
            second = np.array([1.0, math.cos(th2), math.sin(th2)])
        else:
            second = trow(2 * k + 1, seed)
        return np.stack([first, second])
    if cls == "H.TangentVector":
        if k % 4 == 3:
            # a unit that is ALREADY tangent (basepoint at the origin, purely spatial vector): a composite then mixes
            # units whose stored vector needs the projection with units that do not
            return np.stack([lattice.LAMBDAS[k % 3] * np.array([1.0, 0.0, 0.0]),
                             np.concatenate([[0.0], lattice.generic_dir(N_DIM, 300 + k, seed)]) * (1.0 + 0.25 * (k % 3))])
        return np.stack([trow(k, seed), np.concatenate([[0.2], lattice.generic_dir(N_DIM, 300 + k, seed)]) * (1.0 + 0.25 * (k % 3))])
    if cls == "P.Polygon":
        return np.stack([prow(3 * k + i) for i in range(3)])
    if cls == "H.Segment/int":
        # integer homogeneous coordinates of two interior points (kept in an integer array by the library): the derived
        # ideal endpoints pass through a square root and are NOT integral -- derived data has its own dtype
        a, b, x0 = k % 3 - 1.0, (k // 3) % 3 - 1.0, 5.0 + k % 2
        return np.array([[x0, a, b], [x0, a + 1.0 + k % 2, b - 1.0 - (k % 5) // 3]]) * (-1.0 if k % 4 == 2 else 1.0)
    if cls == "H.TangentVector/int":
        # integer base point (interior) and integer vector row: the projected vector is rational, not integral
        return np.stack([np.array([3.0 + k % 3, (k * 2) % 3 - 1.0, 1.0 - k % 2]),
                         np.array([k % 2, (1.0 + k % 3) * (-1.0 if k % 2 else 1.0), k % 5 - 2.0])])
    if cls == "H.Polygon/int":
        a, b, x0 = k % 3 - 2.0, (2 * k) % 4 - 2.0, 6.0 + k % 2
        return np.array([[x0, a, b], [x0, a + 1.0 + k % 2, b], [x0, a, b + 1.0 + k % 3]])
    if cls == "P.Polygon/int":
        # integer-valued polygons (kept in an integer array by the library, pinned by the suite); units handed in
        # later (setitem / stack / combine) are non-integral floats, so the assignment has to convert
        return np.stack([np.round(4 * prow(3 * k + i)) + np.array([3.0, 0.0, 0.0]) for i in range(3)])
    raise ValueError(cls)


def fresh_data(cls, shape, start, seed):
    shape = tuple(shape)
    N = S.size(shape)
    src = "P.Polygon" if (cls == "P.Polygon/int" and start > 0) else cls      # later units of the int class are floats
    u = np.array([unit_data(src, start + k, seed) for k in range(N)])
    if (cls == "P.Polygon/int" and start == 0) or cls in INT_H_CLASSES:
        # the integer hyperbolic classes: EVERY unit is integer-typed (stack / combine / setitem of integer objects stay
        # integer-typed in the primary data; mixing integer objects with float units is the subject of P.Polygon/int)
        u = u.astype(np.int64)
    return u.reshape(shape + u.shape[1:])


def klass(cls):
    from geometry_tools import projective as P, hyperbolic as H
    return getattr(H if cls.startswith("H.") else P, cls.split(".")[1].split("/")[0])


def make(cls, data):
    """Library object from a caller array (the array itself is handed over: it must stay projectively intact)."""
    return klass(cls)(data)


def iso_row(j):
    """Two isometries of H^2 / projective maps of RP^2 acting on rows (rows -> rows @ R)."""
    def rot(th):
        r = np.eye(3)
        r[1, 1] = r[2, 2] = math.cos(th)
        r[1, 2] = -math.sin(th)
        r[2, 1] = math.sin(th)
        return r

    def boost(s):
        r = np.eye(3)
        r[0, 0] = r[1, 1] = math.cosh(s)
        r[0, 1] = r[1, 0] = math.sinh(s)
        return r
    return rot(0.7) @ boost(0.6) if j == 0 else boost(-0.4) @ rot(-1.3) @ boost(0.3)


def make_T(cls, which):
    from geometry_tools import projective as P, hyperbolic as H
    C = H.Isometry if cls.startswith("H.") else P.Transformation
    if which == "pair":
        R = np.array([iso_row(0), iso_row(1)])
    else:
        R = iso_row(which)
    return C(np.swapaxes(R, -1, -2).copy(), column_vectors=True), R


def oracle_aux(cls, data):
    if cls in ("H.Polygon", "H.Polygon/int", "P.Polygon", "P.Polygon/int"):
        return edges_of(data)
    if cls.startswith("H.Segment"):
        return ideal_endpoints(data)
    return tangent_aux(data)


def aux_err(cls, got, exp):
    if got is None:
        return float("inf")
    if cls.startswith("H.Segment"):
        return pair_err_unordered(got, exp)        # the order of the two ideal endpoints is not part of the property
    return rows_err(got, exp)


# ------------------------------------------------------------------------------------------------
# invariants
# ------------------------------------------------------------------------------------------------
def check_state(cls, obj, model, after):
    out = []
    C = klass(cls)
    if type(obj) is not C:
        return [V("state/type/%s/%s" % (after, cls), "object is a %s" % type(obj).__name__)]
    ush = unit_data(cls, 0, 0).shape
    ash = oracle_aux(cls, unit_data(cls, 0, 0)).shape
    mshape = model.shape[:model.ndim - len(ush)]
    if tuple(obj.proj_data.shape) != tuple(model.shape) or tuple(obj.shape) != tuple(mshape):
        return [V("state/shape/%s/%s" % (after, cls), "primary data shape %r / composite shape %r, model %r" % (obj.proj_data.shape, obj.shape, model.shape))]
    if obj.aux_data is None or tuple(obj.aux_data.shape) != tuple(mshape) + tuple(ash):
        return [V("state/aux-shape/%s/%s" % (after, cls), "auxiliary data shape %r, expected %r" % (
            None if obj.aux_data is None else obj.aux_data.shape, tuple(mshape) + tuple(ash)))]
    e = rows_err(obj.proj_data, model)
    if e > TOL:
        out.append(V("state/primary/%s/%s" % (after, cls), "primary rows are not the model's (sin err %.3g)\n%r\nmodel\n%r" % (e, obj.proj_data, model)))
    with warnings.catch_warnings():
        warnings.simplefilter("ignore")
        re = C(np.array(obj.proj_data)).aux_data
        e1 = aux_err(cls, obj.aux_data, re)
        e2 = aux_err(cls, obj.aux_data, oracle_aux(cls, np.array(obj.proj_data)))
    if e1 > TOL or e2 > TOL:
        out.append(V("aux-stale/%s/%s" % (after, cls),
                     "aux_data is not what is recomputed from proj_data (sin err %.3g vs type(obj)(proj_data), %.3g vs oracle)\n"
                     "aux_data\n%r\nrecomputed\n%r" % (e1, e2, obj.aux_data, re)))
    elif cls.startswith("H.TangentVector"):
        ora = oracle_aux(cls, np.array(model))
        if tangent_sign_flip(obj.proj_data[..., 0, :], obj.aux_data[..., 1, :], model[..., 0, :], ora[..., 1, :]):
            out.append(V("aux-stale/direction-reversed/%s/%s" % (after, cls),
                         "the stored (point, vector) pair has the opposite relative sign to the expected tangent vector: the direction is reversed\n"
                         "point rows\n%r\nvector rows\n%r\nexpected pair\n%r" % (obj.proj_data[..., 0, :], obj.aux_data[..., 1, :], ora)))
        else:
            # length: the derived vector against what is recomputed from the primary rows, and the primary rows against the model
            own = oracle_aux(cls, np.array(obj.proj_data))
            L_aux, L_own, L_model = obj_length2(obj), tangent_length2(own[..., 0, :], own[..., 1, :]), tangent_length2(ora[..., 0, :], ora[..., 1, :])
            if length_differs(L_aux, L_own):
                out.append(V("aux-stale/length/%s/%s" % (after, cls),
                             "the derived vector has squared length %r (relative to the base point), the vector recomputed from the object's own primary rows %r\n"
                             "aux_data\n%r\nproj_data\n%r" % (np.asarray(L_aux).tolist(), np.asarray(L_own).tolist(), obj.aux_data, obj.proj_data)))
            elif length_differs(L_own, L_model):
                out.append(V("state/primary-length/%s/%s" % (after, cls),
                             "the primary rows describe a tangent vector of squared length %r, expected %r (point and vector row are ONE unit: they were rescaled "
                             "by different factors)\nproj_data\n%r\nmodel\n%r" % (np.asarray(L_own).tolist(), np.asarray(L_model).tolist(), obj.proj_data, model)))
    return out


def tangent_sign_flip(point, vector, ref_point, ref_vector):
    """A tangent vector is the PAIR (point, vector) up to one common sign and positive scalings: rescaling the
    two rows by factors of opposite sign reverses the direction although each row alone is projectively
    unchanged.  Returns True when some unit has the relative sign flipped with respect to the reference."""
    sp = np.sign(np.real(np.sum(np.asarray(point) * np.conjugate(np.asarray(ref_point)), axis=-1)))
    sv = np.sign(np.real(np.sum(np.asarray(vector) * np.conjugate(np.asarray(ref_vector)), axis=-1)))
    return bool(np.any(sp * sv < 0))


def tangent_length2(point, vector):
    """<v,v> / |<p,p>| per unit: the squared Minkowski length of the vector of a tangent vector, measured against its
    base point.  Row-projective comparisons cannot see it (a tangent vector of length 5 and the unit one have the same
    rows up to scale), but it is invariant under rescaling the WHOLE unit (point row and vector row by one common
    non-zero factor), which is all the freedom the homogeneous representation has: a tangent vector of length 5 is a
    different object from the unit one in the same direction (normalized() exists to go from one to the other)."""
    with np.errstate(all="ignore"):
        return np.real(mink_rows(vector, vector)) / np.abs(mink_rows(point, point))


def length_differs(a, b):
    a, b = np.asarray(a, dtype=float), np.asarray(b, dtype=float)
    return a.shape != b.shape or not bool(np.all(np.abs(a - b) <= 1e-8 * (1.0 + np.abs(b))))


def obj_length2(o):
    """Length observation of a library TangentVector: its derived (projected) vector row against its primary point row."""
    return tangent_length2(np.asarray(o.proj_data)[..., 0, :], np.asarray(o.aux_data)[..., 1, :])


class Watch:
    """Snapshots of objects and raw arrays that must stay projectively fixed (tangent vectors: and keep their length)."""

    def __init__(self):
        self.items = []

    def obj(self, name, o):
        L0 = obj_length2(o) if (type(o).__name__ == "TangentVector" and o.aux_data is not None) else None
        self.items.append((name, o, np.array(o.proj_data), None if o.aux_data is None else np.array(o.aux_data), L0))
        return o

    def arr(self, name, a):
        self.items.append((name, a, np.array(a), "array", None))
        return a

    def check(self, cls, query, out):
        for name, o, p0, a0, L0 in self.items:
            if isinstance(a0, str):
                if np.shape(o) != p0.shape or rows_err(o, p0) > TOL:
                    out.append(V("query-moved/%s/%s/%s" % (query, name, cls), "%s changed the caller's array %s:\n%r\nwas\n%r" % (query, name, o, p0)))
                continue
            if np.shape(o.proj_data) != p0.shape or rows_err(o.proj_data, p0) > TOL:
                out.append(V("query-moved/%s/%s/%s" % (query, name, cls), "%s moved the primary rows of %s:\n%r\nwere\n%r" % (query, name, o.proj_data, p0)))
            elif a0 is not None and (o.aux_data is None or np.shape(o.aux_data) != a0.shape or rows_err(o.aux_data, a0) > TOL):
                out.append(V("query-moved/%s/%s-aux/%s" % (query, name, cls), "%s moved the derived rows of %s:\n%r\nwere\n%r" % (query, name, o.aux_data, a0)))
            elif a0 is not None and type(o).__name__ == "TangentVector" and \
                    tangent_sign_flip(o.proj_data[..., 0, :], o.aux_data[..., 1, :], p0[..., 0, :], a0[..., 1, :]):
                out.append(V("query-moved/%s/%s-direction-reversed/%s" % (query, name, cls),
                             "%s reversed the direction of the tangent vector %s (relative sign of point and vector rows)" % (query, name)))
            elif L0 is not None and length_differs(obj_length2(o), L0):
                out.append(V("query-moved/%s/%s-length/%s" % (query, name, cls),
                             "%s changed the length of the tangent vector %s: <v,v>/|<p,p>| was %r, is now %r (vector rows were\n%r\nare now\n%r)" % (
                                 query, name, np.asarray(L0).tolist(), np.asarray(obj_length2(o)).tolist(), a0[..., 1, :], o.aux_data[..., 1, :])))


# queries that are documented to hand out the stored homogeneous rows themselves (get_end_pair: "a pair of ndarrays with
# projective coordinates"; point / vector of a tangent vector are properties of the stored arrays)
RAW_ROW_QUERIES = ("get_end_pair", "point-vector")


def run_queries(cls, obj, model, seed, nxt, root_array, cx=False):
    """Every read-only query, one at a time; returns (violations, number of calls).  On complex128 objects the
    circle parameters are not requested (np.arctan2 has no complex loop: the library raises TypeError; angles of
    complex coordinates are outside the property)."""
    from geometry_tools import hyperbolic as H, projective as P
    out = []
    ush = unit_data(cls, 0, 0).shape
    mshape = model.shape[:model.ndim - len(ush)]
    def build(obj, w):
        w.obj("self", obj)
        w.arr("constructor-array", root_array)
        other_arr = w.arr("argument-array", fresh_data(cls, mshape, nxt, seed))
        calls = []
        MODELS = ["projective", "klein", "poincare", "halfspace", "hyperboloid"]
        if cls == "H.Polygon":
            other = w.obj("argument", H.Polygon(other_arr))
            pts_arr = w.arr("argument-points-array", np.array(other_arr))
            arg_pts = w.obj("argument-points", H.Point(pts_arr))         # the very object handed to the queries
            calls += [("coords-%s" % m, (lambda m=m: obj.coords(m))) for m in MODELS]
            calls += [("get_vertices.coords-%s" % m, (lambda m=m: obj.get_vertices().coords(m))) for m in MODELS]
            calls += [("get_edges", lambda: obj.get_edges()), ("get_vertices", lambda: obj.get_vertices()),
                      ("get_edges.ideal_endpoint_coords", lambda: [obj.get_edges().ideal_endpoint_coords(m) for m in ("klein", "poincare", "halfspace")]),
                      ("get_edges.circle_parameters", lambda: None if cx else [obj.get_edges().circle_parameters(model=m) for m in ("poincare", "halfspace")]),
                      ("distance", lambda: obj.get_vertices().distance(arg_pts)),
                      ("distance-from-argument", lambda: arg_pts.distance(obj.get_vertices())),
                      ("origin_to", lambda: obj.get_vertices().origin_to()),
                      ("origin_to-argument", lambda: arg_pts.origin_to()),
                      ("unit_tangent_towards", lambda: obj.get_vertices().unit_tangent_towards(arg_pts)),
                      ("unit_tangent_towards-from-argument", lambda: arg_pts.unit_tangent_towards(obj.get_vertices())),
                      ("in_standard_chart", lambda: obj.in_standard_chart())]
        elif cls == "H.Segment":
            other = w.obj("argument", H.Segment(other_arr))
            pts_arr = w.arr("argument-points-array", np.array(other_arr[..., 1, :]))
            arg_pts = w.obj("argument-points", H.Point(pts_arr))
            calls += [("coords-%s" % m, (lambda m=m: obj.coords(m))) for m in MODELS]
            calls += [("endpoint_coords-%s" % m, (lambda m=m: obj.endpoint_coords(m))) for m in MODELS]
            calls += [("ideal_endpoint_coords-%s" % m, (lambda m=m: obj.ideal_endpoint_coords(m))) for m in ("klein", "poincare", "halfspace", "projective")]
            if not cx:
                calls += [("circle_parameters-%s" % m, (lambda m=m: (obj.circle_parameters(model=m), obj.circle_parameters(model=m, degrees=False)))) for m in ("poincare", "halfspace")]
            calls += [("sphere_parameters-%s" % m, (lambda m=m: obj.sphere_parameters(model=m))) for m in ("poincare", "halfspace")]
            calls += [("geodesic", lambda: obj.geodesic()), ("get_endpoints", lambda: obj.get_endpoints()),
                      ("get_end_pair", lambda: obj.get_end_pair()),
                      ("distance", lambda: obj.get_end_pair(as_points=True)[0].distance(obj.get_end_pair(as_points=True)[1])),
                      ("distance-to-argument", lambda: obj.get_end_pair(as_points=True)[0].distance(arg_pts)),
                      ("distance-from-argument", lambda: arg_pts.distance(obj.get_end_pair(as_points=True)[1])),
                      ("origin_to", lambda: obj.get_end_pair(as_points=True)[0].origin_to()),
                      ("origin_to-argument", lambda: arg_pts.origin_to()),
                      ("unit_tangent_towards", lambda: obj.get_end_pair(as_points=True)[0].unit_tangent_towards(arg_pts)),
                      ("unit_tangent_towards-from-argument", lambda: arg_pts.unit_tangent_towards(obj.get_end_pair(as_points=True)[0]))]
        elif cls == "H.TangentVector":
            other = w.obj("argument", H.TangentVector(other_arr))
            calls += [("coords-projective", lambda: obj.coords("projective")),
                      ("point-vector", lambda: (np.array(obj.point), np.array(obj.vector))),
                      ("origin_to", lambda: (obj.origin_to(), obj.origin_to(force_oriented=False))),
                      ("isometry_to", lambda: obj.isometry_to(other)),
                      ("isometry_from", lambda: other.isometry_to(obj)),
                      ("normalized", lambda: obj.normalized()),
                      ("angle", lambda: obj.angle(other)),
                      ("point_along", lambda: obj.point_along(0.5)),
                      ("get_end_pair", lambda: obj.get_end_pair(as_points=True))]
        else:
            other = w.obj("argument", P.Polygon(other_arr))
            calls += [("get_edges", lambda: obj.get_edges()), ("get_vertices", lambda: obj.get_vertices()),
                      ("affine_coords", lambda: obj.affine_coords()), ("projective_coords", lambda: obj.projective_coords()),
                      ("affine_coords-chart1", lambda: obj.affine_coords(chart_index=1)),
                      ("in_standard_chart", lambda: obj.in_standard_chart()),
                      ("get_edges.endpoint_affine_coords", lambda: obj.get_edges().endpoint_affine_coords()),
                      ("in_affine_chart", lambda: obj.in_affine_chart(0))]
        return calls

    w = Watch()
    calls = build(obj, w)
    n = 0
    held = []          # (query, array the query returned, its content): the caller keeps what he was given
    with warnings.catch_warnings():
        warnings.simplefilter("ignore")      # complex dtype: the library casts with a ComplexWarning; not our subject
        for qi, (name, f) in enumerate(calls):
            # differential oracle: the same query on a FRESH object built from a copy of the current primary data
            # must give the same answer (anything else means the answer depends on the object's past: a stale
            # cache, a memo that survived copy()/set(), leftover state of an earlier operation)
            fresh = klass(cls)(np.array(obj.proj_data))
            if cx:
                fresh = fresh.astype(np.complex128)
            fname, ff = build(fresh, Watch())[qi]
            want = flatten_result(ff())
            got = flatten_result(f())
            n += 2
            w.check(cls, name, out)
            # coordinate arrays obtained from earlier queries are values: this query must not have rewritten them
            for hname, harr, hsnap in held:
                if not out and not np.array_equal(harr, hsnap, equal_nan=True):
                    out.append(V("query-result-changed/%s/%s" % (hname, cls),
                                 "the array returned by %s was rewritten by the later query %s:\n%r\nwas\n%r" % (hname, name, harr, hsnap)))
            if "projective" not in name and name not in RAW_ROW_QUERIES:
                held += [(name, x, np.array(x)) for kind, x in got
                         if kind == "num" and isinstance(x, np.ndarray) and x.ndim >= 1 and x.dtype.kind in "fc"]
            # (point, vector) of a tangent vector are raw representatives: queries may rescale the derived rows in place
            # (allowed), so their numerical values are representation-dependent; Watch.check covers them projectively
            if not out and name != "point-vector" and not same_result(got, want, name):
                out.append(V("query-depends-on-history/%s/%s" % (name, cls),
                             "%s on the object reached by this history differs from the same query on a fresh object with the same primary data:\n%r\nfresh\n%r" % (name, got, want)))
            if out:
                break
        # ... and the arrays are the caller's to write into: doing so must not move the object (nor the other watched objects / arrays)
        for hname, harr, hsnap in held:
            if out:
                break
            if not harr.flags.writeable:
                continue
            harr[...] = (0.37 * np.arange(1, harr.size + 1).reshape(harr.shape) + 0.11).astype(harr.dtype)
            moved = []
            w.check(cls, hname, moved)
            for x in moved:
                x["key"] = x["key"].replace("query-moved/", "query-result-aliased/", 1)
                x["msg"] = "writing into the array returned by %s: %s" % (hname, x["msg"])
            out += moved[:1]
    held = [(hname, harr, np.array(harr)) for hname, harr, hsnap in held]
    return out, n, held


def flatten_result(r):
    """Content of a query result as a list of ("rows", array) for library objects (compared projectively, row
    by row; derived 2-row data also with the two rows swapped) and ("num", array) for plain numbers."""
    if r is None:
        return []
    if hasattr(r, "proj_data"):
        out = [("rows", np.asarray(r.proj_data))]
        if getattr(r, "aux_data", None) is not None:
            out.append(("rows2", np.asarray(r.aux_data)))
        return out
    if isinstance(r, (tuple, list)):
        out = []
        for x in r:
            out += flatten_result(x)
        return out
    return [("num", np.asarray(r))]


def same_result(a, b, name=""):
    """Equality up to what recomputation from the same primary data can legitimately change: a rescaling of
    projective rows, and the sqrt-eps class (1e-6 (1+|v|)^2) for numbers that pass through conformal
    coordinates of ideal points.  A stale answer differs by >= 1e-2 on these alphabets."""
    if len(a) != len(b):
        return False
    if "circle_parameters" in name:
        # (centre, radius, angles) triples: the angle pair of a nearly straight / nearly vertical arc is below the
        # sqrt-eps noise of the centre (C14 documents this), so only centre and radius are compared here
        a = [t for i, t in enumerate(a) if i % 3 != 2]
        b = [t for i, t in enumerate(b) if i % 3 != 2]
    for (ka, x), (kb, y) in zip(a, b):
        if ka != kb or x.shape != y.shape:
            return False
        if ka in ("rows", "rows2"):
            e = rows_err(x, y)
            if ka == "rows2" and e > 1e-6 and x.ndim >= 2 and x.shape[-2] == 2:
                e = min(e, rows_err(x, y[..., ::-1, :]))
            if not e <= 1e-6:
                return False
            continue
        if x.dtype.kind in "biu" and y.dtype.kind in "biu":
            if not np.array_equal(x, y):
                return False
            continue
        if "projective" in name and x.ndim >= 1:
            # homogeneous coordinates returned as a plain array: rows up to scale (and, for the two ideal
            # endpoints of a segment, up to their order, which the property does not fix)
            e = rows_err(x, y)
            if "ideal_endpoint" in name and e > 1e-6 and x.ndim >= 2 and x.shape[-2] == 2:
                e = pair_err_unordered(x, y)
            if not e <= 1e-6:
                return False
            continue
        if "ideal_endpoint" in name and x.ndim >= 2 and x.shape[-2] == 2:
            # affine coordinates of an unordered pair of ideal points: try both orders, unit by unit
            xs, ys = x.reshape(-1, 2, x.shape[-1]).astype(float), y.reshape(-1, 2, y.shape[-1]).astype(float)
            for u, w_ in zip(xs, ys):
                tol = 1e-6 * (1.0 + float(np.max(np.abs(w_)))) ** 2
                if not (np.max(np.abs(u - w_)) <= tol or np.max(np.abs(u - w_[::-1])) <= tol):
                    return False
            continue
        try:
            xc, yc = x.astype(complex), y.astype(complex)
        except (TypeError, ValueError):
            if repr(x) != repr(y):
                return False
            continue
        nan = np.isnan(xc) | np.isnan(yc) | np.isinf(xc) | np.isinf(yc)
        if not np.array_equal(np.isnan(xc) | np.isinf(xc), np.isnan(yc) | np.isinf(yc)):
            return False
        d = np.abs(np.where(nan, 0, xc - yc))
        big = float(np.max(np.abs(np.where(nan, 0, yc)))) if d.size else 0.0
        if d.size and not np.all(d <= 1e-6 * (1.0 + big) ** 2):
            return False
    return True


# ------------------------------------------------------------------------------------------------
# coordinate setters on an EXISTING object
# ------------------------------------------------------------------------------------------------
SETTERS = {
    # coords(Model.X, data) on an existing object: dispatches to projective_coords / kleinian_coords (= affine_coords,
    # chart 0) / poincare_coords / halfspace_coords / hyperboloid_coords, all of which end in set()
    "H.Polygon": ["projective", "hyperboloid", "klein", "poincare", "halfspace"],
    "H.Segment": ["projective", "hyperboloid", "klein", "poincare", "halfspace"],
    # a (point, vector) pair has no affine / conformal / hyperboloid coordinates (hyperboloid_coords normalises the two rows
    # separately, which is not an operation on tangent vectors): only the raw projective setter
    "H.TangentVector": ["projective"],
    # ideal endpoints are lightlike only up to rounding: the conformal models (sqrt(1 - |x|^2)) are left out
    "H.Segment/ideal": ["projective", "klein"],
    "P.Polygon": ["projective", "affine0", "affine1", "affine2"],
    "P.Polygon/int": ["projective", "affine0", "affine1", "affine2"],
    # integer-typed hyperbolic objects: histories without coordinate setters (converting non-integral coordinates to an
    # integer array may collapse a segment; integer objects under the setters are the subject of P.Polygon/int)
    "H.Segment/int": [], "H.TangentVector/int": [], "H.Polygon/int": [],
}


def setter_data(cls, how, arr):
    """(coordinates handed to the setter, expected primary rows) for new projective rows `arr` (floats)."""
    arr = np.asarray(arr, dtype=float)
    if how == "projective" or cls == "H.TangentVector":
        return arr.copy(), arr.copy()
    if how.startswith("affine"):
        # the two standard-chart coordinates (y, z) of the new rows, shifted to (y, z + 2.5) so that neither is ever
        # near zero (|y| >= 0.11, z + 2.5 >= 1.6: the object stays inside every affine chart the queries ask for) and
        # REINTERPRETED as coordinates in chart k: the expected row has 1.0 inserted at position k
        k = int(how[-1])
        aff = arr[..., 1:] + np.array([0.0, 2.5])
        return aff, np.insert(aff, k, 1.0, axis=-1)
    kl = arr[..., 1:] / arr[..., :1]
    return np.array(hyp.klein_to(how, kl)), hyp.klein_to_projective(kl)


def call_setter(cls, obj, how, coords):
    from geometry_tools import hyperbolic as H
    if how.startswith("affine"):
        return obj.affine_coords(coords, chart_index=int(how[-1]))
    if cls.startswith("P."):
        return obj.projective_coords(coords)
    return obj.coords(getattr(H.Model, how.upper()), coords)


# ------------------------------------------------------------------------------------------------
# histories
# ------------------------------------------------------------------------------------------------
def case_hist(hist):
    from geometry_tools import projective as P, hyperbolic as H
    root, ops = hist[0], hist[1:]
    cls, seed = root["cls"], root["seed"]
    C = klass(cls)
    ush = unit_data(cls, 0, 0).shape
    root_array = fresh_data(cls, root["shape"], 0, seed)
    model = root_array.copy()
    obj = make(cls, root_array)
    nxt = S.size(root["shape"])
    cx = False
    v = []
    t = 1
    last = "construct"
    handed = [("constructor-array", root_array, root_array.copy())]
    retained = []          # (role, object, its model): objects an operation was applied to / that were passed in
    results = []           # (position of the "queries" op, query, array it returned, its content then)
    for last_i, op in enumerate(ops):
        name = op[0]
        last = name if name != "set-coords" else "set-coords-%s" % op[1]
        t += 1
        mshape = model.shape[:model.ndim - len(ush)]
        if name not in ("setitem", "queries", "set-coords"):
            retained.append(("receiver-of-%s" % name, obj, model))
        if name == "copy":
            obj = C(obj)
        elif name in ("shallow-copy", "deep-copy"):
            import copy as _copy
            obj = _copy.copy(obj) if name == "shallow-copy" else _copy.deepcopy(obj)
            if name == "shallow-copy":
                # Python semantics of copy.copy allow the copy to share arrays with the original: what happens to the
                # copy later may legitimately show in the original too.  The original is therefore no longer compared
                # with its model, but it must stay COHERENT (derived data = recomputation from its own primary data)
                role, o_, m_ = retained[-1]
                retained[-1] = ("aliased-" + role, o_, None)
        elif name == "apply":
            T, R = make_T(cls, op[1])
            obj, model = T @ obj, model @ R
        elif name == "apply-composite":
            T, R = make_T(cls, "pair")
            rs = S.broadcast_shape(mshape, (2,))
            new = np.zeros(rs + ush, dtype=np.result_type(model.dtype, R.dtype))
            for idx, i, j in S.index_map("elementwise", mshape, (2,)):
                new[idx] = model[i] @ R[j]
            obj, model = T @ obj, new
        elif name == "apply-pairwise":
            # composite transformation (2,) applied pairwise: object axes first, then the transformation's
            T, R = make_T(cls, "pair")
            new = np.zeros(tuple(mshape) + (2,) + ush, dtype=np.result_type(model.dtype, R.dtype))
            for idx, i, j in S.index_map("pairwise", mshape, (2,)):
                new[idx] = model[i] @ R[j]
            obj, model = T.apply(obj, "pairwise"), new
        elif name == "reshape":
            obj, model = obj.reshape(tuple(op[1])), model.reshape(tuple(op[1]) + ush)
        elif name == "flatten":
            obj, model = obj.flatten_to_unit(), model.reshape((-1,) + ush)
        elif name == "index":
            obj, model = obj[op[1]], model[op[1]]
        elif name == "setitem":
            arr = fresh_data(cls, mshape[1:], nxt, seed)
            nxt += S.size(mshape[1:])
            handed.append(("setitem-array", arr, arr.copy()))
            unit = make(cls, arr)
            retained.append(("assigned-unit", unit, arr.copy()))
            obj[op[1]] = unit
            narrow = model.copy()
            narrow[op[1]] = arr                      # numpy semantics: converted to the dtype of the existing array
            if narrow.dtype != np.result_type(model.dtype, arr.dtype):
                # the property does not say whether assignment converts the new unit to the object's dtype or widens
                # the object: either is accepted for the primary data (the derived data must follow whichever it is)
                wide = model.astype(np.result_type(model.dtype, arr.dtype))
                wide[op[1]] = arr
                narrow = wide if (np.shape(obj.proj_data) == wide.shape and rows_err(obj.proj_data, wide) <= TOL) else narrow
            model = narrow
        elif name in ("stack", "combine"):
            arr = fresh_data(cls, mshape, nxt, seed)
            nxt += S.size(mshape)
            handed.append(("%s-array" % name, arr, arr.copy()))
            other = make(cls, arr)
            if cx:
                other = other.astype(np.complex128)
            common = np.result_type(model.dtype, arr.dtype)       # stacking promotes like np.stack, it never narrows
            retained.append(("argument-of-%s" % name, other, arr.astype(common)))
            if name == "stack":
                obj, model = C([obj, other]), np.stack([model.astype(common), arr.astype(common)])
            else:
                obj = C.combine([obj, other])
                model = np.concatenate([model.astype(common).reshape((-1,) + ush), arr.astype(common).reshape((-1,) + ush)])
        elif name == "set-coords":
            # coordinates of the EXISTING object are (re)set through a model / affine-chart setter: the derived data
            # must be recomputed from the new coordinates, nothing that was derived from this object earlier may move
            how = op[1]
            arr = fresh_data(cls, mshape, nxt, seed)
            nxt += S.size(mshape)
            coords, new_model = setter_data(cls, how, arr)
            snap = coords.copy()
            handed.append(("set-coords-array", coords, snap))
            with warnings.catch_warnings():
                warnings.simplefilter("ignore")      # hyperboloid coordinates of a spacelike vector row: sqrt warning
                ret = call_setter(cls, obj, how, coords)
            if not np.array_equal(coords, snap):
                v.append(V("inputs/set-coords-array/%s/%s" % (how, cls), "the setter changed the caller's coordinate array:\n%r\nwas\n%r" % (coords, snap)))
            elif cls != "H.TangentVector" and how != "hyperboloid" and not (model.dtype.kind in "iu" and np.asarray(obj.proj_data).dtype.kind in "iu"):
                # the setter returns the coordinates of the object in the same model / chart: what was handed in
                # (not judged when an integer-typed object kept its integer type: the stored coordinates are then the
                # converted ones, see below)
                ret = np.asarray(ret)
                if how == "projective":
                    bad = ret.shape != snap.shape or rows_err(ret, snap) > TOL
                else:
                    bad = ret.shape != snap.shape or not np.all(np.abs(ret - snap) <= 1e-6 * (1.0 + np.abs(snap)) ** 2)
                if bad:
                    v.append(V("set-coords/return/%s/%s" % (how, cls), "the setter returned\n%r\nfor the coordinates\n%r" % (ret, snap)))
            if model.dtype.kind in "iu" and tuple(np.shape(obj.proj_data)) == tuple(model.shape) and np.asarray(obj.proj_data).dtype.kind in "iu":
                # integer-typed object: the property does not say whether re-setting converts the new coordinates to
                # the object's dtype or replaces the array; either is accepted for the primary data (the derived data
                # must follow whichever it is)
                narrow = model.copy()
                narrow[...] = new_model
                new_model = narrow
            model, cx = new_model, False
        elif name == "astype":
            obj, model, cx = obj.astype(np.complex128), model.astype(np.complex128), True
        elif name == "astype-same":
            # conversion to the dtype the object already has: still a new, independent object (the receiver is in
            # `retained`: a later item assignment into the result must not move it)
            obj = obj.astype(np.asarray(obj.proj_data).dtype)
        elif name == "queries":
            qv, n, got_arrays = run_queries(cls, obj, model, seed, nxt, root_array, cx)
            v += qv
            t += n
            results += [(last_i, a, b, c) for (a, b, c) in got_arrays]
        else:
            raise ValueError(name)
        if v:
            break
    if not v:
        v += check_state(cls, obj, model, last)
    if not v:
        # objects left behind by the history must still be coherent (shared arrays!)
        for role, o, m in retained:
            if m is None:
                m = np.array(o.proj_data)            # aliased original: coherence with its own current primary data only
            for x in check_state(cls, o, m, last):
                x["key"] = "retained/%s/" % role + x["key"]
                x["msg"] = "%s, after the later op %r: %s" % (role, last, x["msg"])
                v.append(x)
            if v:
                break
    if not v:
        # coordinate arrays handed out by queries earlier in the history still hold what they held (whatever was
        # done to the object since: item assignment, re-set coordinates, transformations, further queries)
        for qi, qname, arr, snap in results:
            if qi < len(ops) - 1 and not np.array_equal(arr, snap, equal_nan=True):
                v.append(V("query-result-changed-later/%s/%s/%s" % (qname, last, cls),
                           "the array returned by %s (op %d of the history) was rewritten by the later operations %r:\n%r\nwas\n%r" % (
                               qname, qi + 1, ops[qi + 1:], arr, snap)))
                break
    if not v:
        for nm, arr, snap in handed:
            if (not np.array_equal(arr, snap)) if nm == "set-coords-array" else (arr.shape != snap.shape or rows_err(arr, snap) > TOL):
                v.append(V("inputs/%s/%s/%s" % (nm, last, cls), "the caller's %s was changed:\n%r\nwas\n%r" % (nm, arr, snap)))
    nextops = []
    mshape = model.shape[:model.ndim - len(ush)]
    if not v:
        N = S.size(mshape)
        nextops.append(["copy"])
        nextops += [["shallow-copy"], ["deep-copy"]]
        nextops += [["apply", 0], ["apply", 1]]
        if S.broadcast_shape(mshape, (2,)) is not None and N <= 8:
            nextops.append(["apply-composite"])
        if N <= 4:
            nextops.append(["apply-pairwise"])
        rs = [s for s in [(N,), (1, N), (N, 1)] + ([(2, N // 2)] if N % 2 == 0 and N > 2 else []) if tuple(s) != tuple(mshape)]
        seen = []
        for s in rs:
            if s not in seen:
                seen.append(s)
                nextops.append(["reshape", list(s)])
        nextops.append(["flatten"])
        if len(mshape) >= 1:
            idxs = [0] if mshape[0] == 1 else [0, mshape[0] - 1]
            nextops += [["index", i] for i in idxs]
            nextops += [["setitem", i] for i in idxs]
        if N <= 8:
            nextops += [["stack"], ["combine"]]
        if not cx:
            nextops.append(["astype"])
        if model.dtype.kind not in "iu" or cls not in INT_H_CLASSES:
            # astype(<integer dtype>) on an object whose derived data is not integral is a lossy conversion requested by
            # the caller (the library casts primary and derived data alike): not demanded
            nextops.append(["astype-same"])
        if root.get("setters", True):
            nextops += [["set-coords", how] for how in SETTERS[cls]]
        if "/" not in cls:
            nextops.append(["queries"])          # queries on ideal endpoints (hyperboloid coordinates of null vectors) are C01/C14's
    raw = np.round(np.asarray(obj.proj_data).astype(complex).flatten(), 5) + (0.0 + 0.0j) if not v else None
    # the queries may leave hidden state behind (memoised answers), which no observable summary shows: a state
    # reached after a query is therefore never merged with one reached without
    queried = any(op[0] == "queries" for op in ops)
    # another object may share this one's arrays; WHICH operations may have created the sharing is part of the state
    aliased = tuple(sorted({op[0] for op in ops if op[0] in ("shallow-copy", "astype-same")}))
    # an object-producing operation may hand back something that still shares arrays with its receiver: the state
    # right after such an operation is always expanded once (so that "operate, then edit the result" is explored)
    producer = ops[-1][0] if ops and ops[-1][0] in ("copy", "deep-copy", "reshape", "flatten", "index", "stack", "combine", "astype", "apply", "apply-composite", "apply-pairwise") else None
    key = repr((cls, tuple(mshape), cx, queried, aliased, producer, canon_rows(model, 5), None if raw is None else hashlib.sha1(raw.tobytes()).hexdigest()[:12]))
    return {"v": v, "t": t, "o": repr((cls, tuple(mshape), last, cx)), "nt": len(ops) > 0, "key": key, "ops": nextops}


# ------------------------------------------------------------------------------------------------
def run(ctx):
    q = ctx.quick
    ctx.rule = ("histories of {construct-from-object, apply (2 single isometries, 1 composite), reshape, flatten_to_unit, [i], "
                "[i]=unit, stack, combine, astype(complex128), set-coords (the coordinates of the EXISTING object re-set through "
                "coords(model, data) / projective_coords(data) / affine_coords(data, chart_index=k)), queries} explored breadth-first on real objects against the "
                "expected primary data, de-duplicated on (class, shape, dtype, rounded projective rows of the model, rounded raw "
                "representative of the real object); invariants evaluated in every state; non-trivial = at least one op")
    ctx.assume("objects live in H^2 / RP^2 with generic float coordinates (segments and polygon edges avoid the origin and the "
               "half-space point at infinity only generically; no value of a query is judged here, only what it leaves behind)")
    ctx.assume("in-place rescaling of rows by a query is allowed (property wording): all comparisons are row-projective -- except that the two rows of a "
               "tangent vector are ONE unit whose only freedom is a common factor: <v,v>/|<p,p>| (derived vector row against primary point row) is "
               "compared before and after every query, with the recomputation from the primary rows and with the model in every state, to 1e-8 relative")
    ctx.assume("arrays RETURNED by coordinate queries belong to the caller: unchanged (bitwise) by later queries and later operations of the history, "
               "and writing into them does not move any watched object; excepted are the homogeneous coordinates (queries with 'projective' in "
               "their name: projective_coords is documented as the wrapper of the stored array; get_end_pair() returns 'ndarrays with projective "
               "coordinates') and non-float results")
    ctx.assume("the order in which a Segment stores its two ideal endpoints is not demanded")
    ctx.assume("coordinate setters: polygons and segments in all five models, tangent vectors through the raw projective setter only (a (point, vector) "
               "pair has no affine / conformal / hyperboloid coordinates), segments with ideal endpoints through projective / Klein only, projective polygons through "
               "projective_coords and the three affine charts; on an integer-typed object either dtype semantic (replace the array / convert the new "
               "coordinates) is accepted for the primary data, the derived data must agree with whichever it is; states reached through the Klein, "
               "Poincare and half-space setters from the same data coincide and are merged")
    ctx.assume("integer-typed hyperbolic objects (H.Segment/int, H.TangentVector/int, H.Polygon/int): integer homogeneous coordinates of interior points "
               "are in-domain primary data; the derived data is compared with the recomputation in floating point (its dtype is not demanded, its "
               "value is, to the projective-row tolerance)")
    ctx.assume("circle parameters are not requested from complex128 objects (angles of complex coordinates are undefined; the library raises TypeError from np.arctan2)")
    ctx.assume("the library's ComplexWarning casts on complex dtype are ignored (queries on complex128 objects are executed, their values not judged)")
    ctx.tolerances["projective rows"] = "sine of the angle between rows <= 1e-8 (coordinates <= ~10, measured errors <= 1e-13; stale data differs by >= 1e-2)"
    # histories starting from the (2, 2) roots of the four float classes do not use the coordinate setters (cost): objects of
    # shape (2, 2) are re-set in the histories of the (2,) roots (stack, then set-coords) and of the integer (2, 2) root
    roots = [[{"cls": c, "shape": s, "seed": ctx.seed, "setters": s != [2, 2]}] for c in CLASSES for s in ([], [2], [2, 2])]
    roots += [[{"cls": "H.Segment/ideal", "shape": s, "seed": ctx.seed}] for s in ([], [3])]
    roots += [[{"cls": "P.Polygon/int", "shape": s, "seed": ctx.seed}] for s in ([2], [2, 2])]
    # integer-typed hyperbolic objects: the primary data is kept in an integer array while the derived data (ideal endpoints:
    # square roots; projected vector: rational) is not integral -- every shape-changing / stacking / combining / copying
    # operation has to keep the derived data's own dtype.  No setters, no queries (cost; covered on the float classes).
    int_roots = [[{"cls": c, "shape": s, "seed": ctx.seed, "setters": False}] for c in INT_H_CLASSES for s in ([], [2], [2, 2])]
    ctx.bfs("integer-object-histories", "checks.c11:case_hist", int_roots, depth=3 if q else 4, chunk=24,
            domains={"classes": INT_H_CLASSES, "initial shapes": [[], [2], [2, 2]],
                     "units": "integer homogeneous rows (interior points; integer vector rows), int64 arrays; units handed in later "
                              "(setitem / stack / combine) are integer-typed too",
                     "ops": "as object-histories without set-coords and queries"})
    ctx.bfs("object-histories", "checks.c11:case_hist", roots, depth=3 if q else 4, chunk=24,
            domains={"classes": CLASSES, "initial shapes": [[], [2], [2, 2]],
                     "extra class": "H.Segment/ideal = segments whose first endpoint is ideal (generic angle) and second interior or ideal",
                     "ops": "copy, apply x2, apply-composite (2,), apply-pairwise (2,), reshape to (N,),(1,N),(N,1),(2,N/2), flatten_to_unit, [0],[last], "
                            "[0]=unit,[last]=unit, stack, combine, astype(complex128), queries (every read-only query, checked one by one)",
                     "set-coords": SETTERS, "set-coords enabled": "in all histories except those starting from the (2, 2) roots of the four float classes"})
