"""C15 - reflections, their walls and isometry fixed points correspond to each other.

Engine P.  Sections:
  reflections-H<n>     all spacelike normals of the lattice {-1,-0.4,0,0.5,1.2}^(n+1) (Minkowski norm > 0.2)
                       + generic ones, single (n+1,) and composite (2,1,n+1) layout: R = Hyperplane(w).
                       reflection_across() is the reflection in w (involution, isometry, det -1, fixes the
                       wall, negates w), from_reflection(R) (Geodesic.from_reflection in H^2) gives the wall back, also
                       from Isometry(c * matrix of R), c in {-1, 2, 0.5, -3} (one c per case and member, round-robin;
                       keys from_reflection/rescaled-matrix/...)
  reflections-ideal-basis  the same walls given by n ideal points: Subspace / Geodesic / Segment .reflection_across()
                       (+ walls at distance 3, 5, 7 from the origin, keys .../far-wall; the matrix of the reflection
                       handed to from_reflection as an Isometry and as a bare ndarray = Isometry(ndarray))
  non-reflections      conjugates of rotations, identity, loxodromics, parabolic (H^2), rotary and glide
                       reflections (also by 1e-3) are rejected with GeometryError; conjugators up to distance 5; every
                       one also as Isometry(c * matrix), c in {-1, 2, 0.5, -3} (keys .../rescaled-matrix)
  reflection-batches   arrays (shapes (1,), (2,), (3,), (2,2), (1,3)) of isometries mixing reflections across near walls, across far
                       walls (distance 3, 5, 7) and at most one non-reflection, in every position, members also as c * matrix: an
                       array containing a non-reflection is rejected whatever its neighbours are; arrays of reflections give back
                       every wall
  coxeter-reflections  generators of hyperbolic_rep() of triangle groups (and rank-4 simplex groups) and their
                       conjugates by powers of the Coxeter element: from_reflection / reflection_across round trip
  fixed-points         g h g^-1, g = origin_to(p) for every lattice point p, h standard rotation (angles down to
                       1e-7) / loxodromic / parabolic, matrices also rescaled by -1, 2, 0.5: fixed_point,
                       fixed_point_pair, axis, and the options max_eigval=False / sort_eigvals=False

  wall-histories       engine E (no merging): query / move / re-set / rebuild / index / flatten / round-trip sequences of
                       depth <= 3 on single and composite walls; the reflection reported at the end is the closed-form
                       reflection in the model's current normal
  isometry-histories   engine E (no merging): fixed-point queries interleaved with squaring, inverting, conjugating,
                       multiplying by a commuting element, re-setting and rebuilding an isometry of known type

Oracle: the reflection in w is v -> v - 2 <v,w>/<w,w> w (row convention M = I - 2 J w^T w / <w,w>);
attracting end of a loxodromic by 60-fold iteration of an interior point; Minkowski classification from
mc/oracle/hyp.py.  Matrices act on row vectors on the right (the library's convention, pinned here by
using the library's own `iso @ Point` for every "is fixed" test).
"""
import itertools
import math

import numpy as np

from mc import lattice
from mc.oracle import circles as orc
from mc.oracle import hyp

LATTICE5 = [-1.0, -0.4, 0.0, 0.5, 1.2]
LATTICE3 = [-1.0, 0.0, 1.2]
ANGLES = [0.7, 2.0, math.pi]
LOX = [1.3, 2.0, 5.0, 0.5]
F11_KEY = "reflection/%s/null-kernel-vector"


def _V(key, msg):
    return {"key": key, "msg": msg}


def _f(x):
    return np.array2string(np.asarray(x, dtype=float), precision=6, separator=",")


def _finite(x):
    return bool(np.all(np.isfinite(np.asarray(x, dtype=float))))


def reflection_matrix(w):
    """Row-convention matrix of the reflection in the spacelike vector w: v M = v - 2<v,w>/<w,w> w."""
    w = np.asarray(w, dtype=float)
    n1 = w.shape[0]
    J = hyp.J(n1 - 1)
    return np.eye(n1) - 2.0 * (J @ np.outer(w, w)) / float(hyp.mink(w, w))


def wall_problem(pd, w, site):
    """None if the (n+1, n+1) hyperplane data `pd` = [normal; n ideal rows] describes the wall w^perp;
    otherwise (key, message).  Huge or non-finite entries are the signature of finding F11
    (utils.find_isometry dividing by the norm of a null kernel vector)."""
    n1 = w.shape[0]
    pd = np.asarray(pd, dtype=float)
    if pd.shape != (n1, n1):
        return ("reflection/%s/shape" % site, "hyperplane data has shape %r" % (pd.shape,))
    if (not _finite(pd)) or np.max(np.abs(pd)) > 1e3 * (1.0 + np.max(np.abs(w)) / math.sqrt(float(hyp.mink(w, w)))):
        return (F11_KEY % site, "hyperplane data of the normal %s is non-finite or astronomically large:\n%s" % (_f(w), _f(pd)))
    s = float(hyp.proj_sin_err(pd[0], w))
    if not s <= 1e-7:
        return ("reflection/%s/normal" % site, "normal row %s is not proportional to %s (sin %.3g)" % (_f(pd[0]), _f(w), s))
    B = pd[1:]
    ee = np.sum(B * B, axis=-1)
    light = np.max(np.abs(hyp.mink(B, B)) / ee)
    orth = np.max(np.abs(hyp.mink(B, w[None, :])) / np.sqrt(ee * float(np.sum(w * w))))
    sv = np.linalg.svd(B / np.sqrt(ee)[:, None], compute_uv=False)
    if not (light <= 1e-7 and orth <= 1e-7 and sv[-1] / sv[0] >= 1e-6):
        return ("reflection/%s/ideal-basis" % site,
                "ideal basis %s of the wall of %s: relative Minkowski norm %.3g, cosine with the normal %.3g, "
                "smallest/largest singular value %.3g" % (_f(B), _f(w), light, orth, sv[-1] / sv[0]))
    return None


def check_reflection(H, w, pd, M, Rone, tag):
    """M (row convention) must be the reflection in w; pd = hyperplane data whose wall it must fix."""
    v = []
    n1 = w.shape[0]
    J = hyp.J(n1 - 1)
    M = np.asarray(M, dtype=float)
    if M.shape != (n1, n1) or not _finite(M):
        return [_V("reflection/reflection_across/shape-or-non-finite", "%s: matrix %r" % (tag, M))]
    sc = 1.0 + float(np.max(np.abs(M))) ** 2
    tol = 1e-9 * sc
    e = float(np.max(np.abs(M @ M - np.eye(n1))))
    if not e <= tol:
        v.append(_V("reflection/involution", "%s: |R^2 - I| = %.3g" % (tag, e)))
    e = float(np.max(np.abs(M @ J @ M.T - J)))
    if not e <= tol:
        v.append(_V("reflection/form", "%s: |R J R^T - J| = %.3g" % (tag, e)))
    d = float(np.linalg.det(M))
    if not abs(d + 1.0) <= 1e-9 * sc ** ((n1 + 1) // 2):
        v.append(_V("reflection/det", "%s: det R = %.12g" % (tag, d)))
    # the wall is fixed pointwise (projectively), by the library's own action on points
    B = np.asarray(pd[1:], dtype=float)
    pts = [b for b in B] + [B[i] + B[j] for i, j in itertools.combinations(range(len(B)), 2)] + [B.sum(axis=0) - 0.5 * B[0]]
    pts = np.array(pts)
    img = np.asarray((Rone @ H.Point(pts.copy())).proj_data, dtype=float)
    err = float(np.max(hyp.proj_sin_err(img, pts)))
    if not err <= 1e-8:
        v.append(_V("reflection/fixes-wall", "%s: a point of the wall moves (sine of the angle %.3g)" % (tag, err)))
    lam = 1.0 if float(np.sum(img[-1] * pts[-1])) > 0 else -1.0
    wi = np.asarray((Rone @ H.Point(w.copy())).proj_data, dtype=float)
    e = float(np.max(np.abs(wi + lam * w)))
    if not e <= 1e-9 * min(1.0 + float(np.max(np.abs(w))), 4.0 * float(np.max(np.abs(w)))) * sc:      # relative to |w| for small-scale normals
        v.append(_V("reflection/negates-normal", "%s: normal %s is sent to %s (the wall is scaled by %+d)" % (tag, _f(w), _f(wi), lam)))
    Mo = reflection_matrix(w)
    e = min(float(np.max(np.abs(M - Mo))), float(np.max(np.abs(M + Mo))))
    if not e <= 1e-9 * (1.0 + float(np.max(np.abs(Mo))) ** 2):
        v.append(_V("reflection/matrix", "%s: reflection_across differs from v - 2<v,w>/<w,w> w by %.3g" % (tag, e)))
    return v


def case_reflection(case):
    import warnings
    with warnings.catch_warnings(), np.errstate(all="ignore"):
        warnings.simplefilter("ignore")      # the library warns (divide by zero) on the F11 inputs
        r = _case_reflection(case)
    if _far_tag(case):
        for x in r["v"]:
            x["key"] += "/far-wall"
        if "o" in r:
            r["o"] = "far|" + r["o"]
    return r


def _case_reflection(case):
    from geometry_tools import hyperbolic as H
    n, layout = case["n"], case["layout"]
    ws = [np.array(w, dtype=float) for w in case["normals"]]
    v, t = [], 0
    if layout == "single":
        hp = H.Hyperplane(ws[0].copy())
        pds = [np.asarray(hp.proj_data, dtype=float)]
        if case.get("refeed"):
            # the documented full data (spacelike row + ideal rows) handed back to the constructor with every row
            # rescaled: the same wall, now with a non-unit normal row and rescaled ideal points
            sn, si = case["refeed"]
            data = pds[0].copy()
            data[0] *= sn
            data[1:] *= np.array([si * (1.0 + 0.5 * k) for k in range(n)])[:, None]
            hp = H.Hyperplane(data.copy())
            pds = [np.asarray(hp.proj_data, dtype=float)]
    else:
        hp = H.Hyperplane(np.array([[w] for w in ws]))
        pd = np.asarray(hp.proj_data, dtype=float)
        if pd.shape != (len(ws), n + 1, n + 1):
            return {"v": [_V("reflection/hyperplane/shape", "composite hyperplane data has shape %r" % (pd.shape,))], "t": 1}
        pds = [pd[i] for i in range(len(ws))]
    t += 1
    broken = False
    for w, pd in zip(ws, pds):
        prob = wall_problem(pd, w, "reflection_across")
        if prob:
            v.append(_V(prob[0], "Hyperplane(%s) [%s]: %s" % (_f(w), layout, prob[1])))
            broken = True
    if broken:
        return {"v": v, "t": t, "o": "wall-broken", "nt": True}
    R = hp.reflection_across()
    t += 1
    Ms = np.asarray(R.proj_data, dtype=float)
    Ms = [Ms] if layout == "single" else [Ms[i] for i in range(len(ws))]
    for i, (w, pd, M) in enumerate(zip(ws, pds, Ms)):
        Rone = R if layout == "single" else H.Isometry(M.copy())
        v += check_reflection(H, w, pd, M, Rone, "Hyperplane(%s) [%s]" % (_f(w), layout))
        t += 2
    if v:
        return {"v": v, "t": t, "o": "bad-reflection", "nt": True}
    # round trip
    from geometry_tools import GeometryError
    try:
        h2 = H.Hyperplane.from_reflection(R)
    except GeometryError as e:
        return {"v": [_V("from_reflection/rejects-reflection", "Hyperplane.from_reflection(Hyperplane(%s).reflection_across()) [%s] raises GeometryError: %s"
                         % (_f(ws), layout, e))], "t": t + 1, "o": "rejected", "nt": True}
    t += 1
    pd2 = np.asarray(h2.proj_data, dtype=float)
    pd2 = [pd2] if layout == "single" else ([pd2[i] for i in range(len(ws))] if pd2.ndim == 3 and pd2.shape[0] == len(ws) else None)
    if pd2 is None:
        return {"v": [_V("from_reflection/shape", "composite from_reflection data has shape %r" % (np.shape(h2.proj_data),))], "t": t}
    for w, p2 in zip(ws, pd2):
        prob = wall_problem(p2, w, "from_reflection")
        if prob:
            v.append(_V(prob[0].replace("reflection/from_reflection/", "from_reflection/") if "null-kernel" not in prob[0] else prob[0],
                        "from_reflection(reflection in %s) [%s]: %s" % (_f(w), layout, prob[1])))
    # the documented ndarray form of the argument: a bare array means what it means everywhere else in the library
    # (Isometry(ndarray), Transformation(ndarray), .matrix, .proj_data): a matrix acting on row vectors, so that
    # from_reflection(R.matrix) == from_reflection(Isometry(R.matrix)) == from_reflection(R)
    if not v:
        try:
            h3 = H.Hyperplane.from_reflection(np.array(R.matrix, dtype=float))
        except GeometryError as e:
            return {"v": [_V("from_reflection/ndarray/rejects-reflection", "Hyperplane.from_reflection(matrix of the reflection in %s, as an ndarray) [%s] raises GeometryError: %s"
                             % (_f(ws), layout, e))], "t": t + 1, "o": "rejected", "nt": True}
        t += 1
        pd3 = np.asarray(h3.proj_data, dtype=float)
        pd3 = [pd3] if layout == "single" else ([pd3[i] for i in range(len(ws))] if pd3.ndim == 3 and pd3.shape[0] == len(ws) else None)
        if pd3 is None:
            return {"v": [_V("from_reflection/ndarray/shape", "composite from_reflection(ndarray) data has shape %r" % (np.shape(h3.proj_data),))], "t": t}
        for w, p3 in zip(ws, pd3):
            prob = wall_problem(p3, w, "from_reflection")
            if prob:
                v.append(_V("from_reflection/ndarray/" + prob[0].split("/")[-1], "from_reflection(matrix of the reflection in %s, as an ndarray) [%s]: %s" % (_f(w), layout, prob[1])))
    # c * R is the same isometry as R (projective map; fixed_point() already treats it so): the same wall comes back.
    # Composite reflections take one scale per member.
    if not v and case.get("mscales"):
        cs = [float(c) for c in case["mscales"]]
        Mc = np.array(R.matrix, dtype=float) * (cs[0] if layout == "single" else np.array(cs)[:, None, None])
        ctag = "Isometry(%s * matrix of the reflection in %s) [%s]" % (cs, _f(ws), layout)
        Rc = H.Isometry(Mc.copy())
        try:
            h4 = H.Hyperplane.from_reflection(Rc)
        except GeometryError as e:
            return {"v": [_V("from_reflection/rescaled-matrix/rejects-reflection", "Hyperplane.from_reflection(%s) raises GeometryError: %s" % (ctag, e))],
                    "t": t + 1, "o": "rejected-rescaled", "nt": True}
        t += 1
        pd4 = np.asarray(h4.proj_data, dtype=float)
        pd4 = [pd4] if layout == "single" else ([pd4[i] for i in range(len(ws))] if pd4.ndim == 3 and pd4.shape[0] == len(ws) else None)
        if pd4 is None:
            return {"v": [_V("from_reflection/rescaled-matrix/shape", "from_reflection(%s) data has shape %r" % (ctag, np.shape(h4.proj_data)))], "t": t}
        for w, p4 in zip(ws, pd4):
            prob = wall_problem(p4, w, "from_reflection")
            if prob:
                v.append(_V("from_reflection/rescaled-matrix/" + prob[0].split("/")[-1], "from_reflection(%s): %s" % (ctag, prob[1])))
        if n == 2 and not v:
            try:
                gd = np.asarray(H.Geodesic.from_reflection(Rc).proj_data, dtype=float)
            except GeometryError as e:
                return {"v": [_V("from_reflection/rescaled-matrix/geodesic-rejects-reflection", "Geodesic.from_reflection(%s) raises GeometryError: %s" % (ctag, e))],
                        "t": t + 1, "o": "rejected-rescaled", "nt": True}
            t += 1
            gd = [gd] if layout == "single" else [gd[i] for i in range(len(ws))]
            for w, e in zip(ws, gd):
                ok = e.shape == (2, 3) and _finite(e) and np.max(np.abs(e)) < 1e6 * (1.0 + np.max(np.abs(w)) / math.sqrt(float(hyp.mink(w, w))))
                if ok:
                    ee = np.sum(e * e, axis=-1)
                    ok = (np.max(np.abs(hyp.mink(e, e)) / ee) <= 1e-7 and np.max(np.abs(hyp.mink(e, w[None, :])) / np.sqrt(ee * float(np.sum(w * w)))) <= 1e-7
                          and float(hyp.proj_sin_err(e[0], e[1])) >= 1e-6)
                if not ok and not v:
                    v.append(_V("from_reflection/rescaled-matrix/geodesic", "Geodesic.from_reflection(%s) = %s is not the wall of %s" % (ctag, _f(e), _f(w))))
    if n == 2:
        for how in ("isometry", "ndarray"):
            try:
                g = H.Geodesic.from_reflection(R if how == "isometry" else np.array(R.matrix, dtype=float))
            except GeometryError as e:
                v.append(_V("from_reflection/geodesic-rejects-reflection", "Geodesic.from_reflection(reflection in %s%s) raises GeometryError: %s"
                            % (_f(ws), "" if how == "isometry" else ", matrix as an ndarray", e)))
                continue
            except AttributeError as e:
                if how == "isometry":
                    raise
                # reported under its own key so that the other clauses of the case are not masked
                v.append(_V("from_reflection/geodesic-ndarray", "Geodesic.from_reflection(matrix of the reflection in %s, as an ndarray) raises AttributeError: %s" % (_f(ws), e)))
                continue
            t += 1
            gd = np.asarray(g.proj_data, dtype=float)
            gd = [gd] if layout == "single" else [gd[i] for i in range(len(ws))]
            for w, e in zip(ws, gd):
                ok = e.shape == (2, 3) and _finite(e) and np.max(np.abs(e)) < 1e6 * (1.0 + np.max(np.abs(w)) / math.sqrt(float(hyp.mink(w, w))))
                if ok:
                    ee = np.sum(e * e, axis=-1)
                    light = np.max(np.abs(hyp.mink(e, e)) / ee)
                    orth = np.max(np.abs(hyp.mink(e, w[None, :])) / np.sqrt(ee * float(np.sum(w * w))))
                    apart = float(hyp.proj_sin_err(e[0], e[1]))
                    ok = light <= 1e-7 and orth <= 1e-7 and apart >= 1e-6
                if not ok and not v:
                    v.append(_V("from_reflection/geodesic" + ("" if how == "isometry" else "-ndarray"),
                                "Geodesic.from_reflection(reflection in %s%s) = %s is not the wall" % (_f(w), "" if how == "isometry" else ", matrix as an ndarray", _f(e))))
    o = "ok|%s|%d|%s|%s" % (layout, int(round(10 * float(hyp.mink(ws[0], ws[0])) / float(case.get("scales", [1.0])[0]) ** 2)),
                            ",".join("%g" % x for x in case.get("scales", [])), ",".join("%g" % x for x in case.get("mscales", [])))
    return {"v": v, "t": t, "o": o, "nt": True}


def wall_ideal_rows(w):
    """n affinely independent ideal points (projective rows (1, e)) of the wall w^perp, from the Klein
    flat {x : w1..n . x = w0}: m +- rho q_0, m + rho q_i."""
    w = np.asarray(w, dtype=float)
    n = w.shape[0] - 1
    m, Q = orc.hyperplane_flat(w)
    rho = math.sqrt(1.0 - float(m @ m))
    es = [m + rho * Q[:, 0], m - rho * Q[:, 0]] + [m + rho * Q[:, i] for i in range(1, n - 1)]
    return np.array([[1.0] + [float(x) for x in e] for e in es])


def case_reflection_ideal(case):
    import warnings
    with warnings.catch_warnings(), np.errstate(all="ignore"):
        warnings.simplefilter("ignore")      # the library divides by zero on walls through the origin
        return _case_reflection_ideal(case)


def _case_reflection_ideal(case):
    """The wall is given by an ideal basis (Subspace / Geodesic / Segment) instead of a normal."""
    from geometry_tools import hyperbolic as H
    n, ctor = case["n"], case["ctor"]
    w = np.array(case["normal"], dtype=float)
    rows = wall_ideal_rows(w)
    if ctor == "Subspace":
        obj = H.Subspace(rows.copy())
    elif ctor == "Geodesic":
        obj = H.Geodesic(H.Point(rows[0].copy()), H.Point(rows[1].copy()))
    else:       # Segment between two interior points of the wall
        a = 0.7 * rows[0] + 0.3 * rows[1]
        b = 0.2 * rows[0] + 0.8 * rows[1]
        obj = H.Segment(H.Point(a), H.Point(b))
    tag = "%s(ideal basis of the wall of %s)" % (ctor, _f(w))
    try:
        R = obj.reflection_across()
    except np.linalg.LinAlgError as e:
        if abs(w[0]) <= 1e-12:     # same finding class as the NaN matrix: the wall passes through the origin
            return {"v": [_V("reflection-ideal-basis/reflection_across/wall-through-origin", "%s: reflection_across raises LinAlgError: %s" % (tag, e))],
                    "t": 1, "o": "LinAlgError", "nt": True}
        raise
    M = np.asarray(R.proj_data, dtype=float)
    v = check_reflection(H, w, np.vstack([w[None, :], rows]), M, R, tag) if _finite(M) else \
        [_V("reflection/reflection_across/shape-or-non-finite", "%s: matrix %r" % (tag, M))]
    if not v:
        d = np.asarray(obj.spacelike_complement().proj_data, dtype=float)
        e = float(hyp.proj_sin_err(d, w)) if d.shape == w.shape and _finite(d) else 1.0
        if not e <= 1e-7:
            v.append(_V("reflection/spacelike_complement", "%s: spacelike_complement() = %s is not the normal" % (tag, _f(d))))
    through = abs(w[0]) <= 1e-12
    for x in v:
        x["key"] = ("reflection-ideal-basis/reflection_across/wall-through-origin" if through
                    else x["key"].replace("reflection/", "reflection-ideal-basis/", 1))
    v = v[:1] if through else v
    return {"v": v, "t": 4, "o": "%s|%s|%d" % (ctor, "origin" if through else "generic", int(round(10 * float(hyp.mink(w, w))))), "nt": True}


# ------------------------------------------------------------------------------------------
# isometries built from the standard ones
# ------------------------------------------------------------------------------------------
def _conj(H, n, g, h):
    G = H.Point(np.array(g, dtype=float), model="klein").origin_to()
    return G @ h @ G.inv()


def _standard(H, n, kind, param):
    if kind == "identity":
        return H.identity(n)
    if kind == "rotation":
        return H.Isometry.standard_rotation(float(param), dimension=n)
    if kind == "loxodromic":
        return H.Isometry.standard_loxodromic(n, float(param))
    if kind == "parabolic":
        return H.sl2_iso(np.array([[1.0, 1.0], [0.0, 1.0]]))
    if kind in ("rotoreflection", "glide"):
        m = np.eye(n + 1)
        m[n, n] = -1.0            # reflection in the coordinate wall x_n = 0, which contains the x_1 axis
        mirror = H.Isometry(m)
        other = (H.Isometry.standard_rotation(float(param), dimension=n) if kind == "rotoreflection"
                 else H.Isometry.standard_loxodromic(n, float(param)))
        return mirror @ other
    raise ValueError(kind)


def case_nonreflection(case):
    from geometry_tools import hyperbolic as H
    from geometry_tools import GeometryError
    n, kind, param = case["n"], case["kind"], case["param"]
    iso = _conj(H, n, case["g"], _standard(H, n, kind, param))
    tag = "conjugate by origin_to(%s) of the standard %s(%s) of H^%d" % (_f(case["g"]), kind, param, n)
    c = float(case.get("scale", 1.0))
    if c != 1.0:
        # the same non-reflection given by a rescaled matrix: still not a reflection
        iso = H.Isometry(c * np.array(iso.proj_data, dtype=float))
        tag = "Isometry(%g * matrix of the %s)" % (c, tag)
    v = []
    try:
        h = H.Hyperplane.from_reflection(iso)
        v.append(_V("from_reflection/accepts-non-reflection/%s" % kind,
                    "%s: Hyperplane.from_reflection returned %s instead of raising GeometryError" % (tag, _f(h.proj_data))))
    except GeometryError:
        pass
    if n == 2:
        try:
            g = H.Geodesic.from_reflection(iso)
            v.append(_V("from_reflection/geodesic-accepts-non-reflection/%s" % kind,
                        "%s: Geodesic.from_reflection returned %s instead of raising GeometryError" % (tag, _f(g.proj_data))))
        except GeometryError:
            pass
    far = float(np.linalg.norm(case["g"])) > 0.98
    for x in v:
        x["key"] += ("/far-conjugate" if far else "") + ("/rescaled-matrix" if c != 1.0 else "")
    return {"v": v, "t": 2, "o": ("%s|H%d|%s%srejected" % (kind, n, "far|" if far else "", "" if c == 1.0 else "x%g|" % c)) if not v else "accepted", "nt": kind != "identity"}


def case_reflection_batch(case):
    import warnings
    with warnings.catch_warnings(), np.errstate(all="ignore"):
        warnings.simplefilter("ignore")
        return _case_reflection_batch(case)


def _case_reflection_batch(case):
    """A composite Isometry whose members are reflections (across near and far walls) and non-reflections, each given by
    c * matrix: from_reflection decides member by member - one non-reflection anywhere in the array and the array is
    rejected, whatever its neighbours are; an array of reflections gives back every wall."""
    from geometry_tools import hyperbolic as H
    from geometry_tools import GeometryError
    n, shape, members = case["n"], tuple(case["shape"]), case["members"]
    n1 = n + 1
    mats, names, t = [], [], 0
    for m in members:
        c = float(m.get("scale", 1.0))
        if m["type"] == "refl":
            w = np.array(m["normal"], dtype=float)
            M = np.array(H.Hyperplane(w.copy()).reflection_across().proj_data, dtype=float)
            Mo = reflection_matrix(w)
            # precondition (decided by section reflections-H<n>): the member is the reflection in w
            if M.shape != (n1, n1) or not _finite(M) or not float(np.max(np.abs(M - Mo))) <= 1e-9 * (1.0 + float(np.max(np.abs(Mo))) ** 2):
                return {"v": [], "t": t + 2, "o": "member-not-a-reflection (section reflections)", "nt": False}
            names.append("%g * reflection in %s" % (c, _f(w)))
            t += 2
        else:
            iso = _conj(H, n, m["g"], _standard(H, n, m["kind"], m["param"]))
            M = np.array(iso.proj_data, dtype=float)
            names.append("%g * [%s(%s) conjugated by origin_to(%s)]" % (c, m["kind"], m["param"], _f(m["g"])))
            t += 4
        mats.append(c * M)
    bad = [m for m in members if m["type"] != "refl"]
    far = any(m["type"] == "refl" and _far_tag({"normals": [m["normal"]]}) for m in members)
    scaled = any(float(m.get("scale", 1.0)) != 1.0 for m in members)
    suffix = ("/far-member" if far else "") + ("/rescaled-matrix" if scaled else "")
    tag = "Isometry array of shape %s in H^%d with members [%s]" % (shape, n, "; ".join(names))
    arr = np.array(mats).reshape(shape + (n1, n1))
    v = []
    forms = [("isometry", H.Isometry(arr.copy())), ("ndarray", arr.copy())]
    if bad:
        kind = bad[0]["kind"]
        for how, arg in forms:
            try:
                h = H.Hyperplane.from_reflection(arg)
                v.append(_V("from_reflection/composite/accepts-non-reflection/%s%s" % (kind, suffix),
                            "%s (given as %s): Hyperplane.from_reflection returned a hyperplane array of shape %r instead of raising GeometryError"
                            % (tag, how, np.shape(h.proj_data))))
            except GeometryError:
                pass
            t += 1
        if n == 2:
            try:
                g = H.Geodesic.from_reflection(forms[0][1])
                v.append(_V("from_reflection/composite/geodesic-accepts-non-reflection/%s%s" % (kind, suffix),
                            "%s: Geodesic.from_reflection returned an array of shape %r instead of raising GeometryError" % (tag, np.shape(g.proj_data))))
            except GeometryError:
                pass
            t += 1
        o = "%s|H%d|%s|pos%s|%s%s%s" % (kind, n, "x".join(map(str, shape)), [i for i, m in enumerate(members) if m["type"] != "refl"],
                                      "far|" if far else "", "scaled|" if scaled else "", "rejected" if not v else "accepted")
        return {"v": v, "t": t, "o": o, "nt": True}
    # control: every member is a reflection - accepted, and every wall comes back
    ws = [np.array(m["normal"], dtype=float) for m in members]
    for how, arg in forms:
        try:
            h = H.Hyperplane.from_reflection(arg)
        except GeometryError as e:
            v.append(_V("from_reflection/composite/rejects-reflection" + suffix, "%s (given as %s): from_reflection raises GeometryError: %s" % (tag, how, e)))
            break
        t += 1
        pd = np.asarray(h.proj_data, dtype=float)
        if pd.shape != shape + (n1, n1):
            v.append(_V("from_reflection/composite/shape", "%s (given as %s): hyperplane data of shape %r" % (tag, how, pd.shape)))
            break
        pd = pd.reshape((len(ws), n1, n1))
        for w, p in zip(ws, pd):
            prob = wall_problem(p, w, "from_reflection")
            if prob and not v:
                v.append(_V(prob[0] if "null-kernel" in prob[0] else "from_reflection/composite/" + prob[0].split("/")[-1] + suffix,
                            "%s (given as %s), member with normal %s: %s" % (tag, how, _f(w), prob[1])))
    o = "all-reflections|H%d|%s|%s%s%s" % (n, "x".join(map(str, shape)), "far|" if far else "", "scaled|" if scaled else "", "ok" if not v else "bad")
    return {"v": v, "t": t, "o": o, "nt": True}


BATCH_SCALES = [1.0, -1.0, 2.0, 0.5, -3.0]       # 1 and REFLECTION_MATRIX_SCALES


def reflection_batch_cases(seed):
    """Arrays of isometries mixing reflections across near walls, reflections across far walls (distance 3, 5, 7: matrices
    of norm up to 6e5) and at most one non-reflection, the non-reflection in every position of the array."""
    L = len(BATCH_SCALES)
    k = 0

    def scaled(members):
        # member i of the k-th case is given by BATCH_SCALES[(k + i) % L] * matrix on every second case, by its matrix otherwise
        nonlocal k
        k += 1
        if k % 2:
            return members
        return [dict(m, scale=BATCH_SCALES[(k // 2 + i) % L]) for i, m in enumerate(members)]

    for n in (2, 3, 4):
        std, close = _nonreflection_kinds(n)
        near = lattice_normals(n, LATTICE3) + generic_normals(n, 6, seed)
        far = far_normals(n, seed)
        P = _points(n, True, seed)
        G = [P[1], P[len(P) // 2], P[-1]]
        R = lambda w: {"type": "refl", "normal": w}
        j = 0
        for kind, param in std + close:
            for g in G:
                x = {"type": "iso", "g": g, "kind": kind, "param": param}
                for i, f in enumerate(far):
                    j += 1
                    a, b, f2 = near[j % len(near)], near[(3 * j + 1) % len(near)], far[(i + 6) % len(far)]
                    for shape, members in (([2], [R(f), x]), ([2], [x, R(f)]), ([3], [R(a), x, R(f)]), ([3], [R(f), R(a), x]),
                                           ([2, 2], [R(f), R(a), x, R(f2)]), ([1, 3], [x, R(f2), R(f)])):
                        yield {"n": n, "shape": shape, "members": scaled(members)}
                # arrays of moderate matrices only
                for i in range(3):
                    j += 1
                    a, b = near[j % len(near)], near[(3 * j + 1) % len(near)]
                    for shape, members in (([1], [x]), ([2], [R(a), x]), ([3], [x, R(a), R(b)]), ([2, 2], [R(a), R(b), R(a), x])):
                        yield {"n": n, "shape": shape, "members": scaled(members)}
        # controls: reflections only
        for i, f in enumerate(far):
            a, b, f2 = near[i % len(near)], near[(3 * i + 1) % len(near)], far[(i + 6) % len(far)]
            for shape, members in (([2], [R(f), R(a)]), ([3], [R(a), R(f2), R(f)]), ([2, 2], [R(f), R(a), R(b), R(f2)]), ([1, 3], [R(b), R(f), R(a)])):
                for _ in range(2):
                    yield {"n": n, "shape": shape, "members": scaled(members)}


def case_coxeter(case):
    from geometry_tools import hyperbolic as H
    from geometry_tools import coxeter
    mat = case["matrix"]
    G = coxeter.CoxeterGroup(matrix=np.array(mat))
    rep = G.hyperbolic_rep()
    n = len(mat) - 1
    J = hyp.J(n)
    v, t = [], 1
    from geometry_tools import GeometryError
    # the generators, and their conjugates W^-k s W^k by powers of the Coxeter element W = product of all generators
    # (reflections across walls further and further away from the origin)
    W = rep[G.ordered_gens[0]]
    for s in G.ordered_gens[1:]:
        W = W @ rep[s]
    Wk = H.identity(n)
    todo = []
    for k in range(case.get("conj", 0) + 1):
        for s in G.ordered_gens:
            todo.append((k, s, rep[s] if k == 0 else Wk.inv() @ rep[s] @ Wk))
        Wk = Wk @ W
    for k, s, iso in todo:
        M = np.asarray(iso.proj_data, dtype=float)
        tag = "generator %s of the Coxeter group %s" % (s, mat) + (" conjugated by the %d-th power of the Coxeter element (|M| = %.3g)" % (k, np.max(np.abs(M))) if k else "")
        # precondition (C08): the generator is a reflection of the Minkowski form (conjugates: to the accuracy of a
        # product of matrices of that size)
        pre = max(float(np.max(np.abs(M @ M - np.eye(n + 1)))), float(np.max(np.abs(M @ J @ M.T - J))))
        ptol = 1e-8 if k == 0 else 1e-8 + 1e3 * np.finfo(float).eps * float(np.max(np.abs(M))) ** 2
        if not (pre <= ptol and abs(np.linalg.det(M) + 1) <= (1e-8 if k == 0 else 1e-6)) or np.max(np.abs(M)) > 1e6:
            continue
        try:
            h = H.Hyperplane.from_reflection(iso)
        except GeometryError as e:
            v.append(_V("coxeter/from_reflection/rejects-reflection" + ("/conjugate" if k else ""), "%s: from_reflection raises GeometryError: %s" % (tag, e)))
            continue
        t += 1
        pd = np.asarray(h.proj_data, dtype=float)
        w = pd[0].copy() if pd.ndim == 2 else None
        if w is None or not _finite(w) or not float(hyp.mink(w, w)) > 0:
            v.append(_V("coxeter/from_reflection/normal", "%s: hyperplane data %r" % (tag, pd)))
            continue
        e = float(np.max(np.abs(w @ M + w))) / float(np.max(np.abs(w))) / max(1.0, float(np.max(np.abs(M))))
        if not e <= 1e-7:
            v.append(_V("coxeter/from_reflection/normal", "%s: the recovered normal %s is not negated by the generator (%.3g)" % (tag, _f(w), e)))
            continue
        prob = wall_problem(pd, w, "from_reflection")
        if prob:
            v.append(_V(prob[0] if "null-kernel" in prob[0] else "coxeter/from_reflection/ideal-basis", "%s: %s" % (tag, prob[1])))
            continue
        R2 = np.asarray(h.reflection_across().proj_data, dtype=float)
        t += 1
        e = float(np.max(np.abs(R2 - M)))
        if not e <= 1e-7 * (1.0 + float(np.max(np.abs(M))) ** 2):
            v.append(_V("coxeter/round-trip", "%s: reflection_across(from_reflection(s)) differs from s by %.3g" % (tag, e)))
    return {"v": v, "t": t, "o": "rank%d|%d" % (len(mat), sum(sum(r) for r in mat)), "nt": True}


# ------------------------------------------------------------------------------------------
# fixed points
# ------------------------------------------------------------------------------------------
def _qnorm(x):
    x = np.asarray(x, dtype=float)
    return hyp.mink(x, x) / np.sum(x * x, axis=-1)


SMALL_ANGLES = [1e-3, 1e-5, 1e-7]
MATRIX_SCALES = [-1.0, 2.0, 0.5]        # c * A is the same projective map as A (property C12)
REFLECTION_MATRIX_SCALES = MATRIX_SCALES + [-3.0]      # from_reflection: the same, and a negative non-unit scale


def case_fixed(case):
    from geometry_tools import hyperbolic as H
    n, kind, param = case["n"], case["kind"], case["param"]
    c = float(case.get("scale", 1.0))
    h0 = _standard(H, n, kind, param)
    G = H.Point(np.array(case["g"], dtype=float), model="klein").origin_to()
    iso = G @ h0 @ G.inv()
    tag = "conjugate by origin_to(%s) of the standard %s(%s) of H^%d" % (_f(case["g"]), kind, param, n)
    if c != 1.0:
        iso = H.Isometry(c * np.array(iso.proj_data, dtype=float))
        tag = "Isometry(%g * matrix of the %s)" % (c, tag)
    r = _fixed_checks(H, iso, iso, n, kind, case["probe"], tag)
    if kind == "rotation" and not [x for x in r["v"] if "unsorted-option" not in x["key"]]:
        # "is fixed" is blind for small angles (a rotation by 1e-7 moves nothing by more than 1e-7): the fixed points of
        # G h G^-1 are the images under G of the coordinate subspace that the standard rotation h fixes pointwise
        h0m = np.asarray(h0.proj_data, dtype=float)
        moving = [i for i in range(n + 1) if abs(h0m[i, i] - 1.0) > 0 or np.max(np.abs(np.delete(h0m[i], i))) > 0]
        fp = np.asarray(iso.fixed_point().proj_data, dtype=float)
        x = np.asarray((G.inv() @ H.Point(fp.copy())).proj_data, dtype=float)
        r["t"] += 2
        off = float(np.max(np.abs(x[moving]))) / float(np.max(np.abs(x)))
        if not off <= 1e-6:
            r["v"].append(_V("fixed_point/elliptic/off-the-fixed-subspace",
                             "%s: fixed_point() = %s, pulled back by origin_to: %s, has relative size %.3g in the rotating plane (coordinates %s)"
                             % (tag, _f(fp), _f(x), off, moving)))
    suffix = "/rescaled-matrix" if c != 1.0 else ("/small-angle" if kind == "rotation" and param < 1e-2 else "")
    for x in r["v"]:
        x["key"] += suffix
    if suffix and "o" in r:
        r["o"] = suffix[1:] + "|" + r["o"]
    return r


def _fixed_checks(H, iso, act, n, kind, probe, tag):
    """The fixed-point clauses for the isometry object `iso` of the given conjugacy type; `act` is an
    isometry object with the same matrix that is used for every "is it fixed" test (the same object in
    the one-shot sections, a fresh object built from the matrix in the history sections)."""
    case = {"probe": probe}
    v, t = [], 4
    # a triple eigenvalue (parabolic) is only resolved to eps^(1/3) ~ 6e-6 by any eigen-solver
    ftol = 1e-3 if kind == "parabolic" else 1e-6
    if kind == "rotation":
        fkey = "fixed_point/elliptic/dim2"
        if n >= 3:
            # The known finding (F12) is specifically: the basis LAPACK returns for the (>=2-dimensional)
            # 1-eigenspace contains no timelike vector.  Decide that independently, so that any OTHER
            # failure on rotations of H^n, n >= 3, keeps its own key.
            Mt = np.asarray(act.proj_data, dtype=float).T
            Mt = Mt / (abs(np.linalg.det(Mt)) ** (1.0 / (n + 1)) * (1.0 if np.trace(Mt) >= 0 else -1.0))
            w, V = np.linalg.eig(Mt)
            ones = [i for i in range(len(w)) if abs(w[i] - 1.0) < 1e-6]
            has_timelike = any(float(_qnorm(np.real(V[:, i]))) < -1e-6 for i in ones if np.max(np.abs(np.imag(V[:, i]))) < 1e-9)
            fkey = ("fixed_point/elliptic/dim>=3" if has_timelike
                    else "fixed_point/elliptic/dim>=3-degenerate-eigenspace")
    else:
        fkey = "fixed_point/%s" % kind

    def fixed_err(rows):
        rows = np.atleast_2d(np.asarray(rows, dtype=float))
        img = np.asarray((act @ H.Point(rows.copy())).proj_data, dtype=float)
        return float(np.max(hyp.proj_sin_err(img, rows)))

    fp = np.asarray(iso.fixed_point().proj_data, dtype=float)
    if fp.shape != (n + 1,) or not _finite(fp) or not np.any(fp != 0):
        return {"v": [_V(fkey, "%s: fixed_point() = %r" % (tag, fp))], "t": t}
    qf = float(_qnorm(fp))
    e = fixed_err(fp)
    if not e <= ftol:
        v.append(_V(fkey, "%s: fixed_point() = %s is not fixed (sine of the angle with its image %.3g)" % (tag, _f(fp), e)))
    elif kind == "rotation" and not qf < -1e-6:
        v.append(_V(fkey, "%s: fixed_point() = %s is not an interior point (relative Minkowski norm %.3g)" % (tag, _f(fp), qf)))
    elif not qf <= ftol:
        v.append(_V(fkey, "%s: fixed_point() = %s lies outside the closed ball (relative Minkowski norm %.3g)" % (tag, _f(fp), qf)))
    out = "%s|%s|%s" % (kind, "int" if qf < -1e-6 else ("ideal" if qf <= ftol else "ext"),
                        np.round(fp[1:] / fp[0], 1).tolist() if fp[0] != 0 else "inf")

    # the documented options max_eigval=False / sort_eigvals=False: only what the docstrings promise without the
    # ordering guarantee - a fixed point in the closed ball; the two ideal endpoints of the axis in any order
    if kind != "identity":
        try:
            fp2 = np.asarray(iso.fixed_point(max_eigval=False).proj_data, dtype=float)
            pair2 = np.asarray(iso.fixed_point_pair(sort_eigvals=False).proj_data, dtype=float) if kind == "loxodromic" else None
        except ValueError as e:
            if "same number of dimensions" not in str(e):
                raise
            # (reported under its own key so that the other clauses of the case are not masked)
            v.append(_V("fixed_point/unsorted-option/raises", "%s: fixed_point(max_eigval=False) / fixed_point_pair(sort_eigvals=False) raises ValueError: %s" % (tag, e)))
            fp2 = pair2 = None
        t += 2
        if fp2 is not None:
            if fp2.shape != (n + 1,) or not _finite(fp2) or not np.any(fp2 != 0):
                v.append(_V("fixed_point/unsorted-option/%s" % kind, "%s: fixed_point(max_eigval=False) = %r" % (tag, fp2)))
            else:
                e2, q2f = fixed_err(fp2), float(_qnorm(fp2))
                if not (e2 <= ftol and q2f <= ftol):
                    v.append(_V("fixed_point/unsorted-option/%s" % kind,
                                "%s: fixed_point(max_eigval=False) = %s: sine of the angle with its image %.3g, relative Minkowski norm %.3g (not a fixed point in the closed ball)"
                                % (tag, _f(fp2), e2, q2f)))
        if pair2 is not None:
            okp = pair2.shape == (2, n + 1) and _finite(pair2)
            if okp:
                okp = fixed_err(pair2) <= 1e-6 and float(np.max(np.abs(_qnorm(pair2)))) <= 1e-6 and float(hyp.proj_sin_err(pair2[0], pair2[1])) >= 1e-3
            if not okp:
                v.append(_V("fixed_point_pair/unsorted-option/loxodromic", "%s: fixed_point_pair(sort_eigvals=False) = %s is not the pair of ideal endpoints of the axis" % (tag, _f(pair2))))

    if kind == "loxodromic":
        pair = np.asarray(iso.fixed_point_pair().proj_data, dtype=float)
        if pair.shape != (2, n + 1) or not _finite(pair):
            return {"v": v + [_V("fixed_point_pair/shape", "%s: %r" % (tag, pair))], "t": t}
        q2 = _qnorm(pair)
        e = fixed_err(pair)
        if not e <= 1e-6:
            v.append(_V("fixed_point_pair/loxodromic/not-fixed", "%s: fixed_point_pair() = %s is moved (%.3g)" % (tag, _f(pair), e)))
        elif not np.max(np.abs(q2)) <= 1e-6:
            v.append(_V("fixed_point_pair/loxodromic/not-ideal", "%s: fixed_point_pair() = %s has relative Minkowski norms %s" % (tag, _f(pair), _f(q2))))
        elif not float(hyp.proj_sin_err(pair[0], pair[1])) >= 1e-3:
            v.append(_V("fixed_point_pair/loxodromic/same-point-twice", "%s: fixed_point_pair() = %s" % (tag, _f(pair))))
        else:
            # attracting end: iterate an interior point 60 times with the library's own action
            x = H.Point(np.array(case["probe"], dtype=float), model="klein")
            for _ in range(60):
                x = act @ x
                d = np.asarray(x.proj_data, dtype=float)
                x = H.Point(d / np.max(np.abs(d)))
            t += 60
            lim = np.asarray(x.proj_data, dtype=float)
            e0, e1 = float(hyp.proj_sin_err(lim, pair[0])), float(hyp.proj_sin_err(lim, pair[1]))
            if not e0 <= 1e-6:
                v.append(_V("fixed_point_pair/loxodromic/order",
                            "%s: the orbit of %s converges to %s; fixed_point_pair() = %s lists the %s"
                            % (tag, _f(case["probe"]), _f(lim / lim[0]), _f(pair), "repelling end first" if e1 <= 1e-6 else "wrong points")))
            # fixed_point() with the default max_eigval=True is the attracting end as well (same sort)
            ax = np.asarray(iso.axis().proj_data, dtype=float)
            t += 1
            ok = ax.shape == (2, n + 1) and _finite(ax)
            if ok:
                m = min(max(hyp.proj_sin_err(ax[0], pair[0]), hyp.proj_sin_err(ax[1], pair[1])),
                        max(hyp.proj_sin_err(ax[0], pair[1]), hyp.proj_sin_err(ax[1], pair[0])))
                ok = float(m) <= 1e-9
            if not ok:
                v.append(_V("axis/loxodromic", "%s: axis() = %s is not the geodesic through the fixed pair %s" % (tag, _f(ax), _f(pair))))
            else:
                # the axis is invariant: an interior point of it is moved along it
                mid = ax[0] / ax[0][0] + ax[1] / ax[1][0]
                im = np.asarray((act @ H.Point(mid.copy())).proj_data, dtype=float)
                coef, res, rk, sv = np.linalg.lstsq(ax.T, im, rcond=None)
                r = float(np.linalg.norm(ax.T @ coef - im) / np.linalg.norm(im))
                if not r <= 1e-6:
                    v.append(_V("axis/loxodromic", "%s: axis() is not invariant (relative residual %.3g)" % (tag, r)))
        out += "|pair"
    return {"v": v, "t": t, "o": out, "nt": kind != "identity"}


# ------------------------------------------------------------------------------------------
# enumeration
# ------------------------------------------------------------------------------------------
def lattice_normals(n, values):
    out = []
    for w in itertools.product(values, repeat=n + 1):
        w = np.array(w, dtype=float)
        if float(hyp.mink(w, w)) > 0.2:
            out.append([float(x) for x in w])
    return out


def generic_normals(n, count, seed):
    out = []
    k = 0
    while len(out) < count and k < 10 * count + 20:
        w = lattice.generic_dir(n + 1, 200 + k, seed)
        k += 1
        if float(hyp.mink(w, w)) > 0.2:
            out.append([float(x) * (1.0 + 0.5 * (k % 3)) for x in w])
    return out


# a normal is a homogeneous vector: lambda w, lambda != 0, is the same hyperplane with the same reflection; spacelike-ness does
# not depend on lambda (absolute thresholds on <w,w> do)
NORMAL_SCALES = [3e-5, 1e-6, 1e4, -1.0, -3e-5, -1e-6, -1e4]
SCALED_STRIDE = {2: 2, 3: 5, 4: 23}        # every k-th normal of the section's list is taken at every scale


def scaled_normal(w, s):
    return [float(s) * float(x) for x in w]


FAR_DISTANCES = [3.0, 5.0, 7.0]


def far_normals(n, seed):
    """Unit normals (sinh D, cosh D * d) of walls at distance D from the origin, d an axis direction, the diagonal and
    two generic directions."""
    dirs = [np.eye(n)[0], -np.eye(n)[n - 1], np.ones(n) / math.sqrt(n)] + [lattice.generic_dir(n, 300 + k, seed) for k in range(2)]
    return [[math.sinh(D)] + [math.cosh(D) * float(x) for x in d] for D in FAR_DISTANCES for d in dirs]


def _far_tag(case):
    """input class of a reflection case: walls further than 2.5 from the origin (|w0| / sqrt<w,w> = sinh D > 6)"""
    for w in case["normals"]:
        w = np.array(w, dtype=float)
        if abs(w[0]) / math.sqrt(float(hyp.mink(w, w))) > 6.0:
            return True
    return False


def reflection_cases(n, values, ngen, seed):
    """Every case also carries the scales c (one per member, round-robin over REFLECTION_MATRIX_SCALES) by which the matrix of its
    reflection is multiplied before it is handed to from_reflection once more."""
    L = len(REFLECTION_MATRIX_SCALES)
    for k, case in enumerate(_reflection_cases(n, values, ngen, seed)):
        case["mscales"] = [REFLECTION_MATRIX_SCALES[(k + i) % L] for i in range(len(case["normals"]))]
        yield case


def _reflection_cases(n, values, ngen, seed):
    ws = lattice_normals(n, values) + generic_normals(n, ngen, seed)
    far = far_normals(n, seed)
    for i, w in enumerate(far):
        yield {"n": n, "layout": "single", "normals": [w]}
        yield {"n": n, "layout": "single", "normals": [scaled_normal(w, -0.01)], "scales": [-0.01]}
        yield {"n": n, "layout": "composite", "normals": [w, ws[(7 * i) % len(ws)]]}
        yield {"n": n, "layout": "composite", "normals": [far[(i + 6) % len(far)], w]}
    for w in ws:
        yield {"n": n, "layout": "single", "normals": [w]}
    for i in range(len(ws)):
        yield {"n": n, "layout": "composite", "normals": [ws[i], ws[(i + 1) % len(ws)]]}
    for i in range(0, len(ws), max(1, SCALED_STRIDE[n] // 2)):
        for sn, si in ((2.0, 1.0), (3.0, 3.0), (-0.5, 2.0), (1.0, -4.0)):
            yield {"n": n, "layout": "single", "normals": [ws[i]], "refeed": [sn, si]}
    L = len(NORMAL_SCALES)
    for i in range(0, len(ws), SCALED_STRIDE[n]):
        for j, s in enumerate(NORMAL_SCALES):
            yield {"n": n, "layout": "single", "normals": [scaled_normal(ws[i], s)], "scales": [s]}
            # composites mix scales: (s w_i, s' w_(i+1)) with s' the next scale of the list, and (w_(i+1), s w_i)
            s2 = NORMAL_SCALES[(j + 1) % L]
            yield {"n": n, "layout": "composite", "normals": [scaled_normal(ws[i], s), scaled_normal(ws[(i + 1) % len(ws)], s2)], "scales": [s, s2]}
            yield {"n": n, "layout": "composite", "normals": [ws[(i + 1) % len(ws)], scaled_normal(ws[i], s)], "scales": [1.0, s]}


def reflection_ideal_cases(q, seed):
    for n in (2, 3, 4):
        values = LATTICE5 if (n <= 3 or not q) else LATTICE3
        for w in lattice_normals(n, values) + generic_normals(n, 6 if q else (150 if DEEP else 24), seed):
            for ctor in (["Subspace", "Geodesic", "Segment"] if n == 2 else ["Subspace"]):
                yield {"n": n, "normal": w, "ctor": ctor}


def _points(n, q, seed):
    return [list(map(float, p)) for p in lattice.klein_points(n, m_generic=6 if q else (200 if DEEP else 40), seed=seed, rmax=0.9 if q else 0.97)]


def _nonreflection_kinds(n):
    std = [("identity", 0)] + [("rotation", a) for a in ANGLES] + [("loxodromic", l) for l in LOX]
    std += [("glide", l) for l in (2.0, 0.5)]
    if n == 2:
        std.append(("parabolic", 1))
    else:
        std += [("rotoreflection", a) for a in ANGLES[:2]]
    # non-reflections that are close to a reflection: a glide reflection of translation length 1e-3, a rotary
    # reflection by 1e-3 rad (they differ from every reflection by 1e-3)
    near = [("glide", 1.001)] + ([("rotoreflection", 1e-3)] if n >= 3 else [])
    return std, near


def nonreflection_cases(q, seed):
    for n in (2, 3, 4):
        std, near = _nonreflection_kinds(n)
        L = len(REFLECTION_MATRIX_SCALES)
        for g in _points(n, q, seed):
            for kind, param in std + near:
                yield {"n": n, "g": g, "kind": kind, "param": param}
                # the same isometry given by c * matrix is still not a reflection
                for c in REFLECTION_MATRIX_SCALES:
                    yield {"n": n, "g": g, "kind": kind, "param": param, "scale": c}
        # conjugates by isometries that move the origin by 3 and 5 (matrices of norm e^6, e^10)
        for D in FAR_DISTANCES[:2]:
            for k in range(3):
                g = [math.tanh(D) * float(x) for x in lattice.generic_dir(n, 320 + k, seed)]
                for j, (kind, param) in enumerate(std):
                    yield {"n": n, "g": g, "kind": kind, "param": param}
                    yield {"n": n, "g": g, "kind": kind, "param": param, "scale": REFLECTION_MATRIX_SCALES[(j + k) % L]}


def fixed_cases(q, seed):
    for n in (2, 3, 4):
        std = [("rotation", a) for a in ANGLES + ([] if q else [0.3, 1.2, 2.7])]
        std += [("loxodromic", l) for l in LOX + ([] if q else [1.5, 3.0, 0.25])]
        if n == 2:
            std.append(("parabolic", 1))
        P = _points(n, q, seed)
        for i, g in enumerate(P):
            for kind, param in std:
                yield {"n": n, "g": g, "kind": kind, "param": param, "probe": P[(i + 3) % len(P)]}
            # rotations by small angles; the same projective maps given by rescaled matrices
            for a in SMALL_ANGLES:
                yield {"n": n, "g": g, "kind": "rotation", "param": a, "probe": P[(i + 3) % len(P)]}
            for c in MATRIX_SCALES:
                for kind, param in std[:3] + [std[len(ANGLES) + (0 if q else 3)], ("rotation", SMALL_ANGLES[1])]:
                    yield {"n": n, "g": g, "kind": kind, "param": param, "probe": P[(i + 3) % len(P)], "scale": c}


# ------------------------------------------------------------------------------------------
# exact integer isometries (elements of O(n,1)(Z)) in several dtype packagings
# ------------------------------------------------------------------------------------------
INT_GENS = {2: [[[3, 2, 2], [2, 1, 2], [2, 2, 1]], [[1, 0, 0], [0, 0, 1], [0, 1, 0]], [[1, 0, 0], [0, -1, 0], [0, 0, 1]],
                [[1, 0, 0], [0, 0, -1], [0, 1, 0]]],
            3: [[[3, 2, 2, 0], [2, 1, 2, 0], [2, 2, 1, 0], [0, 0, 0, 1]], [[1, 0, 0, 0], [0, 0, 1, 0], [0, 0, 0, 1], [0, 1, 0, 0]],
                [[1, 0, 0, 0], [0, -1, 0, 0], [0, 0, 1, 0], [0, 0, 0, 1]], [[2, 1, 1, 1], [-1, 0, -1, -1], [-1, -1, 0, -1], [-1, -1, -1, 0]]]}
INT_DTYPES = ["int64", "int32", "list-int", "tuple-int"]   # float32 matrices: eigenvectors null only to 1e-7, beyond the library's absolute 1e-8 light-cone threshold - not demanded


def int_isometries(n, maxlen):
    """All distinct products of at most maxlen generators (row convention: x -> x M), with their type decided
    on the float copy: loxodromic = real eigenvalues lambda > 1.05 > 1/lambda, all others of modulus 1."""
    gens = [np.array(g, dtype=np.int64) for g in INT_GENS[n]]
    J = np.diag([-1] + [1] * n)
    for g in gens:
        assert np.array_equal(g @ J @ g.T, J), g
    seen, out, frontier = set(), [], [np.eye(n + 1, dtype=np.int64)]
    for _ in range(maxlen):
        nxt = []
        for M in frontier:
            for g in gens:
                P = M @ g
                k = P.tobytes()
                if k in seen or np.max(np.abs(P)) > 10 ** 6:
                    continue
                seen.add(k)
                nxt.append(P)
                w = np.linalg.eigvals(P.astype(float))
                big = [x for x in w if abs(x) > 1.05]
                small = [x for x in w if abs(x) < 1 / 1.05]
                if len(big) == 1 and len(small) == 1 and abs(big[0].imag) < 1e-9 and big[0].real > 0:
                    out.append(P.tolist())
        frontier = nxt
    return out


def case_fixed_integer(case):
    from geometry_tools import hyperbolic as H
    n, M, how = case["n"], np.array(case["M"], dtype=np.int64), case["dtype"]
    data = M.tolist() if how == "list-int" else (tuple(tuple(r) for r in M.tolist()) if how == "tuple-int" else M.astype(how))
    iso = H.Isometry(data)
    act = H.Isometry(M.astype(float))
    tag = "integer loxodromic %s of H^%d given as %s" % (M.tolist(), n, how)
    r = _fixed_checks(H, iso, act, n, "loxodromic", case["probe"], tag)
    for x in r["v"]:
        x["key"] = x["key"] + "/integer-isometry/" + ("float32" if how == "float32" else "integer-dtype")
    return r


def fixed_integer_cases(q):
    for n in (2, 3):
        mats = int_isometries(n, 3 if q else 4)
        for i, M in enumerate(mats):
            probe = [0.1 * ((i % 5) - 2), 0.15] + [0.05] * (n - 2)
            for how in INT_DTYPES:
                yield {"n": n, "M": M, "dtype": how, "probe": probe}


# ------------------------------------------------------------------------------------------
# composite isometries: fixed points of an array of isometries = fixed points of its units
# ------------------------------------------------------------------------------------------
def case_fixed_composite(case):
    from geometry_tools import hyperbolic as H
    n, items, shape = case["n"], case["items"], case["shape"]
    isos = [_conj(H, n, it["g"], _standard(H, n, it["kind"], it["param"])) for it in items]
    mats = np.array([np.asarray(i.proj_data, dtype=float) for i in isos])
    comp = H.Isometry(mats.reshape(tuple(shape) + (n + 1, n + 1)).copy())
    v, t = [], 2
    fp = np.asarray(comp.fixed_point().proj_data, dtype=float).reshape(len(items), n + 1)
    pair = np.asarray(comp.fixed_point_pair().proj_data, dtype=float).reshape(len(items), 2, n + 1)
    for i, (it, iso) in enumerate(zip(items, isos)):
        one = np.asarray(iso.fixed_point().proj_data, dtype=float)
        p1 = np.asarray(iso.fixed_point_pair().proj_data, dtype=float)
        t += 2
        kind = it["kind"]
        # only units whose single-object answer is itself sound are compared (the single-object
        # section decides those; F12 cases are excluded here, not re-reported)
        img = np.asarray((iso @ H.Point(one.copy())).proj_data, dtype=float)
        if not float(hyp.proj_sin_err(img, one)) <= 1e-6:
            continue
        e = float(hyp.proj_sin_err(fp[i], one))
        if not e <= 1e-6:
            v.append(_V("fixed_point/composite/%s" % kind, "Isometry array of shape %s, unit %d (%s %s conjugated by origin_to(%s)) in H^%d: fixed_point()[i] = %s, single isometry gives %s"
                        % (tuple(shape), i, kind, it["param"], _f(it["g"]), n, _f(fp[i]), _f(one))))
        if kind == "loxodromic":
            e2 = float(np.max(hyp.proj_sin_err(pair[i], p1)))
            if not e2 <= 1e-6:
                v.append(_V("fixed_point_pair/composite/loxodromic", "Isometry array of shape %s, unit %d in H^%d: fixed_point_pair()[i] = %s, single isometry gives %s"
                            % (tuple(shape), i, n, _f(pair[i]), _f(p1))))
    return {"v": v, "t": t, "o": "%d|%s|%d" % (n, tuple(shape), len(v)), "nt": len(items) > 1}


def fixed_composite_cases(q, seed):
    for n in (2, 3, 4):
        allc = list(c for c in fixed_cases(q, seed) if c["n"] == n and c["kind"] != "parabolic" and "scale" not in c)
        for (size, shape) in ((5, [5]), (6, [2, 3]), (1, [1])):
            blocks = [allc[i:i + size] for i in range(0, len(allc) - size + 1, size)]
            # interleave kinds so that eigen-orders differ inside one array
            for blk in blocks[::3 if q else 1]:
                yield {"n": n, "shape": shape, "items": [{"g": c["g"], "kind": c["kind"], "param": c["param"]} for c in blk]}
        # arrays that mix far-apart cases
        mixed = allc[::7]
        for i in range(0, len(mixed) - 4, 4):
            yield {"n": n, "shape": [4], "items": [{"g": c["g"], "kind": c["kind"], "param": c["param"]} for c in mixed[i:i + 4]]}


# ------------------------------------------------------------------------------------------
# histories: query, then move / re-set / rebuild / index the object, then query again
# ------------------------------------------------------------------------------------------
HIST_DEPTH = 3
DEEP = False          # set by run() in the parent process only


def _explicit_isometry(n):
    """A J-isometry written down without the library (row convention): rotation by 0.9 in the
    (x1,x2)-plane followed by the boost of rapidity 0.6 along x_n."""
    c, s = math.cos(0.9), math.sin(0.9)
    Rm = np.eye(n + 1)
    Rm[1, 1], Rm[1, 2], Rm[2, 1], Rm[2, 2] = c, s, -s, c
    ch, sh = math.cosh(0.6), math.sinh(0.6)
    B = np.eye(n + 1)
    B[0, 0], B[0, n], B[n, 0], B[n, n] = ch, sh, sh, ch
    return Rm @ B


def _make_wall(H, cls, ws, shape):
    """Fresh library object of class `cls` and composite shape `shape` for the walls with normals ws
    (flattened in C order)."""
    shape = tuple(shape)
    n1 = len(ws[0])
    if cls == "Hyperplane":
        if not shape:
            return H.Hyperplane(np.array(ws[0], dtype=float))
        return H.Hyperplane(np.array(ws, dtype=float).reshape(shape + (1, n1)))
    rows = np.array([wall_ideal_rows(w) for w in ws])
    rows = rows.reshape(shape + rows.shape[1:])
    if cls == "Subspace":
        return H.Subspace(rows.copy())
    r0, r1 = rows[..., 0, :], rows[..., 1, :]
    if cls == "Geodesic":
        return H.Geodesic(H.Point(r0.copy()), H.Point(r1.copy()))
    if cls == "Segment":       # between two interior points of the wall
        return H.Segment(H.Point(0.7 * r0 + 0.3 * r1), H.Point(0.2 * r0 + 0.8 * r1))
    raise ValueError(cls)


def _wall_ops(cls, shape, n):
    ops = [["refl"], ["read"], ["move", 0], ["move", 1], ["set"], ["rebuild"], ["flatten"]]
    if cls in ("Hyperplane", "Subspace") or n == 2:
        ops.append(["roundtrip"])
    if len(shape) >= 1:
        ops += [["index", i] for i in sorted({0, shape[0] - 1})]
        ops.append(["setitem", shape[0] - 1])
    return ops


def case_wall_history(hist):
    import warnings
    with warnings.catch_warnings(), np.errstate(all="ignore"):
        warnings.simplefilter("ignore")
        return _case_wall_history(hist)


def _case_wall_history(hist):
    """hist = [["root", {...}], op, op, ...]; the model state is (class, composite shape, expected normals)."""
    from geometry_tools import hyperbolic as H
    root = hist[0][1]
    n, cls, shape = root["n"], root["cls"], tuple(root["shape"])
    ws = [np.array(w, dtype=float) for w in root["normals"]]
    alts = [np.array(w, dtype=float) for w in root["alts"]]
    nalt = 0

    def take(count):
        nonlocal nalt
        out = [alts[(nalt + i) % len(alts)].copy() for i in range(count)]
        nalt += count
        return out

    obj = _make_wall(H, cls, ws, shape)
    t = 1
    G0 = H.Point(np.array(root["g"], dtype=float), model="klein").origin_to()
    M0 = np.array(G0.proj_data, dtype=float)
    J = hyp.J(n)
    if not float(np.max(np.abs(M0 @ J @ M0.T - J))) <= 1e-9 * (1.0 + float(np.max(np.abs(M0))) ** 2):
        return {"v": [], "t": t, "o": "origin_to is not an isometry (C02)", "nt": False, "key": None, "ops": []}
    M1 = _explicit_isometry(n)
    movers = [(G0, M0), (H.Isometry(M1.copy()), M1)]
    for op in hist[1:]:
        k = op[0]
        t += 1
        if k == "refl":
            obj.reflection_across()
        elif k == "read":
            obj.spacelike_complement()
            obj.ideal_basis
            obj.ideal_basis_coords()
            t += 2
        elif k == "move":
            g, M = movers[op[1]]
            obj = g @ obj
            ws = [w @ M for w in ws]
        elif k == "set":
            ws = take(len(ws))
            fresh = _make_wall(H, cls, ws, shape)
            if cls in ("Geodesic", "Segment"):
                e = np.asarray(fresh.proj_data, dtype=float)
                obj.set_endpoints(H.Point(e[..., 0, :].copy()), H.Point(e[..., 1, :].copy()))
            else:
                obj.set(np.array(fresh.proj_data, dtype=float))
        elif k == "rebuild":
            obj = getattr(H, cls)(obj)
        elif k == "flatten":
            obj = obj.flatten_to_unit()
            shape = (len(ws),)
        elif k == "roundtrip":
            R = obj.reflection_across()
            if cls in ("Geodesic", "Segment"):
                obj, cls = H.Geodesic.from_reflection(R), "Geodesic"
            else:
                obj, cls = H.Hyperplane.from_reflection(R), "Hyperplane"
            t += 1
        elif k == "index":
            per = len(ws) // shape[0]
            obj = obj[op[1]]
            ws = ws[op[1] * per:(op[1] + 1) * per]
            shape = shape[1:]
        elif k == "setitem":
            per = len(ws) // shape[0]
            new = take(per)
            obj[op[1]] = _make_wall(H, cls, new, shape[1:])
            ws = ws[:op[1] * per] + new + ws[(op[1] + 1) * per:]
        else:
            raise ValueError(k)
    names = " -> ".join([root["cls"] + str(list(root["shape"]))] + ["%s%s" % (o[0], o[1] if len(o) > 1 else "") for o in hist[1:]])
    tag = "H^%d %s" % (n, names)
    site = "history/%s" % root["cls"]
    v = []
    n1 = n + 1
    got_shape = tuple(np.shape(obj.proj_data))[:len(shape)] if obj.__class__.__name__ == cls else None
    R = obj.reflection_across()
    t += 1
    Ms = np.asarray(R.proj_data, dtype=float)
    if got_shape != shape or Ms.shape != shape + (n1, n1) or not _finite(Ms):
        v.append(_V("reflection/%s/shape-or-non-finite" % site, "%s: object %s with data of shape %r, reflection data of shape %r; expected %s of shape %r"
                    % (tag, obj.__class__.__name__, np.shape(obj.proj_data), Ms.shape, cls, shape)))
        return {"v": v, "t": t, "o": "shape", "nt": True, "key": None, "ops": []}
    Ms = Ms.reshape((len(ws), n1, n1))
    comp = np.asarray(obj.spacelike_complement().proj_data, dtype=float)
    t += 1
    comp = comp.reshape((len(ws), n1)) if comp.shape == shape + (n1,) else None
    pds = np.asarray(obj.proj_data, dtype=float).reshape((len(ws),) + np.shape(obj.proj_data)[len(shape):])
    seen = set()
    for i, w in enumerate(ws):
        w = w / math.sqrt(float(hyp.mink(w, w)))
        mtag = "%s, member %d: expected wall normal %s" % (tag, i, _f(w))
        vv = check_reflection(H, w, np.vstack([w[None, :], wall_ideal_rows(w)]), Ms[i], H.Isometry(Ms[i].copy()), mtag)
        t += 2
        if comp is None or not _finite(comp[i]) or not float(hyp.proj_sin_err(comp[i], w)) <= 1e-7:
            vv.append(_V("reflection/spacelike_complement", "%s: spacelike_complement() = %s" % (mtag, _f(comp[i]) if comp is not None else "wrong shape")))
        if cls == "Hyperplane":
            prob = wall_problem(pds[i], w, "hyperplane-data")
            if prob:
                vv.append(_V(prob[0], "%s: %s" % (mtag, prob[1])))
        for x in vv:
            x["key"] = x["key"].replace("reflection/", "reflection/%s/" % site, 1)
            if x["key"] not in seen:
                seen.add(x["key"])
                v.append(x)
    ops = [] if (v or len(hist) - 1 >= HIST_DEPTH) else _wall_ops(cls, shape, n)
    kinds = "+".join(sorted({o[0] for o in hist[1:]}))
    return {"v": v, "t": t, "o": "%d|%s|%s|%s" % (n, root["cls"], len(shape), kinds), "nt": len(hist) > 1,
            "key": repr(hist[1:]) + "@%s" % root["id"], "ops": ops}


def wall_history_roots(seed):
    roots = []
    for n in (2, 3, 4):
        gen = generic_normals(n, 12, seed)
        # walls that do not pass through the origin and are not axis-parallel: w0 != 0
        nice = [[0.5, 1.2, -0.4, 0.3, -0.7][:n + 1], [-0.4, -0.6, 1.1, 0.5, 0.2][:n + 1], [0.3, 0.2, -0.9, 1.3, 0.6][:n + 1],
                [-0.7, 1.0, 0.8, -0.5, 0.9][:n + 1]]
        ws = [w for w in nice + gen if float(hyp.mink(np.array(w), np.array(w))) > 0.2 and abs(w[0]) > 0.05]
        g = [float(x) for x in lattice.klein_points(n, 6, seed)[-2]]
        layouts = [("Hyperplane", []), ("Subspace", []), ("Hyperplane", [2]), ("Subspace", [2])]
        if n == 2:
            layouts += [("Geodesic", []), ("Segment", []), ("Geodesic", [2]), ("Segment", [2]), ("Hyperplane", [2, 2]), ("Geodesic", [2, 2])]
        for li, (cls, shape) in enumerate(layouts):
            cnt = int(np.prod(shape)) if shape else 1
            for start in ((0, 4) if not shape else (0,)):      # two wall sets for single objects, one for composites
                normals = [ws[(start + li + i) % len(ws)] for i in range(cnt)]
                alts = [w for w in ws if w not in normals]
                roots.append([["root", {"id": "%d-%s-%s-%d" % (n, cls, "x".join(map(str, shape)), start), "n": n, "cls": cls, "shape": shape,
                                        "normals": normals, "alts": alts, "g": g}]])
    return roots


def _iso_ops(kind):
    ops = [["fp"], ["square"], ["inv"], ["conj"], ["set"], ["rebuild"], ["premul"]]
    if kind == "loxodromic":
        ops.insert(1, ["pair"])
    return ops


ALT_PARAM = {"rotation": (0.4, 1.1), "loxodromic": (3.0, 1.8)}      # (commuting factor, replacement)


def case_iso_history(hist):
    """hist = [["root", {...}], op, ...]: an isometry h = F s F^-1 of known conjugacy type is queried for its
    fixed points, then squared / inverted / conjugated / multiplied by a commuting element / re-set / rebuilt,
    then queried again: the answers must be fixed points of the CURRENT isometry."""
    from geometry_tools import hyperbolic as H
    root = hist[0][1]
    n, kind = root["n"], root["kind"]
    F = H.Point(np.array(root["g"], dtype=float), model="klein").origin_to()
    F2 = H.Point(np.array(root["g2"], dtype=float), model="klein").origin_to()
    K = H.Isometry(_explicit_isometry(n))
    h = F @ _standard(H, n, kind, root["param"]) @ F.inv()
    t = 4
    for op in hist[1:]:
        k = op[0]
        t += 1
        if k == "fp":
            h.fixed_point()
        elif k == "pair":
            h.fixed_point_pair()
            h.axis()
        elif k == "square":
            h = h @ h
        elif k == "inv":
            h = h.inv()
        elif k == "conj":
            h = K @ h @ K.inv()
            F = K @ F
        elif k == "premul":     # c commutes with h (same centre / same axis): c @ h has the same type
            c = F @ _standard(H, n, kind, ALT_PARAM[kind][0]) @ F.inv()
            h = c @ h
        elif k == "set":
            other = F2 @ _standard(H, n, kind, ALT_PARAM[kind][1]) @ F2.inv()
            h.set(np.array(other.proj_data, dtype=float))
            F = F2
        elif k == "rebuild":
            h = H.Isometry(h)
        else:
            raise ValueError(k)
    M = np.array(h.proj_data, dtype=float)
    names = " -> ".join(["%s(%s)" % (kind, root["param"])] + [o[0] for o in hist[1:]])
    tag = "H^%d history %s (conjugated by origin_to(%s)); current matrix %s" % (n, names, _f(root["g"]), _f(M))
    if M.shape != (n + 1, n + 1) or not _finite(M):
        return {"v": [_V("fixed_point/history/matrix", "%s: not a finite matrix" % tag)], "t": t, "o": "matrix", "nt": True, "key": None, "ops": []}
    r = _fixed_checks(H, h, H.Isometry(M.copy()), n, kind, root["probe"], tag)
    for x in r["v"]:
        x["key"] = "history/" + x["key"]
    # (a violation of the option clauses alone does not stop the exploration: it says nothing about the state)
    stop = [x for x in r["v"] if "unsorted-option" not in x["key"]]
    ops = [] if (stop or len(hist) - 1 >= HIST_DEPTH) else _iso_ops(kind)
    kinds = "+".join(sorted({o[0] for o in hist[1:]}))
    return {"v": r["v"], "t": t + r["t"], "o": "%d|%s|%s" % (n, kind, kinds), "nt": len(hist) > 1,
            "key": repr(hist[1:]) + "@%s" % root["id"], "ops": ops}


def iso_history_roots(seed):
    roots = []
    for n in (2, 3, 4):
        P = [list(map(float, p)) for p in lattice.klein_points(n, 6, seed)]
        for kind, param in (("rotation", 0.7), ("rotation", 2.0), ("loxodromic", 1.3), ("loxodromic", 0.5)):
            roots.append([["root", {"id": "%d-%s-%s" % (n, kind, param), "n": n, "kind": kind, "param": param,
                                    "g": P[-1], "g2": P[-3], "probe": P[-4]}]])
    return roots


def _tri(p, q, r):
    return [[1, p, r], [p, 1, q], [r, q, 1]]


def _lin4(a, b, c):
    return [[1, a, 2, 2], [a, 1, b, 2], [2, b, 1, c], [2, 2, c, 1]]


COX_CONJ = 4         # conjugates of the generators by the first 4 powers of the Coxeter element


def coxeter_cases(q):
    tri = [(2, 3, 7), (2, 4, 5), (3, 3, 4), (2, 3, 8), (3, 4, 5), (4, 4, 4), (2, 5, 5)]
    if not q:
        tri = sorted({tuple(sorted(t)) for t in itertools.product(range(2, 9), repeat=3)
                      if 1.0 / t[0] + 1.0 / t[1] + 1.0 / t[2] < 1.0 - 1e-9})
    for t in tri:
        for perm in sorted(set(itertools.permutations(t))) if q else [t]:
            yield {"matrix": _tri(*perm), "conj": COX_CONJ}
    # the compact hyperbolic simplex groups of rank 4 with a linear diagram
    for abc in [(3, 5, 3), (5, 3, 4), (4, 3, 5), (5, 3, 5)]:
        yield {"matrix": _lin4(*abc), "conj": COX_CONJ}


def run(ctx):
    # the full exploration takes ~6 s on 16 cores, so the quick tier runs the thorough bounds as well
    q, seed = False, ctx.seed
    global DEEP
    DEEP = not ctx.quick          # thorough tier: more generic normals and conjugating points
    only = getattr(ctx, "only", None)

    def want(name):
        return not only or any(name.startswith(p) for p in only)

    ctx.assume("histories: walls have generic normals with |w0| > 0.05 and Minkowski norm > 0.2; movers are origin_to(lattice point) (its matrix is "
               "read from the library and must be a J-isometry, property C02) and an explicitly written rotation*boost; an object is only ever "
               "modified through the public API (set, set_endpoints, item assignment, g @ obj, flatten_to_unit, copy constructor)")
    ctx.assume("isometry histories keep the conjugacy type known: squares, inverses, conjugates, products with an element sharing the centre / axis "
               "(angles and multipliers chosen so that no history reaches the identity)")
    ctx.rule = ("engine E (histories): all op sequences of length <= %d, no merging; " % HIST_DEPTH +
                "engine P: every spacelike lattice normal (and generic ones) x layout; every (lattice point, standard isometry) "
                "conjugate; every generator of the listed Coxeter groups; a case is non-trivial unless the isometry is the identity")
    ctx.assume("normals are spacelike: lambda * w with w of Minkowski norm > 0.2 (lattice coordinates are floats) and lambda = 1 or, for a sub-lattice, "
               "lambda in %s (a normal is a homogeneous vector; being spacelike does not depend on its scale)" % NORMAL_SCALES)
    ctx.assume("far walls: unit normals (sinh D, cosh D d), D in %s (reflection matrices of norm cosh 2D <= 6e5); non-reflections are conjugated by "
               "isometries moving the origin by at most 5 (beyond that the eigenvalues of a matrix of norm e^2D no longer separate a rotation from a reflection)" % FAR_DISTANCES)
    ctx.assume("reflection batches: the members of an array are judged one by one - the array is rejected iff one member, taken alone, is a non-reflection "
               "(members: the reflections and non-reflections of the single-object sections, which decide them alone; non-reflections conjugated by |k| <= 0.9)")
    ctx.assume("a bare ndarray handed to from_reflection means Isometry(ndarray) (a matrix acting on row vectors, like every other array in the library)")
    ctx.assume("rescaled matrices c * A, c in %s, are the same isometry (projective map, property C12); rotation angles >= 1e-7" % MATRIX_SCALES)
    ctx.assume("from_reflection: Isometry(c * M), c in %s, is the isometry of M: the wall of a rescaled reflection comes back, a rescaled non-reflection is rejected" % REFLECTION_MATRIX_SCALES)
    ctx.assume("max_eigval=False / sort_eigvals=False: only a fixed point in the closed ball / the two ideal endpoints of a loxodromic's axis in any order are demanded")
    ctx.assume("composite normals use the layout (N, 1, n+1) that Hyperplane accepts; (N, n+1) is outside the property")
    ctx.assume("conjugating isometries are origin_to() of lattice points with |k| <= %s; translation multipliers in %s"
               % ("0.9" if q else "0.97", "{1.3, 2, 5, 0.5}" if q else "{1.3, 2, 5, 0.5, 1.5, 3, 0.25}"))
    ctx.assume("'projectively fixed' = sine of the angle between a vector and its image <= 1e-6 (1e-3 for the parabolic, whose "
               "triple eigenvalue is resolved only to eps^(1/3) by any eigen-solver)")
    ctx.assume("Coxeter generators are checked only when they are reflections of the Minkowski form to 1e-8 (that is property C08)")
    ctx.tolerances["reflection identities"] = "1e-9 (1 + max|R|^2): products of well-conditioned matrices"
    ctx.tolerances["from_reflection"] = "1e-7 (sine of angles): eigenvector of a simple eigenvalue -1 of a non-normal matrix"
    ctx.tolerances["fixed subspace of a rotation"] = "fixed_point() pulled back by the conjugator has relative size <= 1e-6 in the rotating coordinate plane (|conjugator| <= 8; measured 1e-12)"
    ctx.tolerances["fixed points"] = "1e-6 sine of the angle with the image / relative Minkowski norm; parabolic 1e-3"
    ctx.tolerances["attracting end"] = "60 iterations contract by (1/lambda^2)^60 <= 2e-14; compared at 1e-6"
    for n in (2, 3, 4):
        name = "reflections-H%d" % n
        if not want(name):
            continue
        values = LATTICE5 if (n <= 3 or not q) else LATTICE3
        cases = list(reflection_cases(n, values, 6 if q else 24, seed))
        ctx.product(name, "checks.c15:case_reflection", cases, chunk=32,
                    domains={"lattice": values, "spacelike normals": len(lattice_normals(n, values)), "generic normals": 6 if q else 24,
                             "layouts": ["(n+1,)", "(2,1,n+1)"],
                             "far walls": "unit normals (sinh D, cosh D d), D in %s, d in {e_1, -e_n, diagonal, 2 generic}; single, rescaled by -0.01, composite with a near and with another far wall" % FAR_DISTANCES,
                             "from_reflection argument": ["Isometry", "ndarray (= Isometry(ndarray))",
                                                          "Isometry(c * matrix), c round-robin over %s (composites: one c per member)" % REFLECTION_MATRIX_SCALES],
                             "scaled normals": "every %d-th normal of the list multiplied by each of %s (single; composites pairing two scales and a "
                                               "scaled with an unscaled normal): same wall, same closed-form reflection" % (SCALED_STRIDE[n], NORMAL_SCALES)})
    if want("reflections-ideal-basis"):
        ctx.product("reflections-ideal-basis", "checks.c15:case_reflection_ideal", list(reflection_ideal_cases(q, seed)), chunk=32,
                    domains={"walls": "the same normals; the wall is handed over as n ideal points (oracle: Klein flat w.x = w0)",
                             "constructors": ["Subspace", "Geodesic (n=2)", "Segment (n=2)"]})
    if want("non-reflections"):
        ctx.product("non-reflections", "checks.c15:case_nonreflection", list(nonreflection_cases(q, seed)), chunk=32,
                    domains={"n": [2, 3, 4], "angles": ANGLES, "multipliers": LOX, "kinds": ["identity", "rotation", "loxodromic", "parabolic(n=2)", "rotoreflection(n>=3)", "glide"],
                             "near-reflections": "glide(1.001), rotoreflection(1e-3)", "far conjugators": "3 generic directions at distance 3 and 5 (keys .../far-conjugate)",
                             "matrix scales": "1 and each of %s (far conjugators: 1 and one of them, round-robin); keys .../rescaled-matrix" % REFLECTION_MATRIX_SCALES})
    if want("reflection-batches"):
        ctx.product("reflection-batches", "checks.c15:case_reflection_batch", list(reflection_batch_cases(seed)), chunk=32,
                    domains={"n": [2, 3, 4], "array shapes": [[1], [2], [3], [2, 2], [1, 3]],
                             "members": "reflections across near walls (lattice %s + 6 generic normals), across far walls (distance %s, 5 directions), and at most one "
                                        "non-reflection: every kind of section non-reflections (incl. glide(1.001), rotoreflection(1e-3)) conjugated by origin_to of 3 lattice points"
                                        % (LATTICE3, FAR_DISTANCES),
                             "position of the non-reflection": "first, middle, last (before / after / between near and far reflections)",
                             "matrix scales": "every second case: member i given by c * matrix, c round-robin over %s" % BATCH_SCALES,
                             "argument": ["Isometry(array)", "bare ndarray"],
                             "demanded": "an array containing a non-reflection is rejected (GeometryError) whatever its neighbours; an array of reflections "
                                         "(controls) gives back every wall, member by member"})
    if want("coxeter-reflections"):
        ctx.product("coxeter-reflections", "checks.c15:case_coxeter", list(coxeter_cases(q)), chunk=2,
                    domains={"triangle groups": "quick: 7 triples, all orders; thorough: all hyperbolic (p,q,r) with entries <= 8", "rank 4": "linear diagrams [3,5,3] [5,3,4] [4,3,5] [5,3,5]",
                             "reflections": "the generators and their conjugates by the first %d powers of the Coxeter element while |matrix| <= 1e6" % COX_CONJ})
    if want("wall-histories"):
        roots = wall_history_roots(seed)
        ctx.bfs("wall-histories", "checks.c15:case_wall_history", roots, depth=HIST_DEPTH, chunk=32,
                domains={"roots": "Hyperplane(normal) / Subspace(ideal points) single and (2,) in H^2..H^4; Geodesic / Segment single, (2,), "
                                  "Hyperplane and Geodesic (2,2) in H^2; two wall sets for single objects, one for composites (%d roots)" % len(roots),
                         "ops": ["refl: reflection_across()", "read: spacelike_complement(), ideal_basis, ideal_basis_coords()",
                                 "move 0: origin_to(lattice point) @ obj", "move 1: Isometry(explicit rotation*boost) @ obj",
                                 "set: obj.set(data of other walls) / set_endpoints", "rebuild: Class(obj)", "flatten: flatten_to_unit()",
                                 "roundtrip: from_reflection(reflection_across())", "index: obj[i]", "setitem: obj[i] = other wall"],
                         "depth": HIST_DEPTH, "merging": "none (every op sequence is executed: the hidden state depends on the order of queries)",
                         "invariant after every history": "reflection_across() of the CURRENT object is the reflection in the model's (moved / replaced) "
                                                          "normal, member by member; spacelike_complement() is that normal"})
    if want("isometry-histories"):
        roots = iso_history_roots(seed)
        ctx.bfs("isometry-histories", "checks.c15:case_iso_history", roots, depth=HIST_DEPTH, chunk=16,
                domains={"roots": "conjugates of rotation(0.7), rotation(2.0), loxodromic(1.3), loxodromic(0.5) in H^2..H^4",
                         "ops": ["fp: fixed_point()", "pair: fixed_point_pair(), axis() (loxodromic)", "square: h @ h", "inv: h.inv()",
                                 "conj: K @ h @ K.inv()", "premul: c @ h for a commuting c of the same type", "set: h.set(matrix of another isometry of the type)",
                                 "rebuild: Isometry(h)"],
                         "depth": HIST_DEPTH, "merging": "none",
                         "invariant after every history": "the fixed-point clauses of section fixed-points for the CURRENT matrix"})
    if want("fixed-points"):
        ctx.product("fixed-points-composite", "checks.c15:case_fixed_composite", list(fixed_composite_cases(q, seed)), chunk=4,
                    domains={"n": [2, 3, 4], "shapes": [[5], [2, 3], [1], [4]], "units": "consecutive and strided blocks of the fixed-points cases",
                             "oracle": "the single-isometry answer (decided by section fixed-points)"})
        ic = list(fixed_integer_cases(ctx.quick))
        ctx.product("fixed-points-integer-isometries", "checks.c15:case_fixed_integer", ic, chunk=8,
                    domains={"n": [2, 3], "isometries": "all loxodromic products of <= %d generators of a subgroup of O(n,1)(Z) (%d matrices)" % (3 if ctx.quick else 4, len(ic) // len(INT_DTYPES)),
                             "generators": INT_GENS, "packagings": INT_DTYPES,
                             "oracle": "the fixed-point clauses of section fixed-points, acting with the float64 copy of the matrix"})
        ctx.product("fixed-points", "checks.c15:case_fixed", list(fixed_cases(q, seed)), chunk=16,
                    domains={"n": [2, 3, 4], "conjugators": "origin_to of P_n", "angles": ANGLES + SMALL_ANGLES, "multipliers": LOX, "parabolic": "sl2_iso([[1,1],[0,1]]) (n=2)",
                             "matrix scales": "1, and %s for rotation(0.7, 2.0, pi, 1e-5) and loxodromic(1.3)" % MATRIX_SCALES,
                             "options": "defaults, and max_eigval=False / sort_eigvals=False (also in the integer-isometry and history sections)"})
