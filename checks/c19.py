"""C19 - what is drawn is the object.

Engine P, one fresh matplotlib figure per execution (= per case; the calls of a case are made one
at a time into that figure and the artist added by each call is located by diffing the artists of
all open axes before/after the call).  Oracles: mc/oracle/svgpath.py (de Casteljau evaluation of
Path codes), mc/oracle/drawgeom.py (circle carrying a geodesic, line distance, horocycles),
mc/oracle/hyp.py (chart maps and closed-form metrics).
"""
import itertools
import math
import os

import numpy as np

from mc import lattice
from mc.oracle import drawgeom as dg
from mc.oracle import hyp, svgpath

MODELS = ["poincare", "halfspace", "klein"]
CONFORMAL = ["poincare", "halfspace"]

# drawing transforms: 3x3 matrices acting on column vectors (1, klein) of R^(2,1)
TFS = {
    "id": None,
    "rot": dg.rot(0.7),
    "lox": dg.rot(2.2) @ dg.boost(0.5) @ dg.rot(-1.1),     # loxodromic, axis not through the origin's axes
}
# projective drawing transforms (column-vector matrices of GL(3,R))
_NONAFF = np.array([[1.0, 0.0, 1.0], [4.0, 1.0, 4.0], [-2.0, 0.0, 2.0]])
PTFS = {
    "id": None,
    "diag": np.diag([1.8, 1.0, 1.0 / 1.8]),
    "conj": _NONAFF @ np.diag([1.8, 1.0, 1.0 / 1.8]) @ np.linalg.inv(_NONAFF),
    "halfturn": np.diag([-1.0, 1.0, 1.0]),                 # negative determinant; positive representatives become negative in chart 0
    "negconj": -(_NONAFF @ np.diag([1.8, 1.0, 1.0 / 1.8]) @ np.linalg.inv(_NONAFF)),     # the same map as conj, negative scalar multiple
}
# transform histories (sections history-*): a drawing's transform reached through the constructor, set_transform,
# add_transform and precompose_transform; the hyperbolic pair (rot, lox) and the projective pair (shear, diag) do
# not commute.  PSHEAR = I + N, N of rank one with N^2 = 0 (a transvection: x0 += 0.7 x1, x2 += 0.4 x1).
PSHEAR = np.array([[1.0, 0.7, 0.0], [0.0, 1.0, 0.0], [0.0, 0.4, 1.0]])
PTF_ALL = dict(PTFS, shear=PSHEAR)
HIST_OPS = ["ctor", "set", "add", "pre"]
HIST_PAIRS = {"hyperbolic": ["rot", "lox"], "projective": ["shear", "diag"]}
# ProjectiveDrawing.draw_polygon(assume_affine=False) decides with Polygon.in_standard_chart, i.e. in chart 0,
# whatever the drawing's chart_index is, which polygons it may draw as they are.  While True, a polygon drawn
# with assume_affine=False is demanded only if it lies inside chart 0 AND inside the drawing's chart.
# (C19_STRICT_CHARTS=1 in the environment lifts the restriction: see the finding C19-nonaffine-chart-index.)
NONAFF_CHART0_ONLY = False     # the library honours chart_index since the fix "assume_affine=False honours the drawing's chart_index"

BEZ = 5e-4          # matplotlib's cubic Bezier approximation of a circular arc: <= 5e-4 * radius
BAND = 1e-4         # relative band around RADIUS_THRESHOLD in which either drawing is accepted
VIEW_X = 7.0        # half-plane: |x| bound of finite vertices (inside the off-screen bounds +-7.2)
MIN_SEP = 0.05      # smallest Klein distance between two lattice points
DIAG = None         # debugging aid: set to a list to collect (kind, model, radius, observed, tolerance)


def tol_pt(v):
    """Directly computed coordinates (well conditioned): 1e-9 (1 + |v|)."""
    return 1e-9 * (1.0 + float(np.max(np.abs(v))))


def tol_arc(r):
    """Positions obtained through circle parameters (centre + r (cos, sin)): sqrt-eps class of
    DESIGN 4, 1e-6 (1 + r)^2."""
    return 1e-6 * (1.0 + r) ** 2


def tol_ideal(v):
    return 1e-6 * (1.0 + float(np.max(np.abs(v)))) ** 2


def V(key, msg):
    return {"key": key, "msg": msg}


def fmt(x):
    return np.array2string(np.asarray(x, dtype=float), precision=6, separator=",").replace("\n", "")


# ------------------------------------------------------------------------------------------
# library glue (imports inside functions: a case builds fresh objects)
# ------------------------------------------------------------------------------------------
# every way hyperbolic.Model documents of naming a drawable model: the member NAMES (aliases included) as enum members
# and as strings in any letter case ("can be compared to strings ... match any alias name (case insensitive)")
MODEL_ALIASES = {"poincare": ["POINCARE"], "klein": ["KLEIN", "KLEINIAN", "AFFINE"], "halfspace": ["HALFSPACE", "HALFPLANE"]}
NAME_FORMS = ["enum", "upper", "lower", "capitalized", "mixed"]


def lib_model(model, mname=None):
    """What is handed to HyperbolicDrawing(model=...): Model.<canonical member> or, with mname = [alias, form], that
    alias of `model` as an enum member / a string in the given letter case."""
    from geometry_tools.hyperbolic import Model
    canonical = {"poincare": Model.POINCARE, "halfspace": Model.HALFSPACE, "klein": Model.KLEIN}[model]
    if mname is None:
        return canonical
    alias, form = mname
    if alias not in MODEL_ALIASES[model]:
        raise AssertionError("HARNESS: %s is not a name of the %s model" % (alias, model))
    if form == "enum":
        return getattr(Model, alias)
    return {"upper": alias, "lower": alias.lower(), "capitalized": alias.capitalize(), "mixed": alias.capitalize().swapcase()}[form]


def lib_transform(space, name):
    """A fresh library transformation for the entry `name` of TFS / PTF_ALL (None for the identity entry)."""
    from geometry_tools import hyperbolic, projective
    M = (TFS if space == "hyperbolic" else PTF_ALL)[name]
    if M is None:
        return None
    cls = hyperbolic.Isometry if space == "hyperbolic" else projective.Transformation
    return cls(np.array(M, dtype=float), column_vectors=True)


def apply_history(space, make, hist):
    """make(transform) builds the drawing; hist = [[op, transform name], ...], op in HIST_OPS ('ctor' only first):
    the constructor's transform= argument, set_transform, add_transform, precompose_transform, in this order."""
    hist = [list(h) for h in hist]
    if hist and hist[0][0] == "ctor":
        t = lib_transform(space, hist[0][1])
        d = make(t)
        _scribble(t)
        hist = hist[1:]
    else:
        d = make(None)
    for op, name in hist:
        t = lib_transform(space, name)
        {"set": d.set_transform, "add": d.add_transform, "pre": d.precompose_transform}[op](t)
        _scribble(t)
    return d


def _scribble(t):
    """The caller goes on using his transformation object after handing it to the drawing (which converts it with
    astype): overwrite its matrix in place with another valid isometry; the drawing must not follow."""
    if t is not None:
        c, s_ = np.cos(1.0), np.sin(1.0)
        np.asarray(t.proj_data)[...] = np.array([[1.0, 0.0, 0.0], [0.0, c, s_], [0.0, -s_, c]])


def hist_matrix(space, hist):
    """Oracle: the column-vector matrix of the drawing's transform after the history.  ctor / set_transform(T): M = T;
    add_transform(T): M = T M (T is applied to what the drawing already did: objects at T(M x));
    precompose_transform(T): M = M T (T is applied first: objects at M(T x))."""
    table = TFS if space == "hyperbolic" else PTF_ALL
    M = np.eye(3)
    for op, name in hist:
        T = np.asarray(table[name], dtype=float)
        if op in ("ctor", "set"):
            M = T
        elif op == "add":
            M = T @ M
        elif op == "pre":
            M = M @ T
        else:
            raise ValueError(op)
    return M


def hist_label(hist):
    return ">".join("%s:%s" % (op, name) for op, name in hist) or "none"


def reported_transform_violations(space, d, M):
    """drawing.transform, as the library reports it, is the documented composition (compared as projective maps:
    both matrices scaled to Frobenius norm 1, sign of the larger-modulus entry aligned)."""
    try:
        R = np.asarray(d.transform.matrix, dtype=float).T           # the library stores row-vector matrices
        R = R.reshape(3, 3)
    except Exception as e:                                           # pragma: no cover - harness reading an attribute
        return [V("history/transform-attribute/unreadable", "drawing.transform.matrix: %r" % (e,))]
    A, B = R / np.linalg.norm(R), M / np.linalg.norm(M)
    i = int(np.argmax(np.abs(B)))
    if A.ravel()[i] * B.ravel()[i] < 0:
        A = -A
    if float(np.max(np.abs(A - B))) > 1e-9:
        return [V("history/transform-attribute/" + space, "drawing.transform is %s, the history composes to %s" % (fmt(R), fmt(M)))]
    return []


def _decoy_axes(plt):
    """A second figure created after the drawing: pyplot's "current axes" are now NOT the drawing's, as in any
    program that works with two drawings; everything must still land on drawing.ax (the checks read drawing.ax only)."""
    plt.figure(figsize=(1, 1)).add_subplot()


def new_drawing(model, tf, hist=None, mname=None):
    import matplotlib.pyplot as plt
    from geometry_tools import drawtools
    plt.close("all")

    def make(t):
        return drawtools.HyperbolicDrawing(model=lib_model(model, mname), transform=t)
    if hist is not None:
        d = apply_history("hyperbolic", make, hist)
    else:
        t = lib_transform("hyperbolic", tf)
        d = make(t)
        _scribble(t)
    _decoy_axes(plt)
    return d


def new_proj_drawing(chart, tf, hist=None):
    import matplotlib.pyplot as plt
    from geometry_tools import drawtools
    plt.close("all")

    def make(t):
        return drawtools.ProjectiveDrawing(chart_index=chart, transform=t)
    if hist is not None:
        d = apply_history("projective", make, hist)
    else:
        t = lib_transform("projective", tf)
        d = make(t)
        _scribble(t)
    _decoy_axes(plt)
    return d


def hist_tag(case, lab, v):
    """Findings of a case with a transform history: key and message say so."""
    if case.get("hist") is not None:
        for x in v:
            if not x["key"].startswith("history/"):
                x["key"] = "history/" + x["key"]
            x["msg"] = "transform history %s: %s" % (lab, x["msg"])
    return v


def drawing_of(space, where, case):
    """(drawing, tf, label, violations): tf is what `transformed` / `ptransformed` take - the name of the case's
    constructor transform or, for a case with a transform history, the oracle matrix of the history."""
    hist = case.get("hist")
    new = new_drawing if space == "hyperbolic" else new_proj_drawing
    kw = {"mname": case["mname"]} if (space == "hyperbolic" and case.get("mname") is not None) else {}
    if hist is None:
        return new(where, case["tf"], **kw), case["tf"], case["tf"], []
    d = new(where, None, hist, **kw)
    M = hist_matrix(space, hist)
    return d, M.tolist(), hist_label(hist), reported_transform_violations(space, d, M)


def close_all():
    import matplotlib.pyplot as plt
    plt.close("all")


def pre_query(obj):
    """The caller may have asked the object anything before drawing it: what is drawn must not depend on that
    (e.g. a memoised circle/sphere parameter surviving the drawing's own transformation of the object)."""
    import warnings
    with warnings.catch_warnings(), np.errstate(all="ignore"):
        warnings.simplefilter("ignore")
        for name, kw in (("circle_parameters", {}), ("circle_parameters", {"model": "halfspace"}),
                         ("sphere_parameters", {}), ("sphere_parameters", {"model": "halfspace"}),
                         ("ideal_endpoint_coords", {}), ("get_edges", {}), ("coords", {"model": "poincare"})):
            f = getattr(obj, name, None)
            if f is None:
                continue
            try:
                f(**kw)
            except Exception:
                pass              # a query that is not defined for this object is not this check's business
    return obj


def kpoint(k):
    from geometry_tools import hyperbolic
    return hyperbolic.Point(np.array(k, dtype=float), model="klein")


def threshold():
    from geometry_tools import drawtools
    return float(drawtools.RADIUS_THRESHOLD)


def all_artists():
    """(artist, axes) for the patches, collections and lines of all axes of all open figures."""
    from matplotlib import _pylab_helpers
    out = []
    for m in _pylab_helpers.Gcf.get_all_fig_managers():
        for ax in m.canvas.figure.axes:
            for a in list(ax.patches) + list(ax.collections) + list(ax.lines):
                out.append((a, ax))
    return out


def new_artists(before):
    old = {id(a) for a, _ in before}
    return [(a, ax) for a, ax in all_artists() if id(a) not in old]


def located(new, d, want, site):
    """The new artists of one call: all on the drawing's axes, `want` of them."""
    out = []
    if any(ax is not d.ax for _, ax in new):
        out.append(V("artist/%s/not-on-drawing-axes" % site, "a new artist appeared on axes other than drawing.ax"))
    if len(new) != want:
        out.append(V("artist/%s/count" % site, "call added %d artists (%s), expected %d" % (
            len(new), ",".join(type(a).__name__ for a, _ in new), want)))
    return out


def to_data(artist, ax, pts, transform=None):
    """Coordinates in the data space of ax of points given in the artist's own coordinates."""
    tr = artist.get_transform() if transform is None else transform
    pts = np.asarray(pts, dtype=float).reshape(-1, 2)
    if tr == ax.transData:
        return pts
    return ax.transData.inverted().transform(tr.transform(pts))


def data_path(artist, ax, path=None):
    p = artist.get_path() if path is None else path
    return to_data(artist, ax, p.vertices), (None if p.codes is None else np.array(p.codes))


def transformed(tf, K):
    M = TFS[tf] if isinstance(tf, str) else np.asarray(tf, dtype=float)
    K = np.asarray(K, dtype=float)
    return K if M is None else dg.apply_klein(M, K)


# ------------------------------------------------------------------------------------------
# polygon paths
# ------------------------------------------------------------------------------------------
def polyline_check(Vs, verts, codes, site, tol):
    """Klein / projective polygon: straight pieces through the vertices Vs in order, closed."""
    out = []
    try:
        pcs = svgpath.pieces(verts, codes)
    except svgpath.PathError as e:
        return [V("%s/path-malformed" % site, str(e))]
    if not pcs or pcs[0].kind != "M" or sum(p.kind == "M" for p in pcs) != 1:
        return [V("%s/codes" % site, "codes %s: not exactly one leading MOVETO" % svgpath.code_summary(codes))]
    if any(p.kind not in ("M", "L", "Z") for p in pcs):
        return [V("%s/codes" % site, "codes %s: curved piece in a straight polygon" % svgpath.code_summary(codes))]
    corners = [pcs[0].end]
    for p in pcs[1:]:
        if np.linalg.norm(p.end - corners[-1]) > tol:
            corners.append(p.end)
    k = len(Vs)
    want = [Vs[i % k] for i in range(k + 1)]
    if len(corners) != k + 1 or any(np.linalg.norm(c - w) > tol for c, w in zip(corners, want)):
        out.append(V("%s/vertices" % site, "drawn corners %s, oracle (closed) %s" % (fmt(corners), fmt(want))))
    return out


def short_edge_allowance(model, a, b, c, r):
    """Euclidean allowance for positions on the drawn circle of the edge between the Klein points a, b at distance d:
    the library reaches the circle through the edge's ideal end points, whose Klein norm is 1 only up to ~eps/d^2.
    Poincare disc: 1e-8/d.  Half-plane: the chart turns that defect into a height sqrt(2 eps)/d * (1 + X^2)/2 of the
    'ideal' point at abscissa X, which moves the circle by as much: 4e-8/d * (1 + X^2), X = |centre| + r the larger
    ideal abscissa (measured on the thin-polygon alphabet: at most 0.83e-8/d * (1 + X^2), proportional to it)."""
    d = float(np.linalg.norm(np.asarray(b, dtype=float) - np.asarray(a, dtype=float)))
    if model == "halfspace":
        X = abs(float(c[0])) + r
        return 4e-8 / d * (1.0 + X * X)
    return 1e-8 / d


def edge_table(model, Kt, thr, thin=False):
    """thin: add short_edge_allowance to the position tolerance of every edge drawn as an arc (thin polygons)."""
    k = len(Kt)
    Vs = dg.model_coords(model, Kt)
    edges = []
    for e in range(k):
        a, b = Kt[e], Kt[(e + 1) % k]
        c, r = dg.geodesic_circle(model, a, b)
        if r > thr * (1.0 + BAND):
            cls = "S"
        elif r < thr * (1.0 - BAND):
            cls = "A"
        else:
            cls = "E"
        A, B = Vs[e], Vs[(e + 1) % k]
        # chord_allow: how far a point of the straight substitute may be from the chord, and its last point from the
        # vertex B (both vertices are finite points of the view: the substitute starts and ends at the two vertices;
        # a vertical segment through the first end point that stops |x_B - x_A| short of B is not accepted)
        chord_allow = tol_pt(np.concatenate([A, B]))
        if cls == "S":
            tv = tol_pt(np.concatenate([A, B]))
            allow = chord_allow
        else:
            tv = tol_arc(r) + (short_edge_allowance(model, a, b, c, r) if thin else 0.0)
            allow = tv
            chord_allow = chord_allow + tv
        edges.append({"A": A, "B": B, "c": c, "r": r, "cls": cls, "tv": tv, "allow": allow, "chord_allow": chord_allow})
    return Vs, edges


def bezier_allowance(p, ed):
    """Euclidean allowance for the points of one drawn piece on an arc of radius r: a cubic piece
    spanning the angle theta (seen from the oracle centre) may deviate by BEZ r (theta / 45deg)^6
    (sixth-order accuracy of the cubic arc approximation, anchored at matplotlib's largest piece);
    a straight piece is not an approximation of the arc at all: no allowance."""
    if p.kind in ("L", "Z"):
        return 0.0
    u, w = p.start - ed["c"], p.end - ed["c"]
    theta = abs(math.atan2(u[0] * w[1] - u[1] * w[0], float(u @ w)))
    return BEZ * ed["r"] * min((theta / (0.25 * math.pi)) ** 6, 64.0)


def arc_path_check(model, Kt, verts, codes, thr, site, thin=False):
    """Poincare / half-plane polygon path against the oracle edges.  Returns (violations, summary)."""
    out = []
    k = len(Kt)
    Vs, edges = edge_table(model, Kt, thr, thin)
    summ = "".join(ed["cls"] for ed in edges)
    try:
        pcs = svgpath.pieces(verts, codes)
    except svgpath.PathError as e:
        return [V("%s/path-malformed" % site, str(e))], summ
    kinds = [p.kind for p in pcs]
    cs = svgpath.code_summary(codes)
    if not pcs or kinds[0] != "M" or kinds.count("M") != 1:
        return [V("%s/codes" % site, "codes %s: not exactly one leading MOVETO" % cs)], summ
    body = kinds[1:-1] if kinds[-1] == "Z" else kinds[1:]
    if any(kd not in ("L", "C4") for kd in body):
        out.append(V("%s/codes" % site, "codes %s: only LINETO/CURVE4 (+ final CLOSEPOLY) may follow the MOVETO" % cs))
    if np.linalg.norm(pcs[0].end - Vs[0]) > edges[0]["tv"]:
        out.append(V("%s/start-vertex/%s" % (site, model), "path starts at %s, first vertex is %s" % (fmt(pcs[0].end), fmt(Vs[0]))))
    e = 0
    slack = 0.0
    for p in pcs[1:]:
        if e >= k:
            if float(np.max(np.linalg.norm(p.ctrl - Vs[0], axis=1))) > edges[0]["tv"] + slack:
                out.append(V("%s/extra-pieces/%s" % (site, model), "piece %r drawn after the path had closed" % (p,)))
                break
            continue
        ed = edges[e]
        A, B = ed["A"], ed["B"]
        # a joint: a straight piece that stays at the current edge's first vertex
        if p.kind in ("L", "Z") and float(np.max(np.linalg.norm(p.ctrl - A, axis=1))) <= ed["tv"] + slack:
            continue
        X = svgpath.sample_piece(p)
        ins = dg.inside(model, X)
        if not bool(np.all(ins)):
            out.append(V("%s/outside-model/%s" % (site, model), "edge %d: drawn point %s is not inside the model" % (e, fmt(X[~ins][0]))))
            break
        if ed["cls"] == "S" or (ed["cls"] == "E" and p.kind in ("L", "Z")):
            if p.kind not in ("L", "Z"):
                out.append(V("%s/threshold/curve-above-threshold/%s" % (site, model),
                             "edge %d has circle radius %.6g > RADIUS_THRESHOLD %g but is drawn with a %s piece" % (e, ed["r"], thr, p.kind)))
                break
            dev = max(dg.dist_to_segment(x, A, B) for x in X)
            if DIAG is not None:
                DIAG.append(("S", model, ed["r"], dev, ed["chord_allow"]))
            if dev > ed["chord_allow"]:
                out.append(V("%s/straight-edge/off-chord/%s" % (site, model),
                             "edge %d (radius %.6g, straight substitute): drawn point %.3g away from the chord %s-%s (allowed %.3g)" % (
                                 e, ed["r"], dev, fmt(A), fmt(B), ed["chord_allow"])))
                break
        else:
            delta = bezier_allowance(p, ed) + ed["tv"]
            rho = dg.conformal_bound(model, X, delta)
            ld = dg.line_distance(model, A, B, X)
            ex = dg.edge_excess(model, A, B, X)
            bad = None
            if DIAG is not None:
                DIAG.append(("A", model, ed["r"], float(np.nanmax(ld / (rho * delta + 1e-6))), float(np.nanmax(ex / (2 * rho * delta + 2e-6)))))
            for j in range(len(X)):
                if math.isnan(rho[j]):
                    rad, over = dg.circle_arc_residual(ed["c"], ed["r"], A, B, X[j])
                    if rad > delta or over > delta:
                        bad = "point %s: %.3g off the circle, %.3g beyond the end points (Euclidean tolerance %.3g)" % (fmt(X[j]), rad, over, delta)
                else:
                    t1 = rho[j] * delta + 1e-6
                    if ld[j] > t1:
                        bad = "point %s at hyperbolic distance %.3g from the geodesic (tolerance %.3g)" % (fmt(X[j]), ld[j], t1)
                    elif ex[j] > 2.0 * t1:
                        bad = "point %s: d(A,x)+d(x,B)-d(A,B) = %.3g (tolerance %.3g)" % (fmt(X[j]), ex[j], 2.0 * t1)
                if bad:
                    break
            if bad:
                out.append(V("%s/off-edge/%s" % (site, model), "edge %d from %s to %s (radius %.6g), %s piece: %s" % (
                    e, fmt(A), fmt(B), ed["r"], p.kind, bad)))
                break
        reach = ed["chord_allow"] if p.kind in ("L", "Z") else ed["allow"]
        if np.linalg.norm(p.end - B) <= reach:
            e += 1
            slack = reach
    else:
        if e < k:
            out.append(V("%s/not-closed/%s" % (site, model),
                         "path ends on edge %d of %d at %s: it does not visit the vertices in order and close (codes %s)" % (
                             e, k, fmt(pcs[-1].end), cs)))
    return out, summ + ":" + "".join(kd[0] for kd in kinds)


# ------------------------------------------------------------------------------------------
# thin polygons: one or two edges far shorter than MIN_SEP
# ------------------------------------------------------------------------------------------
THIN_MARGIN = 4.0       # every position tolerance of the polygon is at most 1/4 of its shortest model edge


def distance_threshold():
    from geometry_tools import drawtools
    return float(drawtools.DISTANCE_THRESHOLD)


def thin_domain(model, Kt, thr, dthr):
    """Is the (transformed) polygon in the domain of the thin-polygon clauses?  Decided from the oracle alone:
    None, or the reason why it is not."""
    Kt = np.asarray(Kt, dtype=float)
    if float(np.max(np.linalg.norm(Kt, axis=1))) > 0.97:
        return "radius"
    if not in_view(model, Kt):
        return "out-of-view"
    Vs, edges = edge_table(model, Kt, thr, True)
    mL = min(float(np.linalg.norm(ed["B"] - ed["A"])) for ed in edges)
    if mL < 1.5 * dthr:
        return "below-distance-threshold"
    if THIN_MARGIN * max(vertex_tolerances(edges)) > mL:
        return "ill-conditioned"
    return None


def vertex_tolerances(edges):
    """Per vertex j: how far from it a path node may be that is 'at' the vertex - the position tolerance of the edge
    that leaves it and the reach of the edge that arrives."""
    k = len(edges)
    return [max(edges[j]["tv"], edges[j - 1]["allow"] if edges[j - 1]["cls"] == "A" else edges[j - 1]["chord_allow"])
            for j in range(k)]


def visit_order_violations(model, Kt, verts, codes, thr, site):
    """The nodes of the path (end points of its pieces), each matched with the vertex it coincides with (within
    vertex_tolerances; under thin_domain at most one vertex qualifies), visit
    the vertices in the cyclic order v0, v1, ..., v(k-1), v0: consecutive repetitions count once, nodes that are at
    no vertex (joints between the pieces of one arc) are in transit."""
    try:
        pcs = svgpath.pieces(verts, codes)
    except svgpath.PathError as e:
        return [V("%s/path-malformed" % site, str(e))]
    Vs, edges = edge_table(model, Kt, thr, True)
    k = len(Vs)
    tvv = vertex_tolerances(edges)
    seq = []
    for p in pcs:
        hits = [j for j in range(k) if np.linalg.norm(p.end - Vs[j]) <= tvv[j]]
        if len(hits) > 1:
            return []          # excluded by thin_domain; nothing demanded
        if hits and (not seq or seq[-1] != hits[0]):
            seq.append(hits[0])
    if seq != list(range(k)) + [0]:
        return [V("%s/vertex-order/%s" % (site, model),
                  "the path passes the vertices in the order %s, expected %s (vertices in model coordinates %s; codes %s)" % (
                      seq, list(range(k)) + [0], fmt(Vs), svgpath.code_summary(codes)))]
    return []


def case_thin_polygons(case):
    """One figure; every polygon of case["polys"] (Klein vertex lists with one or two very short edges) is drawn by a
    draw_polygon call of its own."""
    from geometry_tools import hyperbolic
    model, tf = case["model"], case["tf"]
    v, summ, t = [], set(), 0
    try:
        d = new_drawing(model, tf)
        thr, dthr = threshold(), distance_threshold()
        for K in case["polys"]:
            K = np.array(K, dtype=float)
            Kt = transformed(tf, K)
            why = thin_domain(model, Kt, thr, dthr)
            if why:
                summ.add("skipped:" + why)
                continue
            poly = hyperbolic.Polygon(kpoint(K))
            before = all_artists()
            d.draw_polygon(pre_query(poly))
            t += 1
            new = new_artists(before)
            vv = located(new, d, 1, "polygon-thin/" + model)
            if not vv:
                vs, cs = data_path(new[0][0], new[0][1])
                vv, s = arc_path_check(model, Kt, vs, cs, thr, "polygon-thin", True)
                vv = vv + visit_order_violations(model, Kt, vs, cs, thr, "polygon-thin")
                summ.add(s.split(":")[0])
            for x in vv:
                x["msg"] = "vertices (Klein) %s: %s" % (np.array2string(K, precision=9, separator=",").replace("\n", ""), x["msg"])
            v += vv
    finally:
        close_all()
    return {"v": v[:6], "t": t, "o": "%s/%s/%s/" % (model, tf, case.get("tag", "")) + ";".join(sorted(summ)), "nt": t > 0}


def check_polygon_artists(model, tf, Ks, new, d, thr):
    """Ks: list of (k,2) Klein vertex arrays drawn by one call (in flatten order)."""
    site = "polygon"
    if model == "klein":
        out = located(new, d, 1, site + "/klein")
        if out:
            return out, "count"
        coll, ax = new[0]
        paths = coll.get_paths()
        if len(paths) != len(Ks):
            return [V("polygon/klein/path-count", "collection has %d paths for %d polygons" % (len(paths), len(Ks)))], "count"
        off = np.asarray(coll.get_offsets(), dtype=float)
        if off.size and float(np.max(np.abs(off))) != 0.0:
            out.append(V("polygon/klein/offsets", "collection offsets %s" % fmt(off)))
        for K, p in zip(Ks, paths):
            Vs = dg.model_coords("klein", transformed(tf, K))
            vs, cs = data_path(coll, ax, p)
            out += polyline_check(Vs, vs, cs, "polygon/klein", tol_pt(Vs))
        return out, "klein%d" % len(Ks)
    out = located(new, d, len(Ks), site + "/" + model)
    if out:
        return out, "count"
    summ = []
    for K, (patch, ax) in zip(Ks, new):
        vs, cs = data_path(patch, ax)
        o, s = arc_path_check(model, transformed(tf, K), vs, cs, thr, site)
        out += o
        summ.append(s)
    return out, "|".join(summ)


def in_view(model, Kt):
    if model != "halfspace":
        return True
    H = dg.model_coords(model, Kt)
    return bool(np.all(np.abs(H[:, 0]) <= VIEW_X))


def case_polygons(case):
    """One figure; polygons head+tail for every tail, each drawn by its own draw_polygon call."""
    from geometry_tools import hyperbolic
    model, head = case["model"], case["head"]
    v, summ, t, nt, lab = [], set(), 0, False, case.get("tf")
    try:
        d, tf, lab, v0 = drawing_of("hyperbolic", model, case)
        v += v0
        thr = threshold()
        for tail in case["tails"]:
            K = np.array(head + tail, dtype=float)
            if not case.get("offscreen") and not in_view(model, transformed(tf, K)):
                summ.add("skipped:out-of-view")
                continue
            poly = hyperbolic.Polygon(kpoint(K))
            before = all_artists()
            d.draw_polygon(pre_query(poly))
            t += 1
            vv, s = check_polygon_artists(model, tf, [K], new_artists(before), d, thr)
            for x in vv:
                x["msg"] = "vertices (Klein) %s: %s" % (fmt(K), x["msg"])
            v += vv
            summ.add(s)
            nt = nt or ("A" in s) or model == "klein"
    finally:
        close_all()
    return {"v": hist_tag(case, lab, v)[:6], "t": t, "o": "%s/%s/" % (model, lab) + ";".join(sorted(summ)), "nt": nt}


def case_polygon_composite(case):
    """A composite of 2..4 polygons drawn by ONE call: one patch per polygon / one collection with one
    path per polygon, each the path of its own member."""
    from geometry_tools import hyperbolic
    model, tf = case["model"], case["tf"]
    Ks = [np.array(K, dtype=float) for K in case["polys"]]
    v = []
    try:
        d = new_drawing(model, tf)
        thr = threshold()
        poly = hyperbolic.Polygon(kpoint(np.array(Ks)))
        before = all_artists()
        d.draw_polygon(pre_query(poly))
        new = new_artists(before)
        v, s = check_polygon_composite(model, tf, Ks, new, d, thr)
    finally:
        close_all()
    return {"v": v[:6], "t": 1, "o": "%s/%s/%s" % (model, tf, s), "nt": True}


def check_polygon_composite(model, tf, Ks, new, d, thr):
    v, s = check_polygon_artists(model, tf, Ks, new, d, thr)
    if v and len(Ks) <= 4:
        # the property does not fix the order of the artists of a composite: any pairing will do
        for perm in itertools.permutations(range(len(Ks))):
            v2, s2 = check_polygon_artists(model, tf, [Ks[i] for i in perm], new, d, thr)
            if not v2:
                return v2, s2
    return v, s


def case_polygon_composites(case):
    """One figure; every entry of case["composites"] (3..4 polygons with the same number of vertices) is
    drawn by ONE draw_polygon call of its own."""
    from geometry_tools import hyperbolic
    model, tf = case["model"], case["tf"]
    v, summ, t = [], set(), 0
    try:
        d = new_drawing(model, tf)
        thr = threshold()
        for comp in case["composites"]:
            Ks = [np.array(K, dtype=float) for K in comp]
            if not all(in_view(model, transformed(tf, K)) for K in Ks):
                summ.add("skipped:out-of-view")
                continue
            poly = hyperbolic.Polygon(kpoint(np.array(Ks)))
            before = all_artists()
            d.draw_polygon(pre_query(poly))
            t += 1
            vv, s = check_polygon_composite(model, tf, Ks, new_artists(before), d, thr)
            for x in vv:
                x["msg"] = "%d polygons drawn by one call, vertices (Klein) %s: %s" % (len(Ks), fmt(Ks), x["msg"])
            v += vv
            summ.add("|".join(p.split(":")[0] for p in s.split("|")))
    finally:
        close_all()
    return {"v": v[:6], "t": t, "o": "%s/%s/%s/" % (model, tf, case.get("pattern", "")) + ";".join(sorted(summ)), "nt": t > 0}


# ------------------------------------------------------------------------------------------
# geodesics and segments
# ------------------------------------------------------------------------------------------
def straight_patch_check(model, d, ka, kb, patch, ax, site, ideal):
    """The straight substitute: a PathPatch with one straight piece between the end points (both models: the chord),
    or the vertical ray to beyond the top of the view (half-plane, when one end is the point at infinity)."""
    out = []
    if type(patch).__name__ != "PathPatch":
        return [V("%s/straight/artist-type/%s" % (site, model), "expected the straight PathPatch, got %s" % type(patch).__name__)]
    vs, cs = data_path(patch, ax)
    try:
        pcs = [p for p in svgpath.pieces(vs, cs) if p.kind == "M" or p.length_bound() > 0.0]
    except svgpath.PathError as e:
        return [V("%s/path-malformed" % site, str(e))]
    if [p.kind for p in pcs] != ["M", "L"]:
        return [V("%s/straight/codes/%s" % (site, model), "codes %s, expected MOVETO LINETO" % svgpath.code_summary(cs))]
    P, Q = pcs[1].start, pcs[1].end
    inf_a, inf_b = (model == "halfspace" and dg.is_infinity(ka)), (model == "halfspace" and dg.is_infinity(kb))
    if inf_a or inf_b:
        F = dg.model_coords(model, kb if inf_a else ka)
        tol = tol_ideal(F) if ideal else tol_pt(F)
        top = d.ylim[1]
        if np.linalg.norm(P - F) > tol or abs(Q[0] - F[0]) > tol or not Q[1] >= top:
            out.append(V("%s/straight/vertical-to-infinity" % site,
                         "drawn %s -> %s; expected the vertical ray from %s to beyond the top of the view y=%g" % (fmt(P), fmt(Q), fmt(F), top)))
        return out
    A, B = dg.model_coords(model, ka), dg.model_coords(model, kb)
    tol = max(tol_ideal(A), tol_ideal(B)) if ideal else tol_pt(np.concatenate([A, B]))
    allow = tol
    direct = max(np.linalg.norm(P - A), np.linalg.norm(Q - B))
    swapped = max(np.linalg.norm(P - B), np.linalg.norm(Q - A))
    if min(direct, swapped) > allow:
        out.append(V("%s/straight/endpoints/%s" % (site, model),
                     "drawn %s -> %s; end points are %s, %s (allowed %.3g)" % (fmt(P), fmt(Q), fmt(A), fmt(B), allow)))
    return out


def arc_patch_check(model, c, r, S, E, through, patch, site, tolp):
    """A matplotlib Arc against the oracle circle (c, r) and the oracle's counter-clockwise start
    point S and end point E.  `through`: None, or an angle that must NOT lie on the drawn arc."""
    out = []
    if type(patch).__name__ != "Arc":
        return [V("%s/arc/artist-type/%s" % (site, model), "expected an Arc, got %s" % type(patch).__name__)]
    C = np.asarray(patch.center, dtype=float)
    W, H, ang = float(patch.width), float(patch.height), float(patch.angle)
    t1, t2 = math.radians(float(patch.theta1)), math.radians(float(patch.theta2))
    if abs(W - H) > tolp or abs(W - 2.0 * r) > 2.0 * tolp:
        out.append(V("%s/arc/width/%s" % (site, model), "Arc width %.9g height %.9g, oracle 2r = %.9g" % (W, H, 2.0 * r)))
    if ang % 360.0 != 0.0 and abs(W - H) > tolp:
        out.append(V("%s/arc/angle/%s" % (site, model), "Arc rotated by %g with unequal axes" % ang))
    if np.linalg.norm(C - c) > tolp:
        out.append(V("%s/arc/centre/%s" % (site, model), "Arc centre %s, oracle %s (radius %.6g)" % (fmt(C), fmt(c), r)))
    if out:
        return out
    ts, te = math.atan2(S[1] - c[1], S[0] - c[0]), math.atan2(E[1] - c[1], E[0] - c[0])
    tola = tolp / r + 1e-9
    if dg.angle_diff(t1, ts) > tola or dg.angle_diff(t2, te) > tola:
        out.append(V("%s/arc/theta/%s" % (site, model),
                     "Arc theta1, theta2 = %.9g, %.9g deg; oracle (counter-clockwise extent = the arc of the object) %.9g, %.9g deg" % (
                         patch.theta1, patch.theta2, math.degrees(ts) % 360.0, math.degrees(te) % 360.0)))
        return out
    # the drawn end points are the object's end points
    rr = 0.5 * W
    P = C + rr * np.array([math.cos(t1), math.sin(t1)])
    Q = C + rr * np.array([math.cos(t2), math.sin(t2)])
    if np.linalg.norm(P - S) > 2.0 * tolp or np.linalg.norm(Q - E) > 2.0 * tolp:
        out.append(V("%s/arc/endpoints/%s" % (site, model), "arc runs %s -> %s, oracle %s -> %s" % (fmt(P), fmt(Q), fmt(S), fmt(E))))
    if through is not None:
        sweep = dg.ccw_delta(t1, t2)
        if dg.ccw_delta(t1, through) < sweep:
            out.append(V("%s/arc/wrong-side/%s" % (site, model), "the drawn arc passes through the ideal centre"))
    return out


def klein_line_violations(site, kind, ka, kb, vs, cs):
    """One path of the Klein LineCollection against the chord between the (transformed) Klein points."""
    ideal = kind == "geodesic"
    A, B = dg.model_coords("klein", ka), dg.model_coords("klein", kb)
    pcs = [p for p in svgpath.pieces(vs, cs) if p.kind != "M"]
    tol = tol_ideal(A) if ideal else tol_pt(np.concatenate([A, B]))
    ok = (len(pcs) == 1 and pcs[0].kind == "L" and
          min(max(np.linalg.norm(pcs[0].start - A), np.linalg.norm(pcs[0].end - B)),
              max(np.linalg.norm(pcs[0].start - B), np.linalg.norm(pcs[0].end - A))) <= tol)
    if not ok:
        return [V(site + "/klein/endpoints", "drawn %s, oracle end points %s, %s" % (fmt(vs), fmt(A), fmt(B)))]
    return []


def geodesic_class(model, ka, kb, thr):
    """S(traight substitute) / A(rc) / E(ither: radius inside the band around the threshold) / K(lein chord)."""
    if model == "klein":
        return "K"
    r = dg.geodesic_circle(model, ka, kb)[1]
    if r > thr * (1.0 + BAND):
        return "S"
    return "A" if r < thr * (1.0 - BAND) else "E"


def geodesic_patch_violations(model, kind, ka, kb, art, ax, d, thr, site):
    """One patch (Arc or straight PathPatch) of a Poincare / half-plane drawing against the geodesic
    between the (already transformed) Klein points ka, kb.  Returns (violations, class drawn)."""
    ideal = kind == "geodesic"
    c, r = dg.geodesic_circle(model, ka, kb)
    if r > thr * (1.0 + BAND):
        return straight_patch_check(model, d, ka, kb, art, ax, site, ideal), "S"
    if r >= thr * (1.0 - BAND) and type(art).__name__ == "PathPatch":
        return straight_patch_check(model, d, ka, kb, art, ax, site, ideal), "E"
    A, B = dg.model_coords(model, ka), dg.model_coords(model, kb)
    t1, t2 = dg.inside_arc_angles(model, c, A, B)
    S, E = (A, B) if t1 == math.atan2(A[1] - c[1], A[0] - c[0]) else (B, A)
    tolp = tol_arc(r) + (max(tol_ideal(A), tol_ideal(B)) if ideal else 0.0)
    out = arc_patch_check(model, c, r, S, E, None, art, site, tolp)
    if not out:
        # the drawn arc, sampled, lies on the geodesic inside the model (closed-form line distance)
        C = np.asarray(art.center, dtype=float)
        rr = 0.5 * float(art.width)
        a1, a2 = math.radians(art.theta1), math.radians(art.theta2)
        sw = dg.ccw_delta(a1, a2)
        X = np.array([C + rr * np.array([math.cos(a1 + sw * s), math.sin(a1 + sw * s)]) for s in (0.2, 0.4, 0.6, 0.8)])
        if not bool(np.all(dg.inside(model, X))):
            out.append(V(site + "/arc/outside-model/" + model, "arc point outside the model: %s" % fmt(X)))
        elif not ideal:
            rho = dg.conformal_bound(model, X, tolp)
            ld = dg.line_distance(model, A, B, X)
            ex = dg.edge_excess(model, A, B, X)
            for j in range(len(X)):
                if not math.isnan(rho[j]) and (ld[j] > rho[j] * tolp + 1e-6 or ex[j] > 2.0 * (rho[j] * tolp + 1e-6)):
                    out.append(V(site + "/arc/off-geodesic/" + model, "arc point %s: distance %.3g from the geodesic, excess %.3g" % (fmt(X[j]), ld[j], ex[j])))
                    break
    return out, "A"


def check_geodesic_artist(model, tf, kind, ka0, kb0, new, d, thr):
    site = "geodesic/" + kind
    ka, kb = transformed(tf, ka0), transformed(tf, kb0)
    out = located(new, d, 1, site + "/" + model)
    if out:
        return out, "count"
    art, ax = new[0]
    if model == "klein":
        if type(art).__name__ != "LineCollection":
            return [V(site + "/klein/artist-type", "expected a LineCollection, got %s" % type(art).__name__)], "type"
        paths = art.get_paths()
        if len(paths) != 1:
            return [V(site + "/klein/path-count", "%d paths" % len(paths))], "count"
        vs, cs = data_path(art, ax, paths[0])
        return klein_line_violations(site, kind, ka, kb, vs, cs), "klein"
    return geodesic_patch_violations(model, kind, ka, kb, art, ax, d, thr, site)


def assignment(n, ok):
    """A bijection members -> artists (a list perm with ok(i, perm[i]) for every member i), or None.
    The identity (the library's listing order) is tried first; ok is memoised; n <= 4."""
    memo = {}

    def good(i, j):
        if (i, j) not in memo:
            memo[(i, j)] = bool(ok(i, j))
        return memo[(i, j)]
    for perm in itertools.permutations(range(n)):
        if all(good(i, perm[i]) for i in range(n)):
            return list(perm)
    return None


def injection(n, m, ok):
    """An injective map members -> drawn shapes (a tuple f with ok(i, f[i]) for every member i), or None;
    the listing order first; n <= m <= 4."""
    memo = {}

    def good(i, j):
        if (i, j) not in memo:
            memo[(i, j)] = bool(ok(i, j))
        return memo[(i, j)]
    for f in itertools.permutations(range(m), n):
        if all(good(i, f[i]) for i in range(n)):
            return f
    return None


def check_geodesic_composite(model, tf, kind, members, new, d, thr):
    """ONE draw_geodesic call for a composite of len(members) segments / geodesics: exactly one artist
    (Klein: one path of the one LineCollection) per member, each with the geometry of its own member;
    artists are paired with members by geometry (the order is not fixed by the property)."""
    site = "geodesic-composite/" + kind
    n = len(members)
    Kt = [(transformed(tf, np.array(a, float)), transformed(tf, np.array(b, float))) for a, b in members]
    if model == "klein":
        out = located(new, d, 1, site + "/klein")
        if out:
            return out
        art, ax = new[0]
        if type(art).__name__ != "LineCollection":
            return [V(site + "/klein/artist-type", "expected a LineCollection, got %s" % type(art).__name__)]
        paths = art.get_paths()
        if len(paths) != n:
            return [V(site + "/klein/path-count", "%d paths for %d members" % (len(paths), n))]
        drawn = [data_path(art, ax, p) for p in paths]

        def viol(i, j):
            return klein_line_violations(site, kind, Kt[i][0], Kt[i][1], drawn[j][0], drawn[j][1])
    else:
        out = located(new, d, n, site + "/" + model)
        if out:
            return out

        def viol(i, j):
            return geodesic_patch_violations(model, kind, Kt[i][0], Kt[i][1], new[j][0], new[j][1], d, thr, site)[0]
    if assignment(n, lambda i, j: not viol(i, j)) is not None:
        return []
    for i in range(n):
        if all(viol(i, j) for j in range(n)):
            vv = viol(i, i)
            for x in vv:
                x["msg"] = "member %d of %d (%s - %s) has no artist of its own among the %d drawn; against artist %d: %s" % (
                    i, n, fmt(members[i][0]), fmt(members[i][1]), n, i, x["msg"])
            return vv
    return [V(site + "/pairing/" + model, "every member matches some artist but there is no one-to-one pairing of the %d members with the %d artists" % (n, n))]


def geodesic_in_domain(model, kind, ka, kb):
    """Preconditions of the half-plane drawings (stated with ctx.assume)."""
    if model != "halfspace":
        return True
    for k in (ka, kb):
        if kind == "geodesic":
            if not dg.is_infinity(k) and dg.angle_from_infinity(k) < 0.1:
                return False
        if not dg.is_infinity(k):
            h = dg.model_coords(model, k)
            if abs(h[0]) > VIEW_X:
                return False
    return True


def case_geodesics(case):
    from geometry_tools import hyperbolic
    model, kind, a = case["model"], case["kind"], case["a"]
    v, summ, t, lab = [], set(), 0, case.get("tf")
    try:
        d, tf, lab, v0 = drawing_of("hyperbolic", model, case)
        v += v0
        thr = threshold()
        for b in case["bs"]:
            if not (case.get("offscreen") and kind == "segment") and not geodesic_in_domain(model, kind, transformed(tf, a), transformed(tf, b)):
                summ.add("skipped")
                continue
            if kind == "segment":
                obj = hyperbolic.Segment(kpoint(a), kpoint(b))
            else:
                obj = hyperbolic.Geodesic(kpoint(a), kpoint(b))
            before = all_artists()
            d.draw_geodesic(pre_query(obj))
            t += 1
            vv, s = check_geodesic_artist(model, tf, kind, np.array(a, float), np.array(b, float), new_artists(before), d, thr)
            for x in vv:
                x["msg"] = "%s %s - %s (Klein): %s" % (kind, fmt(a), fmt(b), x["msg"])
            v += vv
            summ.add(s)
    finally:
        close_all()
    return {"v": hist_tag(case, lab, v)[:6], "t": t, "o": "%s/%s/%s/" % (model, lab, kind) + "".join(sorted(summ)), "nt": bool(summ - {"skipped"})}


def case_geodesic_composites(case):
    """One figure; every entry of case["composites"] (a list of 3..4 members [a, b], Klein coordinates) is
    drawn as ONE composite Segment / Geodesic by ONE draw_geodesic call of its own."""
    from geometry_tools import hyperbolic
    model, tf, kind = case["model"], case["tf"], case["kind"]
    v, t, summ = [], 0, set()
    try:
        d = new_drawing(model, tf)
        thr = threshold()
        for members in case["composites"]:
            Kt = [(transformed(tf, a), transformed(tf, b)) for a, b in members]
            if not all(geodesic_in_domain(model, kind, ka, kb) for ka, kb in Kt):
                summ.add("skipped")
                continue
            A = kpoint(np.array([a for a, _ in members], dtype=float))
            B = kpoint(np.array([b for _, b in members], dtype=float))
            obj = hyperbolic.Segment(A, B) if kind == "segment" else hyperbolic.Geodesic(A, B)
            before = all_artists()
            d.draw_geodesic(pre_query(obj))
            t += 1
            pattern = "".join(geodesic_class(model, ka, kb, thr) for ka, kb in Kt)
            vv = check_geodesic_composite(model, tf, kind, members, new_artists(before), d, thr)
            for x in vv:
                x["msg"] = "%d %ss drawn by one call, classes %s, members (Klein) %s: %s" % (
                    len(members), kind, pattern, fmt(members), x["msg"])
            v += vv
            summ.add(pattern)
    finally:
        close_all()
    return {"v": v[:6], "t": t, "o": "%s/%s/%s/" % (model, tf, kind) + ";".join(sorted(summ)), "nt": t > 0}


# ------------------------------------------------------------------------------------------
# points
# ------------------------------------------------------------------------------------------
def match_points(got, want, tol):
    got = [np.asarray(g, dtype=float) for g in got]
    if len(got) != len(want):
        return False
    left = list(range(len(got)))
    for w in want:
        hit = [i for i in left if np.linalg.norm(got[i] - w) <= tol]
        if not hit:
            return False
        left.remove(hit[0])
    return True


def line_data(new, d, site):
    out = located(new, d, 1, site)
    if out:
        return out, None
    art, ax = new[0]
    if type(art).__name__ != "Line2D":
        return [V("artist/%s/type" % site, "expected a Line2D, got %s" % type(art).__name__)], None
    return [], to_data(art, ax, art.get_xydata())


def case_points(case):
    from geometry_tools import hyperbolic
    model = case["model"]
    v, t, lab = [], 0, case.get("tf")
    try:
        d, tf, lab, v0 = drawing_of("hyperbolic", model, case)
        v += v0
        for item in case["items"]:
            K = np.array(item["k"], dtype=float).reshape(tuple(item["shape"]) + (2,))
            cls = hyperbolic.IdealPoint if item.get("ideal") else hyperbolic.Point
            obj = cls(K, model="klein")
            before = all_artists()
            d.draw_point(obj)
            t += 1
            vv, got = line_data(new_artists(before), d, "point/" + model)
            if got is not None:
                want = dg.model_coords(model, transformed(tf, K.reshape(-1, 2)))
                tol = tol_ideal(want) if item.get("ideal") else tol_pt(want)
                if not match_points(got, want, tol):
                    vv.append(V("point/%s/%s" % (model, "ideal" if item.get("ideal") else "interior"),
                                "Line2D data %s, oracle %s (shape %s)" % (fmt(got), fmt(want), item["shape"])))
            v += vv
    finally:
        close_all()
    return {"v": hist_tag(case, lab, v)[:6], "t": t, "o": "%s/%s/%d" % (model, lab, t), "nt": True}


# ------------------------------------------------------------------------------------------
# horospheres and horospherical arcs
# ------------------------------------------------------------------------------------------
def ellipse_params(coll, ax):
    def get(name):
        f = getattr(coll, "get_" + name, None)
        if f is not None:
            return np.asarray(f(), dtype=float).ravel()
        return 2.0 * np.asarray(getattr(coll, "_" + name), dtype=float).ravel() if name != "angles" else np.asarray(coll._angles, dtype=float).ravel()
    off = to_data(coll, ax, np.asarray(coll.get_offsets(), dtype=float), transform=coll.get_offset_transform())
    return off, get("widths"), get("heights"), str(getattr(coll, "_units", "?"))


HORO_TURNS = [60.0, 100.0, 140.0, 180.0, 220.0, 260.0, 300.0]


def check_horosphere_artist(model, tf, kxi0, kp0, new, d, thr):
    site = "horosphere"
    kxi, kp = transformed(tf, kxi0), transformed(tf, kp0)
    kxi = kxi / np.linalg.norm(kxi)
    c, r = dg.horocycle(model, kxi, kp)
    out = located(new, d, 1, site + "/" + model)
    if out:
        return out, "count"
    art, ax = new[0]
    if c is None:
        # half-plane, centre at infinity: the horizontal line through the reference point,
        # drawn as the lower side of a rectangle that covers the view above it
        if type(art).__name__ != "Rectangle":
            return [V(site + "/halfplane-infinity/artist-type", "expected a Rectangle, got %s" % type(art).__name__)], "inf"
        h = dg.model_coords(model, kp)[1]
        x0, y0 = art.get_xy()
        w, hh = art.get_width(), art.get_height()
        lo = to_data(art, ax, art.get_path().vertices, transform=art.get_transform())
        if (abs(y0 - h) > tol_pt(h) or abs(float(np.min(lo[:, 1])) - h) > 1e-6 * (1 + abs(h))
                or not (x0 <= d.xlim[0] and x0 + w >= d.xlim[1] and y0 + hh >= d.ylim[1])):
            out.append(V(site + "/halfplane-infinity/rectangle", "rectangle xy=(%g,%g) w=%g h=%g; horizontal line at height %.9g covering the view expected" % (x0, y0, w, hh, h)))
        return out, "inf"
    if not r < thr * (1.0 - BAND):
        return out, "substituted"            # radius at/above the threshold: nothing demanded
    if type(art).__name__ != "EllipseCollection":
        return [V(site + "/artist-type/" + model, "expected an EllipseCollection, got %s" % type(art).__name__)], "type"
    off, w, h, units = ellipse_params(art, ax)
    tolp = tol_arc(r) + tol_ideal(kxi)
    if len(off) != 1 or len(w) != 1 or len(h) != 1:
        return [V(site + "/count/" + model, "%d offsets, %d widths" % (len(off), len(w)))], "count"
    if units != "xy":
        out.append(V(site + "/units/" + model, "ellipse sizes are in units %r, not data units" % units))
    if abs(w[0] - 2 * r) > 2 * tolp or abs(h[0] - 2 * r) > 2 * tolp:
        out.append(V(site + "/radius/" + model, "ellipse width %.9g height %.9g, oracle diameter %.9g" % (w[0], h[0], 2 * r)))
    if np.linalg.norm(off[0] - c) > tolp:
        out.append(V(site + "/centre/" + model, "ellipse centre %s, oracle %s" % (fmt(off[0]), fmt(c))))
    if not out:
        # independent formulation: the Busemann function of the centre is constant on the drawn circle
        P = dg.model_coords(model, kp)
        b0 = dg.busemann(model, kxi, P)
        tang = math.atan2(kxi[1], kxi[0]) if model == "poincare" else -0.5 * math.pi
        for deg in HORO_TURNS:
            a = tang + math.radians(deg)
            x = off[0] + 0.5 * w[0] * np.array([math.cos(a), math.sin(a)])
            if not bool(dg.inside(model, x)):
                out.append(V(site + "/outside-model/" + model, "point %s of the drawn circle is outside the model" % fmt(x)))
                break
            rho = float(dg.conformal_bound(model, x, 0.0))
            if abs(dg.busemann(model, kxi, x) - b0) > 2.0 * rho * tolp + 1e-6:
                out.append(V(site + "/busemann/" + model, "Busemann function at drawn point %s is %.9g, at the reference point %.9g" % (
                    fmt(x), dg.busemann(model, kxi, x), b0)))
                break
    return out, "C"


def case_horospheres(case):
    from geometry_tools import hyperbolic
    model, tf, xi = case["model"], case["tf"], case["xi"]
    v, summ, t = [], set(), 0
    try:
        d = new_drawing(model, tf, mname=case.get("mname"))
        thr = threshold()
        for ref in case["refs"]:
            if not horo_in_domain(model, tf, xi, [ref]):
                summ.add("skipped")
                continue
            obj = hyperbolic.Horosphere(kpoint(xi), kpoint(ref))
            before = all_artists()
            d.draw_horosphere(pre_query(obj))
            t += 1
            vv, s = check_horosphere_artist(model, tf, np.array(xi, float), np.array(ref, float), new_artists(before), d, thr)
            for x in vv:
                x["msg"] = "horosphere centre %s through %s (Klein): %s" % (fmt(xi), fmt(ref), x["msg"])
            v += vv
            summ.add(s)
    finally:
        close_all()
    return {"v": v[:6], "t": t, "o": "%s/%s/" % (model, tf) + "".join(sorted(summ)), "nt": "C" in summ or "inf" in summ}


def case_horospheres_composite(case):
    """Several horospheres drawn by ONE call as a composite object: every finite circle of the collection is
    the circle of its own member (centre and radius pair up member by member), members centred at the
    half-plane's point at infinity become rectangles."""
    from geometry_tools import hyperbolic
    model, tf, members = case["model"], case["tf"], case["members"]
    v, t = [], 0
    try:
        d = new_drawing(model, tf)
        thr = threshold()
        usable = [(xi, ref) for (xi, ref) in members if horo_in_domain(model, tf, xi, [ref])]
        if len(usable) < 2:
            return {"v": [], "t": 0, "o": "skipped", "nt": False}
        obj = hyperbolic.Horosphere(hyperbolic.Point(np.array([xi for xi, _ in usable], dtype=float), model="klein"),
                                    hyperbolic.Point(np.array([ref for _, ref in usable], dtype=float), model="klein"))
        before = all_artists()
        d.draw_horosphere(pre_query(obj))
        t += 1
        new = new_artists(before)
        want_circles, n_inf, n_sub = [], 0, 0
        for xi, ref in usable:
            kxi, kp = transformed(tf, np.array(xi, float)), transformed(tf, np.array(ref, float))
            kxi = kxi / np.linalg.norm(kxi)
            c, r = dg.horocycle(model, kxi, kp)
            if c is None:
                n_inf += 1
            elif not r < thr * (1.0 - BAND):
                n_sub += 1
            else:
                want_circles.append((c, r, kxi))
        if n_sub:
            return {"v": [], "t": t, "o": "substituted", "nt": False}       # radius near/above the threshold: nothing demanded
        colls = [(a, ax) for a, ax in new if type(a).__name__ == "EllipseCollection"]
        rects = [(a, ax) for a, ax in new if type(a).__name__ == "Rectangle"]
        site = "horosphere-composite/" + model
        if any(ax is not d.ax for _, ax in new):
            v.append(V("artist/%s/not-on-drawing-axes" % site, "a new artist appeared on other axes"))
        if len(colls) != (1 if want_circles else 0) or len(rects) != n_inf or len(new) != len(colls) + len(rects):
            v.append(V(site + "/artists", "call added %s; expected %d EllipseCollection and %d Rectangle" % (
                ",".join(type(a).__name__ for a, _ in new), 1 if want_circles else 0, n_inf)))
        elif want_circles:
            off, w, h, units = ellipse_params(colls[0][0], colls[0][1])
            if not (len(off) == len(w) == len(h) == len(want_circles)):
                v.append(V(site + "/count", "%d offsets, %d widths, %d heights for %d finite members" % (len(off), len(w), len(h), len(want_circles))))
            else:
                for i, (c, r, kxi) in enumerate(want_circles):
                    tolp = tol_arc(r) + tol_ideal(kxi)
                    if np.linalg.norm(off[i] - c) > tolp or abs(w[i] - 2 * r) > 2 * tolp or abs(h[i] - 2 * r) > 2 * tolp:
                        v.append(V(site + "/member-circle", "member %d of %d: drawn centre %s diameter %.9g x %.9g, oracle centre %s diameter %.9g (members: %s)" % (
                            i, len(want_circles), fmt(off[i]), w[i], h[i], fmt(c), 2 * r, fmt([list(m[0]) for m in usable]))))
                        break
    finally:
        close_all()
    return {"v": v[:4], "t": t, "o": "%s/%s/%d/%d" % (model, tf, len(usable), n_inf), "nt": True}


def horo_in_domain(model, tf, xi, pts):
    if model != "halfspace":
        return True
    kxi = transformed(tf, xi)
    if not dg.is_infinity(kxi) and dg.angle_from_infinity(kxi) < 0.1:
        return False
    for p in pts:
        if abs(dg.model_coords(model, transformed(tf, p))[0]) > VIEW_X:
            return False
    return True


def case_horoarcs(case):
    from geometry_tools import hyperbolic
    model, tf, xi, ref = case["model"], case["tf"], case["xi"], case["ref"]
    v, summ, t = [], set(), 0
    try:
        d = new_drawing(model, tf)
        thr = threshold()
        for turn in case["turns"]:
            q0 = dg.horocycle_point(np.array(xi, float), np.array(ref, float), turn)
            if not horo_in_domain(model, tf, xi, [ref, q0]):
                summ.add("skipped")
                continue
            obj = hyperbolic.HorosphereArc(kpoint(xi), kpoint(ref), kpoint(q0))
            before = all_artists()
            d.draw_horoarc(pre_query(obj))
            t += 1
            new = new_artists(before)
            vv = located(new, d, 1, "horoarc/" + model)
            s = "count"
            if not vv:
                art, ax = new[0]
                kxi = transformed(tf, xi)
                kxi = kxi / np.linalg.norm(kxi)
                kp, kq = transformed(tf, ref), transformed(tf, q0)
                c, r = dg.horocycle(model, kxi, kp)
                P, Q = dg.model_coords(model, kp), dg.model_coords(model, kq)
                if c is None or r > thr * (1.0 + BAND):
                    s = "S"
                    if c is None:
                        # centre at infinity: the horocycle is the horizontal line, the arc its segment
                        vs, cs = data_path(art, ax)
                        ends = [p for p in svgpath.pieces(vs, cs) if p.kind != "M"]
                        tol = tol_pt(np.concatenate([P, Q]))
                        ok = (type(art).__name__ == "PathPatch" and len(ends) == 1 and ends[0].kind == "L" and
                              min(max(np.linalg.norm(ends[0].start - P), np.linalg.norm(ends[0].end - Q)),
                                  max(np.linalg.norm(ends[0].start - Q), np.linalg.norm(ends[0].end - P))) <= tol)
                        if not ok:
                            vv.append(V("horoarc/halfplane-infinity", "drawn %s, expected the horizontal segment %s - %s" % (fmt(vs), fmt(P), fmt(Q))))
                elif r < thr * (1.0 - BAND):
                    s = "A"
                    tang = math.atan2(kxi[1], kxi[0]) if model == "poincare" else -0.5 * math.pi
                    tp = math.atan2(P[1] - c[1], P[0] - c[0])
                    tq = math.atan2(Q[1] - c[1], Q[0] - c[0])
                    # the arc between the end points that avoids the ideal centre, counter-clockwise
                    S, E = (P, Q) if dg.ccw_delta(tp, tang) > dg.ccw_delta(tp, tq) else (Q, P)
                    vv = arc_patch_check(model, c, r, S, E, tang, art, "horoarc", tol_arc(r) + tol_ideal(kxi))
                else:
                    s = "E"
            for x in vv:
                x["msg"] = "horoarc centre %s from %s turned by %g rad: %s" % (fmt(xi), fmt(ref), turn, x["msg"])
            v += vv
            summ.add(s)
    finally:
        close_all()
    return {"v": v[:6], "t": t, "o": "%s/%s/" % (model, tf) + "".join(sorted(summ)), "nt": "A" in summ}


# ------------------------------------------------------------------------------------------
# projective drawings
# ------------------------------------------------------------------------------------------
def ptransformed(tf, X):
    M = PTF_ALL[tf] if isinstance(tf, str) else np.asarray(tf, dtype=float)
    X = np.asarray(X, dtype=float)
    return X if M is None else X @ np.asarray(M).T


def case_projective(case):
    from geometry_tools import projective
    chart, kind = case["chart"], case["kind"]
    v, t, lab = [], 0, case.get("tf")
    try:
        d, tf, lab, v0 = drawing_of("projective", chart, case)
        v += v0
        for item in case["items"]:
            X = np.array(item, dtype=float)
            before = all_artists()
            if kind == "point":
                d.draw_point(projective.Point(X))
                t += 1
                vv, got = line_data(new_artists(before), d, "projective/point")
                if got is not None:
                    want = dg.affine_chart(ptransformed(tf, X.reshape(-1, 3)), chart)
                    if not match_points(got, want, tol_pt(want)):
                        vv.append(V("projective/point/chart", "chart %d: Line2D data %s, oracle %s" % (chart, fmt(got), fmt(want))))
            else:
                polys = X.reshape((-1,) + X.shape[-2:])
                if kind == "polygon":
                    d.draw_polygon(projective.Polygon(X))
                else:
                    d.draw_proj_segment(projective.PointPair(X))
                t += 1
                new = new_artists(before)
                vv = located(new, d, 1, "projective/" + kind)
                if not vv:
                    coll, ax = new[0]
                    paths = coll.get_paths()
                    off = np.asarray(coll.get_offsets(), dtype=float)
                    if off.size and float(np.max(np.abs(off))) != 0.0:
                        vv.append(V("projective/%s/offsets" % kind, "collection offsets %s" % fmt(off)))
                    if len(paths) != len(polys):
                        vv.append(V("projective/%s/path-count" % kind, "%d paths for %d objects" % (len(paths), len(polys))))
                    else:
                        for P, path in zip(polys, paths):
                            want = dg.affine_chart(ptransformed(tf, P), chart)
                            vs, cs = data_path(coll, ax, path)
                            if kind == "polygon":
                                vv += polyline_check(want, vs, cs, "projective/polygon", tol_pt(want))
                            else:
                                pcs = [p for p in svgpath.pieces(vs, cs) if p.kind != "M"]
                                ok = (len(pcs) == 1 and pcs[0].kind == "L" and
                                      min(max(np.linalg.norm(pcs[0].start - want[0]), np.linalg.norm(pcs[0].end - want[1])),
                                          max(np.linalg.norm(pcs[0].start - want[1]), np.linalg.norm(pcs[0].end - want[0]))) <= tol_pt(want))
                                if not ok:
                                    vv.append(V("projective/segment/endpoints", "chart %d: drawn %s, oracle %s" % (chart, fmt(vs), fmt(want))))
            for x in vv:
                x["msg"] = "projective %s %s, chart %d, transform %s: %s" % (kind, fmt(X), chart, lab, x["msg"])
            v += vv
    finally:
        close_all()
    return {"v": hist_tag(case, lab, v)[:6], "t": t, "o": "%s/%d/%s/%d" % (kind, chart, lab, t), "nt": True}


def const_sign(col):
    return bool(np.all(col > 0.0) or np.all(col < 0.0))


def case_projective_reps(case):
    """Projective polygons given by arbitrary homogeneous representatives (negative, mixed scales), drawn
    with assume_affine True / False.  assume_affine=True: the vertices are drawn at their chart coordinates
    whatever the representatives.  assume_affine=False: the representatives' signs say which of the two
    projective segments joins two vertices; a member whose chart coordinate has one sign at all its vertices
    lies inside the chart and must be drawn as it is; for the other members nothing is demanded."""
    from geometry_tools import projective
    chart, tf, aa = case["chart"], case["tf"], case["aa"]
    site = "projective/polygon/" + ("assume-affine" if aa else "nonaffine")
    v, t, summ = [], 0, set()
    try:
        d = new_proj_drawing(chart, tf)
        for item in case["items"]:
            X = np.array(item, dtype=float)
            polys = X.reshape((-1,) + X.shape[-2:])
            post = [ptransformed(tf, P) for P in polys]
            if aa:
                demanded = list(range(len(polys)))
            else:
                demanded = [i for i, Y in enumerate(post) if const_sign(Y[:, chart]) and
                            (const_sign(Y[:, 0]) or not NONAFF_CHART0_ONLY)]
            if not demanded:
                summ.add("undemanded")
                continue
            before = all_artists()
            d.draw_polygon(projective.Polygon(X), assume_affine=aa)
            t += 1
            new = new_artists(before)
            vv = []
            if any(ax is not d.ax for _, ax in new):
                vv.append(V("artist/%s/not-on-drawing-axes" % site, "a new artist appeared on axes other than drawing.ax"))
            colls = [(a, ax) for a, ax in new if hasattr(a, "get_paths")]
            drawn = []
            for a, ax in colls:
                off = np.asarray(a.get_offsets(), dtype=float)
                if off.size and float(np.max(np.abs(off))) != 0.0:
                    vv.append(V(site + "/offsets", "collection offsets %s" % fmt(off)))
                drawn += [data_path(a, ax, p) for p in a.get_paths()]
            shapes = len(drawn) + len(new) - len(colls)
            want = [dg.affine_chart(post[i], chart) for i in demanded]
            full = len(demanded) == len(polys)
            if full and shapes != len(polys):
                vv.append(V(site + "/shape-count", "%d polygons, all inside chart %d: the call drew %d shapes (%s)" % (
                    len(polys), chart, shapes, ",".join(type(a).__name__ for a, _ in new))))
            elif len(drawn) < len(want):
                vv.append(V(site + "/missing", "%d of the %d polygons lie inside chart %d, the collections drawn hold %d paths (%s)" % (
                    len(want), len(polys), chart, len(drawn), ",".join(type(a).__name__ for a, _ in new))))
            elif len(drawn) <= 4:
                def viol(i, j):
                    return polyline_check(want[i], drawn[j][0], drawn[j][1], site, tol_pt(want[i]))
                if injection(len(want), len(drawn), lambda i, j: not viol(i, j)) is None:
                    bad = [i for i in range(len(want)) if all(viol(i, j) for j in range(len(drawn)))]
                    if bad:
                        i = bad[0]
                        vv += [V(x["key"], "member %d of %d has no path of its own among the %d drawn; against path %d: %s" % (
                            demanded[i], len(polys), len(drawn), min(i, len(drawn) - 1), x["msg"])) for x in viol(i, min(i, len(drawn) - 1))]
                    else:
                        vv.append(V(site + "/pairing", "no one-to-one pairing of the %d members inside the chart with the %d drawn paths" % (len(want), len(drawn))))
            else:
                vv.append(V(site + "/shape-count", "%d paths drawn for %d polygons" % (len(drawn), len(polys))))
            for x in vv:
                x["msg"] = "projective polygon(s) %s, chart %d, transform %s, assume_affine=%s: %s" % (fmt(X), chart, tf, aa, x["msg"])
            v += vv
            summ.add("%d/%d" % (len(demanded), len(polys)))
    finally:
        close_all()
    return {"v": v[:6], "t": t, "o": "%d/%s/%s/" % (chart, tf, aa) + ";".join(sorted(summ)), "nt": t > 0}


def _open_corners(vs, cs, tol):
    """Corners of a closed straight path (closing vertex and repeated corners dropped); None if it is not one
    MOVETO followed by straight pieces."""
    pcs = svgpath.pieces(vs, cs)
    if not pcs or pcs[0].kind != "M" or sum(p.kind == "M" for p in pcs) != 1 or any(p.kind not in ("M", "L", "Z") for p in pcs):
        return None
    corners = [pcs[0].end]
    for p in pcs[1:]:
        if np.linalg.norm(p.end - corners[-1]) > tol:
            corners.append(p.end)
    if len(corners) > 1 and np.linalg.norm(corners[-1] - corners[0]) <= tol:
        corners.pop()
    return corners


def crossing_piece_violations(W, run, before, after, box, tol):
    """One of the two pieces of a polygon that crosses the chart's line at infinity.  W: corners drawn (open list);
    run: chart coordinates of the consecutive vertices (in the polygon's order) on one side of the line at infinity;
    before / after: chart coordinates of the polygon's vertex preceding / following the run (on the other side).
    Demanded: cyclically, in one of the two directions, W = run followed by >= 2 further corners, all outside the view
    box; the corner next to the run's last vertex lies on the ray leaving that vertex away from `after` (the projective
    edge run[-1] -> after passes through infinity, so in the chart it is that ray and the opposite ray at `after`),
    and the corner next to the run's first vertex lies on the ray leaving it away from `before`.
    Returns a list of short reasons (empty = the piece is this run)."""
    m, n = len(run), len(W)
    if n < m + 2:
        return ["%d corners for a run of %d vertices (+ at least 2 beyond the view)" % (n, m)]
    W = [np.asarray(w, dtype=float) for w in W]
    best = None
    for cand in (W, W[::-1]):
        for s in range(n):
            R = cand[s:] + cand[:s]
            if all(np.linalg.norm(R[i] - run[i]) <= tol for i in range(m)):
                why = []
                extra = R[m:]
                (x0, x1), (y0, y1) = box
                if any(x0 <= e[0] <= x1 and y0 <= e[1] <= y1 for e in extra):
                    why.append("an added corner %s lies inside the view" % fmt(extra))
                for D, A, B, nm in ((extra[0], run[-1], after, "last"), (extra[-1], run[0], before, "first")):
                    u, w = D - A, A - B
                    cr = abs(u[0] * w[1] - u[1] * w[0])
                    if not (float(np.dot(u, w)) > 0.0 and cr <= 1e-6 * np.linalg.norm(u) * np.linalg.norm(w)):
                        why.append("the corner %s next to the run's %s vertex %s is not on the ray from it away from %s" % (fmt(D), nm, fmt(A), fmt(B)))
                if not why:
                    return []
                best = why
    return best or ["the run %s is not a block of consecutive corners of %s" % (fmt(run), fmt(W))]


def case_projective_crossing(case):
    """ProjectiveDrawing.draw_polygon(assume_affine=False) on polygons that cross the chart's line at infinity: the
    chart coordinate (after the drawing transform) is non-zero at every vertex and changes sign exactly twice around
    the polygon, so the vertices form two runs.  Demanded: every such member is drawn as two closed straight patches,
    one per run (crossing_piece_violations); members inside the chart go to the collection as they are."""
    from geometry_tools import projective
    chart, tf = case["chart"], case["tf"]
    site = "projective/polygon/nonaffine-crossing"
    v, t, summ = [], 0, set()
    try:
        d = new_proj_drawing(chart, tf)
        box = (tuple(float(x) for x in d.xlim), tuple(float(y) for y in d.ylim))
        for item in case["items"]:
            X = np.array(item, dtype=float)
            polys = X.reshape((-1,) + X.shape[-2:])
            k = polys.shape[1]
            post = [ptransformed(tf, P) for P in polys]
            members = []
            for Y in post:
                sg = np.sign(Y[:, chart])
                changes = [i for i in range(k) if sg[i] != sg[i - 1]]
                members.append(None if not changes else changes)
            if any(ch is not None and len(ch) != 2 for ch in members) or any(np.any(Y[:, chart] == 0.0) for Y in post):
                summ.add("undemanded")
                continue
            before = all_artists()
            d.draw_polygon(projective.Polygon(X), assume_affine=False)
            t += 1
            new = new_artists(before)
            vv = []
            if any(ax is not d.ax for _, ax in new):
                vv.append(V("artist/%s/not-on-drawing-axes" % site, "a new artist appeared on axes other than drawing.ax"))
            paths = []
            for a, ax in new:
                if hasattr(a, "get_paths"):
                    off = np.asarray(a.get_offsets(), dtype=float)
                    if off.size and float(np.max(np.abs(off))) != 0.0:
                        vv.append(V(site + "/offsets", "collection offsets %s" % fmt(off)))
                    paths += [("coll",) + tuple(data_path(a, ax, p)) for p in a.get_paths()]
                elif hasattr(a, "get_path"):
                    paths.append(("patch",) + tuple(data_path(a, ax)))
                else:
                    vv.append(V(site + "/artist-type", "unexpected artist %s" % type(a).__name__))
            ncross = sum(ch is not None for ch in members)
            nin = len(members) - ncross
            got = (sum(p[0] == "coll" for p in paths), sum(p[0] == "patch" for p in paths))
            if got != (nin, 2 * ncross):
                vv.append(V(site + "/shape-count/%d-vertices" % k, "%d members inside the chart and %d crossing its line at infinity: "
                            "%d collection paths and %d patches drawn (expected %d and %d)" % (nin, ncross, got[0], got[1], nin, 2 * ncross)))
            else:
                used = set()
                for mi, (Y, ch) in enumerate(zip(post, members)):
                    A = dg.affine_chart(Y, chart)
                    tol = tol_pt(A)
                    if ch is None:
                        hit = [j for j, p in enumerate(paths) if j not in used and p[0] == "coll" and not polyline_check(A, p[1], p[2], site, tol)]
                        if not hit:
                            vv.append(V(site + "/inside-member/vertices", "member %d (inside the chart, corners %s) is none of the collection's paths" % (mi, fmt(A))))
                        else:
                            used.add(hit[0])
                        continue
                    a, b = ch
                    for lo, hi in ((a, b), (b, a + k)):
                        idx = [i % k for i in range(lo, hi)]
                        run = [A[i] for i in idx]
                        why, hit = None, None
                        for j, p in enumerate(paths):
                            if j in used or p[0] != "patch":
                                continue
                            try:
                                W = _open_corners(p[1], p[2], tol)
                            except svgpath.PathError as e:
                                W = None
                            r = ["not a closed straight path"] if W is None else crossing_piece_violations(W, run, A[(lo - 1) % k], A[hi % k], box, tol)
                            if not r:
                                hit = j
                                break
                            if why is None or len(r) < len(why) or "not a block" in why[0]:
                                why = r
                        if hit is None:
                            vv.append(V(site + "/piece/%d-vertices" % k, "member %d: chart coordinates %s, signs of the chart coordinate %s; no patch is the piece "
                                        "with the vertices %s: %s; patches drawn: %s" % (mi, fmt(A), [int(x) for x in np.sign(Y[:, chart])], idx,
                                                                                       "; ".join(why or ["no patch left"]), " | ".join(fmt(p[1]) for p in paths if p[0] == "patch"))))
                            break
                        used.add(hit)
            for x in vv:
                x["msg"] = "projective polygon(s) %s, chart %d, transform %s, assume_affine=False: %s" % (fmt(X), chart, tf, x["msg"])
            v += vv
            summ.add("%d:%d+%d" % (k, nin, ncross))
    finally:
        close_all()
    return {"v": v[:6], "t": t, "o": "%d/%s/" % (chart, tf) + ";".join(sorted(summ)), "nt": t > 0}


def crossing_items(tf, chart, ok, starts):
    """Polygons with 3..6 vertices crossing the chart's line at infinity: windows ok[i:i+k] (cyclic) of the lattice,
    the representative inside the chart with the sign of a run of m consecutive vertices (every start, every
    1 <= m <= k-1) flipped, times an overall factor 1 / -1 (alternating with the pattern index, both for the first
    start); plus collections [crossing, inside, crossing] with different runs."""
    items = []
    n = len(ok)
    for k in (3, 4, 5, 6):
        reps = []
        for i in starts:
            B = chart_rep(tf, chart, [ok[(i + j) % n] for j in range(k)])
            reps.append(B)
            c = 0
            for s in range(k):
                for m in range(1, k):
                    mus = [-1.0 if (j - s) % k < m else 1.0 for j in range(k)]
                    for lam in ((1.0, -1.0) if i == starts[0] else ((1.0, -1.0)[c % 2],)):
                        items.append(scaled(B, lam, mus))
                    c += 1
        if len(reps) >= 3:
            for s in range(k):
                m1, m2 = 1 + s % (k - 1), 1 + (s + 1) % (k - 1)
                mu1 = [-1.0 if (j - s) % k < m1 else 1.0 for j in range(k)]
                mu2 = [-1.0 if (j - s - 2) % k < m2 else 1.0 for j in range(k)]
                items.append([scaled(reps[0], 1.0, mu1), scaled(reps[1], -2.5), scaled(reps[2], 0.3, mu2)])
                items.append([scaled(reps[2], -1.0, mu2), scaled(reps[0], 1.0, mu1)])
    return items


# ------------------------------------------------------------------------------------------
# wrong dimension
# ------------------------------------------------------------------------------------------
def wrongdim_object(space, kind, n):
    from geometry_tools import hyperbolic, projective
    e1 = np.zeros(n)
    e1[0] = 1.0
    a = 0.1 * np.ones(n)
    b = -0.3 * e1
    c = 0.2 * np.ones(n)
    c[0] = -0.25
    if space == "projective":
        pa, pb, pc = (np.concatenate([[1.0], x]) for x in (a, b, c))
        if kind == "point":
            return projective.Point(pa)
        if kind == "polygon":
            return projective.Polygon(np.array([pa, pb, pc]))
        if kind == "segment":
            return projective.PointPair(np.array([pa, pb]))
    else:
        if kind == "point":
            return kpoint(a)
        if kind == "polygon":
            return hyperbolic.Polygon(kpoint(np.array([a, b, c])))
        if kind == "segment":
            return hyperbolic.Segment(kpoint(a), kpoint(b))
        if kind == "geodesic":
            return hyperbolic.Geodesic(kpoint(e1), kpoint(-e1))
        if kind == "horosphere":
            return hyperbolic.Horosphere(kpoint(e1), kpoint(a))
        if kind == "horoarc":
            return hyperbolic.HorosphereArc(kpoint(e1), kpoint(a), kpoint(b))
    raise ValueError(kind)


def case_wrongdim(case):
    from geometry_tools import GeometryError
    space, kind, n, model = case["space"], case["kind"], case["n"], case["model"]
    v = []
    try:
        try:
            obj = wrongdim_object(space, kind, n)
        except Exception as e:       # the object itself cannot be built in this dimension: not a drawing question
            return {"v": [], "t": 0, "o": "unconstructible:%s" % type(e).__name__, "nt": False}
        if obj.dimension != n:
            return {"v": [], "t": 0, "o": "dimension-mismatch", "nt": False}
        if space == "projective":
            d = new_proj_drawing(model, "id")
            call = {"point": d.draw_point, "polygon": d.draw_polygon, "segment": d.draw_proj_segment}[kind]
        else:
            d = new_drawing(model, "id", mname=case.get("mname"))
            call = {"point": d.draw_point, "polygon": d.draw_polygon, "segment": d.draw_geodesic,
                    "geodesic": d.draw_geodesic, "horosphere": d.draw_horosphere, "horoarc": d.draw_horoarc}[kind]
        before = all_artists()
        try:
            call(obj)
            v.append(V("wrongdim/%s/%s/accepted" % (space, kind), "a %d-dimensional %s was drawn without GeometryError (model/chart %s)" % (n, kind, model)))
            o = "accepted"
        except GeometryError:
            o = "rejected"
        o = "%s:%s/%s/dim%d" % (o, space, kind, n)
        if new_artists(before):
            v.append(V("wrongdim/%s/%s/artist-added" % (space, kind), "an artist was added for a %d-dimensional %s" % (n, kind)))
    finally:
        close_all()
    return {"v": v, "t": 1, "o": o, "nt": True}


# ------------------------------------------------------------------------------------------
# model names: a drawing whose model is named by any documented alias / letter case is a drawing in that model
# ------------------------------------------------------------------------------------------
NAMED_CALLS = {"points": "case_points", "polygons": "case_polygons", "geodesics": "case_geodesics",
               "horospheres": "case_horospheres", "wrongdim": "case_wrongdim"}


def case_model_names(case):
    """case["call"] names the case function of this module that is run with the case (which carries "mname")."""
    res = globals()[NAMED_CALLS[case["call"]]](case)
    alias, form = case["mname"]
    for x in res["v"]:
        x["key"] = "model-name/%s/%s" % (form, x["key"])
        x["msg"] = "drawing built with model=%r: %s" % (lib_model(case["model"], case["mname"]), x["msg"])
    res["o"] = "%s:%s|%s|%s" % (alias, form, case["call"], res["o"])
    return res


def model_name_cases(pts, dirs):
    tfs = list(TFS)
    i = 0
    for model, aliases in MODEL_ALIASES.items():
        for alias in aliases:
            for form in NAME_FORMS:
                if form == "enum" and alias == aliases[0]:
                    continue                     # the canonical member: what every other section passes
                i += 1
                tf = tfs[i % len(tfs)]
                base = {"model": model, "mname": [alias, form], "tf": tf}
                items = [{"k": p, "shape": []} for p in pts[:3]] + [{"k": pts[:4], "shape": [2, 2]}]
                idl = [x for x in dirs if model != "halfspace" or
                       (not dg.is_infinity(transformed(tf, x)) and dg.angle_from_infinity(transformed(tf, x)) >= 0.2)]
                items += [{"k": x, "shape": [], "ideal": True} for x in idl[:2]]
                yield dict(base, call="points", items=items)
                tails = [[pts[j]] for j in (4, 8, 11)] + [[pts[5], pts[9]]]
                yield dict(base, call="polygons", head=[pts[0], pts[1]],
                           tails=[tl for tl in tails if nondegenerate([pts[0], pts[1]] + tl)])
                a = pts[i % 6]
                yield dict(base, call="geodesics", kind="segment", a=a, bs=[b for b in pts[:7] if b != a])
                a = dirs[i % len(dirs)]
                yield dict(base, call="geodesics", kind="geodesic", a=a, bs=[b for b in dirs if b != a])
                if model in CONFORMAL:
                    yield dict(base, call="horospheres", xi=dirs[(i + 1) % len(dirs)], refs=pts[:4])
                for kind in ("point", "polygon", "segment", "horosphere"):
                    if kind != "horosphere" or model in CONFORMAL:
                        yield dict(base, call="wrongdim", space="hyperbolic", kind=kind, n=3 if i % 2 else 1)


# ------------------------------------------------------------------------------------------
# alphabets
# ------------------------------------------------------------------------------------------
EXTRA_POINTS = [
    [0.3, 0.4], [-0.45, -0.6],      # collinear with the origin, off the axes
    [0.5, 0.25],                    # collinear with (0, .5) and the half-plane's point at infinity (1, 0)
    [-0.4, 0.0036],                 # with (.5, 0): disc circle radius ~ 500 (> RADIUS_THRESHOLD)
    [0.02, -0.6],                   # with (0, .5): radius ~ 110
    [0.06, -0.7],                   # with (0, .5): radius ~ 40 (< RADIUS_THRESHOLD)
    [0.52, 0.3],                    # with (0, .5): nearly vertical in the half-plane
]


# half-plane end points (model coordinates, Klein radius < 0.9) of edges that are far from vertical although their
# circle radius exceeds RADIUS_THRESHOLD = 80: (radius, |x_B - x_A|) = (87.8, 0.1), (94.3, 0.05), (135.4, 0.03)
HP_STRAIGHT = [([0.0, 0.3], [0.1, 4.2]), ([1.4, 0.9], [1.35, 3.2]), ([-0.6, 0.5], [-0.57, 2.9])]


def halfplane_straight_cases(sub):
    """Polygons and segments of the half-plane model with an edge of HP_STRAIGHT (after the drawing transform): the
    straight edge first, reversed, in the middle and last; third / fourth vertices from the lattice `sub`."""
    for tf in TFS:
        for (p, q) in HP_STRAIGHT:
            P, Q = [[float(c) for c in hyp.to_klein("halfspace", np.array(x))] for x in (p, q)]
            if TFS[tf] is not None:
                P, Q = preimage(tf, P), preimage(tf, Q)
            X = [x for x in sub[:8] if math.dist(x, P) >= MIN_SEP and math.dist(x, Q) >= MIN_SEP]
            base = {"model": "halfspace", "tf": tf}
            for head in ([P, Q], [Q, P]):
                tails = [[x] for x in X] + [[X[i], X[(i + 3) % len(X)]] for i in range(len(X))]
                yield dict(base, call="polygons", head=head, tails=[tl for tl in tails if nondegenerate(head + tl)])
            for x in X[:4]:
                tails = [[Q], [Q, X[-1]], [X[-1], Q]] if x != X[-1] else [[Q]]
                yield dict(base, call="polygons", head=[x, P], tails=[tl for tl in tails if nondegenerate([x, P] + tl)])
            yield dict(base, call="geodesics", kind="segment", a=P, bs=[Q] + X[:2])
            yield dict(base, call="geodesics", kind="segment", a=Q, bs=[P] + X[:2])


def infinity_polygon_violations(K, vs, cs, d, thr):
    """Half-plane polygon with exactly one vertex at the point at infinity (Klein (1,0)), the others interior points of
    the view: one continuous path (one MOVETO) that starts at the first vertex, passes the finite vertices in
    order and returns to the first vertex, where the vertex at infinity is a point above the top of the view on the
    vertical through the neighbouring finite vertex; every drawn point inside the view lies on an edge (a vertical ray,
    the arc, or the chord above RADIUS_THRESHOLD)."""
    site, model = "polygon-vertex-at-infinity", "halfspace"
    k = len(K)
    inf = [i for i in range(k) if dg.is_infinity(K[i])]
    assert len(inf) == 1
    i0 = inf[0]
    try:
        pcs = svgpath.pieces(vs, cs)
    except svgpath.PathError as e:
        return [V("%s/path-malformed" % site, str(e))]
    kinds = [p.kind for p in pcs]
    if not pcs or kinds[0] != "M" or kinds.count("M") != 1 or any(kd not in ("L", "C4", "Z") for kd in kinds[1:]):
        return [V("%s/codes" % site, "codes %s: expected one MOVETO followed by LINETO / CURVE4 pieces" % svgpath.code_summary(cs))]
    if not np.all(np.isfinite(np.asarray(vs, dtype=float))):
        return [V("%s/non-finite" % site, "the path has non-finite vertices")]
    top = float(d.ylim[1])
    Vm = {i: dg.model_coords(model, K[i]) for i in range(k) if i != i0}
    # a vertex reached through the circle parameters of an adjacent arc edge carries that edge's tol_arc(r)
    tolv = {i: 10 * tol_pt(Vm[i]) for i in Vm}
    circ = {}
    for e in range(k):
        a, b = e, (e + 1) % k
        if a != i0 and b != i0:
            circ[e] = dg.geodesic_circle(model, K[a], K[b])
            if circ[e][1] < thr * (1.0 + BAND):
                for i in (a, b):
                    tolv[i] = max(tolv[i], 10 * tol_pt(Vm[i]) + tol_arc(circ[e][1]))
    # edges and their tolerances
    edges = []
    for e in range(k):
        a, b = e, (e + 1) % k
        if a == i0 or b == i0:
            f = b if a == i0 else a
            edges.append(("ray", Vm[f], None, tolv[f]))
        else:
            c, r = circ[e]
            if r > thr * (1.0 - BAND):
                edges.append(("chord", Vm[a], Vm[b], tolv[a] + tolv[b]))
            if r < thr * (1.0 + BAND):
                edges.append(("arc", (c, r), (Vm[a], Vm[b]), tol_arc(r) + BEZ * r))
    out = []

    def at_vertex(P, i, nb):
        if i != i0:
            return bool(np.linalg.norm(P - Vm[i]) <= tolv[i])
        return bool(P[1] >= top and abs(P[0] - Vm[nb][0]) <= tolv[nb])
    P0, P1 = pcs[0].end, pcs[-1].end
    if not at_vertex(P0, 0, 1 % k):
        out.append(V("%s/start-vertex" % site, "the path starts at %s; the first vertex is %s" % (
            fmt(P0), "the point at infinity (expected: above the top y=%g of the view, over the second vertex %s)" % (top, fmt(Vm[1 % k])) if i0 == 0 else fmt(Vm[0]))))
    if not at_vertex(P1, 0, k - 1):
        out.append(V("%s/not-closed" % site, "the path ends at %s; the first vertex is %s" % (
            fmt(P1), "the point at infinity (expected: above the top of the view, over the last vertex %s)" % fmt(Vm[k - 1]) if i0 == 0 else fmt(Vm[0]))))
    seq = []
    for p in pcs:
        hits = [i for i in Vm if np.linalg.norm(p.end - Vm[i]) <= tolv[i]]
        if hits and (not seq or seq[-1] != hits[0]):
            seq.append(hits[0])
    want = [i for i in range(k) if i != i0] + ([0] if i0 != 0 else [])
    if seq != want:
        out.append(V("%s/vertex-order" % site, "the path passes the finite vertices in the order %s, expected %s" % (seq, want)))
    for p in pcs[1:]:
        for x in svgpath.sample_piece(p):
            if x[1] > top:
                continue
            best = None
            for kind, u, w, tol in edges:
                if kind == "ray":
                    dev = max(abs(x[0] - u[0]), max(0.0, u[1] - x[1]))
                elif kind == "chord":
                    dev = dg.dist_to_segment(x, u, w)
                else:
                    dev = max(dg.circle_arc_residual(u[0], u[1], w[0], w[1], x))
                best = dev / tol if best is None else min(best, dev / tol)
            if not (x[1] > 0 and best <= 1.0):
                out.append(V("%s/off-edge" % site, "%s piece: drawn point %s inside the view lies on no edge of the polygon (%.3g times the tolerance)" % (p.kind, fmt(x), best)))
                return out
    return out


def case_halfplane_infinity_polygons(case):
    """One figure (half-plane, identity transform); every polygon of case["polys"] has exactly one vertex at (1, 0)."""
    from geometry_tools import hyperbolic
    v, t, summ = [], 0, set()
    try:
        d = new_drawing("halfspace", "id")
        thr = threshold()
        for K in case["polys"]:
            K = np.array(K, dtype=float)
            poly = hyperbolic.Polygon(kpoint(K))
            before = all_artists()
            d.draw_polygon(pre_query(poly))
            t += 1
            new = new_artists(before)
            vv = located(new, d, 1, "polygon-vertex-at-infinity/halfspace")
            if not vv:
                vs, cs = data_path(new[0][0], new[0][1])
                vv = infinity_polygon_violations(K, vs, cs, d, thr)
                summ.add(svgpath.code_summary(cs))
            for x in vv:
                x["msg"] = "vertices (Klein) %s: %s" % (fmt(K), x["msg"])
            v += vv
    finally:
        close_all()
    return {"v": v[:6], "t": t, "o": "inf/" + ";".join(sorted(summ)), "nt": t > 0}


def halfplane_infinity_cases(sub):
    """Triangles and quadrilaterals with the half-plane's point at infinity as first, second, third (, last) vertex and the
    other vertices from the lattice (finite, in the view, abscissae >= 0.05 apart from each other)."""
    INF = [1.0, 0.0]
    H = {i: dg.model_coords("halfspace", np.array(sub[i])) for i in range(len(sub))}
    ok = [i for i in range(len(sub)) if abs(H[i][0]) <= VIEW_X]
    pairs = [(i, j) for i in ok for j in ok if i != j and abs(H[i][0] - H[j][0]) >= 0.05]
    for pos in range(3):
        polys = []
        for (i, j) in pairs:
            P = [sub[i], sub[j]]
            P.insert(pos, INF)
            polys.append(P)
        for s in range(0, len(polys), 40):
            yield {"polys": polys[s:s + 40]}
    quads = []
    for (i, j) in pairs[::5]:
        for l in ok:
            if l in (i, j) or min(abs(H[l][0] - H[i][0]), abs(H[l][0] - H[j][0])) < 0.05 or not nondegenerate([sub[i], sub[j], sub[l]]):
                continue
            for pos in (0, 2, 3):
                P = [sub[i], sub[j], sub[l]]
                P.insert(pos, INF)
                quads.append(P)
    for s in range(0, len(quads), 40):
        yield {"polys": quads[s:s + 40]}


# half-plane: FINITE vertices beyond the default view (x in (-6, 6), off-screen bounds +-7.2, y in (-0.1, 8)): they are ordinary
# vertices (only the point at infinity / ideal points are 'at infinity'), so an edge above RADIUS_THRESHOLD is the chord
HP_NEAR = [[0.0, 1.0], [3.0, 2.0], [-2.0, 0.5], [5.0, 4.0]]
HP_FAR = [[sx * x, y] for x in (20.0, 200.0) for sx in (1.0, -1.0) for y in (1.0, 100.0)]


def halfplane_offscreen_cases():
    """All ordered non-degenerate triangles over HP_NEAR + HP_FAR with at least one vertex of HP_FAR (identity drawing
    transform; vertices handed over in Klein coordinates like everywhere else), and all segments with one or both end
    points in HP_FAR."""
    pts = [[float(c) for c in hyp.to_klein("halfspace", np.array(x))] for x in HP_NEAR + HP_FAR]
    nn = len(HP_NEAR)
    base = {"model": "halfspace", "tf": "id", "offscreen": True}
    for i, j in itertools.permutations(range(len(pts)), 2):
        tails = [[pts[l]] for l in range(len(pts)) if l not in (i, j) and max(i, j, l) >= nn and nondegenerate([pts[i], pts[j], pts[l]])]
        yield dict(base, call="polygons", head=[pts[i], pts[j]], tails=tails)
    for i in range(len(pts)):
        yield dict(base, call="geodesics", kind="segment", a=pts[i], bs=[pts[j] for j in range(len(pts)) if j != i and max(i, j) >= nn])


def case_halfplane_offscreen(case):
    r = case_polygons(case) if case["call"] == "polygons" else case_geodesics(case)
    for x in r["v"]:
        x["key"] += "/offscreen-finite-vertex"
    return r


def case_halfplane_straight(case):
    r = case_polygons(case) if case["call"] == "polygons" else case_geodesics(case)
    for x in r["v"]:
        x["key"] += "/large-radius-non-vertical"
    return r


# ------------------------------------------------------------------------------------------
# half-plane drawings with a window of their own (constructor arguments xlim, ylim)
# ------------------------------------------------------------------------------------------
# x-ranges: the default, windows left / right of the origin, across it off-centre, narrow, far away; y-ranges
HPW_XLIMS = [None, [-6.0, 6.0], [-30.0, 2.0], [2.0, 30.0], [-30.0, -2.0], [-2.0, 30.0], [-3.0, 1.0], [100.0, 112.0], [-112.0, -100.0], [-50.0, 60.0]]
HPW_YLIMS = [None, [-0.1, 8.0], [-0.1, 3.0], [-1.0, 20.0]]
HPW_DEFAULT = ([-6.0, 6.0], [-0.1, 8.0])      # checked against drawing.xlim / drawing.ylim in every default case
HPW_FAR = 170.0                               # far end points: beyond the window by 2 widths + HPW_FAR (radius to any point of the window > 85)


def hpw_points(xlim, ylim):
    """End point alphabet (half-plane coordinates) of one window: [tag, x, y], tag 'oi' ideal point inside the x-range,
    'of' finite point inside the window, 'fi' ideal point far beyond it, 'ff' finite point far beyond it."""
    (x0, x1), (y0, y1) = xlim, ylim
    w = x1 - x0
    out = [["oi", x0 + f * w, 0.0] for f in (0.05, 0.3, 0.5, 0.75, 0.95)]
    out += [["of", x0 + f * w, y] for f, y in ((0.2, 1.0), (0.5, 0.6 * y1), (0.8, 0.25))]
    out += [["fi", x, 0.0] for x in (x1 + 2 * w + HPW_FAR, x0 - 2 * w - HPW_FAR, x1 + 2 * w + 3 * HPW_FAR, x0 - 2 * w - 3 * HPW_FAR)]
    out += [["ff", x1 + 2 * w + HPW_FAR, 1.0], ["ff", x0 - 2 * w - HPW_FAR, 1.0]]
    return out


def halfplane_window_cases(xlims, ylims):
    for xl in xlims:
        for yl in ylims:
            P = hpw_points(xl or HPW_DEFAULT[0], yl or HPW_DEFAULT[1])
            for a in P:
                bs = [b for b in P if b != a and not (a[0][0] == "f" and b[0][0] == "f")]
                yield {"xlim": xl, "ylim": yl, "a": a, "bs": bs}


def hp_circle(A, B):
    """Half-plane geodesic through A, B (model coordinates, ideal points at height 0): (centre abscissa, radius);
    (None, inf) for a vertical line."""
    dx = float(B[0] - A[0])
    if dx == 0.0:
        return None, math.inf
    c = (float(B[0] ** 2 + B[1] ** 2) - float(A[0] ** 2 + A[1] ** 2)) / (2.0 * dx)
    return c, math.hypot(A[0] - c, A[1])


def window_straight_violations(site, ta, A, tb, B, patch, ax, ylim):
    """Straight substitute in a window: one straight piece.  Both end points ordinary (inside the window, or finite):
    the chord.  One end an ideal point far beyond the window: the chord, or the vertical ray from the OTHER end point
    (the one that can be seen) to beyond the top of the view."""
    if type(patch).__name__ != "PathPatch":
        return [V("%s/straight/artist-type" % site, "expected the straight PathPatch, got %s" % type(patch).__name__)]
    vs, cs = data_path(patch, ax)
    try:
        pcs = [p for p in svgpath.pieces(vs, cs) if p.kind == "M" or p.length_bound() > 0.0]
    except svgpath.PathError as e:
        return [V("%s/path-malformed" % site, str(e))]
    if [p.kind for p in pcs] != ["M", "L"]:
        return [V("%s/straight/codes" % site, "codes %s, expected MOVETO LINETO" % svgpath.code_summary(cs))]
    P, Q = pcs[1].start, pcs[1].end
    # ideal points and the far points (conditioning of the chart ~ x^2): tol_ideal; finite points of the window: tol_pt
    tA = tol_ideal(A) if (A[1] == 0.0 or ta[0] == "f") else tol_pt(A)
    tB = tol_ideal(B) if (B[1] == 0.0 or tb[0] == "f") else tol_pt(B)

    def chord(P, Q):
        return np.linalg.norm(P - A) <= tA and np.linalg.norm(Q - B) <= tB

    def ray(P, Q, O, tO):
        return np.linalg.norm(P - O) <= tO and abs(Q[0] - O[0]) <= tO and Q[1] >= ylim[1]
    ok = chord(P, Q) or chord(Q, P)
    want = "the chord"
    for (tf_, O, tO) in ((tb, A, tA), (ta, B, tB)):
        if tf_ == "fi":
            want = "the chord, or the vertical ray from %s to beyond the top of the view y=%g" % (fmt(O), ylim[1])
            ok = ok or ray(P, Q, O, tO) or ray(Q, P, O, tO)
    if not ok:
        return [V("%s/straight/anchor" % site, "drawn %s -> %s; expected %s" % (fmt(P), fmt(Q), want))]
    return []


def case_halfplane_window(case):
    """One half-plane figure with the window of the case (xlim / ylim handed to the constructor, None = default); a
    segment (two ideal end points: also the geodesic) from case["a"] to every end point of case["bs"], each drawn by a
    draw_geodesic call of its own.  End points are handed over in half-plane coordinates."""
    import matplotlib.pyplot as plt
    from geometry_tools import drawtools, hyperbolic
    site = "window/geodesic"
    v, summ, t = [], set(), 0
    xl, yl = case["xlim"], case["ylim"]
    try:
        plt.close("all")
        kw = {}
        if xl is not None:
            kw["xlim"] = tuple(xl)
        if yl is not None:
            kw["ylim"] = tuple(yl)
        d = drawtools.HyperbolicDrawing(model=lib_model("halfspace"), **kw)
        _decoy_axes(plt)
        wx, wy = xl or HPW_DEFAULT[0], yl or HPW_DEFAULT[1]
        if [float(x) for x in d.xlim] != wx or [float(y) for y in d.ylim] != wy or \
                [float(x) for x in d.ax.get_xlim()] != wx or [float(y) for y in d.ax.get_ylim()] != wy:
            v.append(V("window/limits", "drawing.xlim, ylim = %s, %s, axes limits %s, %s; the window is %s x %s" % (
                d.xlim, d.ylim, d.ax.get_xlim(), d.ax.get_ylim(), wx, wy)))
        thr = threshold()
        ta, A = case["a"][0], np.array(case["a"][1:], dtype=float)

        def hpoint(X):
            return hyperbolic.Point(np.array(X, dtype=float), model=lib_model("halfspace"))
        for b in case["bs"]:
            tb, B = b[0], np.array(b[1:], dtype=float)
            c, r = hp_circle(A, B)
            if thr * (1.0 - BAND) <= r <= thr * (1.0 + BAND):
                summ.add("skipped:band")
                continue
            kinds = ["segment"] + (["geodesic"] if A[1] == 0.0 and B[1] == 0.0 else [])
            for kind in kinds:
                obj = (hyperbolic.Segment if kind == "segment" else hyperbolic.Geodesic)(hpoint(A), hpoint(B))
                before = all_artists()
                d.draw_geodesic(pre_query(obj))
                t += 1
                new = new_artists(before)
                vv = located(new, d, 1, site)
                if not vv:
                    art, ax = new[0]
                    if r > thr:
                        vv = window_straight_violations(site, ta, A, tb, B, art, ax, wy)
                        summ.add("S:%s-%s" % (ta, tb))
                    else:
                        S, E = (A, B) if A[0] > B[0] else (B, A)        # counter-clockwise in the upper half-plane: from the right end
                        tolp = tol_arc(r) + max(tol_ideal(A), tol_ideal(B))
                        vv = arc_patch_check("halfspace", np.array([c, 0.0]), r, S, E, None, art, site, tolp)
                        summ.add("A:%s-%s" % (ta, tb))
                for x in vv:
                    x["msg"] = "window %s x %s, %s %s - %s (half-plane coordinates, circle radius %.6g): %s" % (wx, wy, kind, fmt(A), fmt(B), r, x["msg"])
                v += vv
    finally:
        close_all()
    return {"v": v[:6], "t": t, "o": "%s/%s/%s/" % (xl, yl, ta) + ";".join(sorted(summ)), "nt": any(s[0] in "SA" for s in summ)}


def point_lattice(seed, m_generic):
    """Corner + generic points of mc.lattice plus the special points; a point closer than MIN_SEP to
    an earlier one is dropped (short edges are a conditioning question, not a drawing question)."""
    cand = [list(map(float, p)) for p in lattice.klein_points(2, m_generic=m_generic + 4, seed=seed)]
    corner, generic = cand[:8], cand[8:]
    pts = []
    for p in corner + [[float(x) for x in e] for e in EXTRA_POINTS] + generic:
        if len(pts) < 8 + len(EXTRA_POINTS) + m_generic and all(math.dist(p, q) >= MIN_SEP for q in pts):
            pts.append(p)
    return pts


def nondegenerate(K):
    K = np.asarray(K, dtype=float)
    k = len(K)
    for i in range(k):
        for j in range(i + 1, k):
            if np.linalg.norm(K[i] - K[j]) < 1e-9:
                return False
    d = K[1:] - K[0]
    return bool(np.linalg.matrix_rank(d, tol=1e-12) == 2)


def polygon_cases(pts, sizes, combos):
    """cases (model, tf, head = first two vertices) x tails = all ordered (k-2)-tuples of the other
    points, non-degenerate tuples only."""
    idx = range(len(pts))
    for (model, tf) in combos:
        for i, j in itertools.permutations(idx, 2):
            rest = [x for x in idx if x not in (i, j)]
            for k in sizes:
                tails = []
                for tl in itertools.permutations(rest, k - 2):
                    K = [pts[i], pts[j]] + [pts[x] for x in tl]
                    if nondegenerate(K):
                        tails.append([pts[x] for x in tl])
                # bounded batches: one figure per at most 60 polygons
                for s in range(0, len(tails), 60):
                    yield {"model": model, "tf": tf, "head": [pts[i], pts[j]], "tails": tails[s:s + 60]}


def proj_lattice():
    base = [[1.0, 0.5, -0.3], [2.0, -1.0, 0.7], [-1.0, 0.4, 0.6], [0.5, 1.5, -2.0], [1.0, 1.0, 1.0],
            [-0.3, 0.8, 1.2], [1.5, -0.2, 0.9], [-2.0, -0.7, 0.4]]
    return base


def proj_ok(tf, X):
    Y = ptransformed(tf, np.asarray(X, dtype=float).reshape(-1, 3))
    return bool(np.all(np.abs(Y) >= 0.05 * np.linalg.norm(Y, axis=-1, keepdims=True)))


# composites drawn by one call: members are picked from two pools, S (drawn straight: oracle circle radius
# not finite or > S_MIN) and A (drawn as arcs: radius < A_MAX); the margins around RADIUS_THRESHOLD (80)
# keep the pools independent of the threshold band (the case functions classify with the real threshold)
S_MIN, A_MAX = 200.0, 40.0


def preimage(tf, x, ideal=False):
    """Klein coordinates of the point that the drawing transform tf sends to x."""
    y = dg.apply_klein(np.linalg.inv(np.asarray(TFS[tf], dtype=float)), np.asarray(x, dtype=float))
    if ideal:
        y = y / np.linalg.norm(y)
    return [float(c) for c in y]


def radius_class(model, ka, kb):
    r = dg.geodesic_circle("poincare" if model == "klein" else model, ka, kb)[1]
    if not math.isfinite(r) or r > S_MIN:
        return "S"
    return "A" if r < A_MAX else None


def alphabets(tf, X, ideal=False):
    """The alphabet itself and, for a non-trivial drawing transform, its preimage (so that the special
    configurations - diameters, half-plane verticals, nearly straight arcs - occur AFTER the transform too)."""
    out = [[list(map(float, x)) for x in X]]
    if TFS[tf] is not None:
        out.append([preimage(tf, x, ideal) for x in X])
    return out


def geodesic_pools(model, tf, kind, X):
    pools = {"S": [], "A": []}
    for grp in alphabets(tf, X, kind == "geodesic"):
        T = [transformed(tf, x) for x in grp]
        # half-plane: the point at infinity only exactly (a preimage comes back as (1, 1e-16): out of the domain)
        bad = [kind == "geodesic" and model == "halfspace" and dg.angle_from_infinity(t) < 0.1 and not (t[0] == 1.0 and t[1] == 0.0) for t in T]
        for i in range(len(grp)):
            for j in range(len(grp)):
                if i != j and not bad[i] and not bad[j] and geodesic_in_domain(model, kind, T[i], T[j]):
                    c = radius_class(model, T[i], T[j])
                    if c:
                        pools[c].append([grp[i], grp[j]])
    return pools


def polygon_pools(model, tf, X):
    """Ordered non-degenerate triangles of X (and of its preimage): S = at least one straight edge and
    no edge between the margins, A = arcs only."""
    pools = {"S": [], "A": []}
    for grp in alphabets(tf, X):
        T = [transformed(tf, x) for x in grp]
        n = len(grp)
        if model == "halfspace":
            H = dg.model_coords(model, np.array(T))
            usable = [i for i in range(n) if abs(H[i, 0]) <= VIEW_X]
        else:
            usable = list(range(n))
        cls = {(i, j): radius_class(model, T[i], T[j]) for i in usable for j in usable if i != j}
        for i, j, k in itertools.permutations(usable, 3):
            e = (cls[(i, j)], cls[(j, k)], cls[(k, i)])
            u, w = T[j] - T[i], T[k] - T[i]
            if None in e or abs(u[0] * w[1] - u[1] * w[0]) < 1e-3:
                continue
            pools["S" if "S" in e else "A"].append([grp[i], grp[j], grp[k]])
    return pools


def stride(L):
    return next(q for q in (7, 11, 13, 17, 19, 23) if L % q)


def compose(pools, pattern, i, same):
    """The i-th composite of a pattern over {S, A}: member j is the (i*q + 5*j)-th element of its pool
    (q coprime to the pool size), moved on to the next element that is not `same` as an earlier member."""
    out = []
    for j, c in enumerate(pattern):
        P = pools[c]
        L = len(P)
        k = (i * stride(L) + 5 * j) % L
        for _ in range(L):
            if not any(same(P[k], m) for m in out):
                break
            k = (k + 1) % L
        else:
            return None
        out.append(P[k])
    return out


def same_pair(m1, m2):
    return sorted(map(tuple, m1)) == sorted(map(tuple, m2))


def composite_cases(pools_of, combos, lengths, R, same, extra):
    """cases: one per (model, tf[, kind]) and pattern over {S, A}^n, n in lengths, that the pools can
    serve; R composites per case, the running index continues from pattern to pattern."""
    for key in combos:
        pools = pools_of(*key)
        i = 0
        for n in lengths:
            for pat in itertools.product("SA", repeat=n):
                if any(len(pools[c]) < pat.count(c) for c in set(pat)):
                    continue
                comps = []
                for _ in range(R):
                    c = compose(pools, pat, i, same)
                    i += 1
                    if c is not None:
                        comps.append(c)
                if comps:
                    yield dict(extra(*key), pattern="".join(pat), composites=comps)


THIN_LENGTHS = [3e-3, 1e-3, 3e-4]


def convex_ccw(P, L):
    """The points P in counter-clockwise order about their centroid when that is a strictly convex polygon whose
    every turn has sine > 0.1 L (a thin triangle's far angle is about L); None otherwise."""
    P = np.asarray(P, dtype=float)
    g = P.mean(axis=0)
    P = P[np.argsort(np.arctan2(P[:, 1] - g[1], P[:, 0] - g[0]))]
    k = len(P)
    for i in range(k):
        u, w = P[(i + 1) % k] - P[i], P[(i + 2) % k] - P[(i + 1) % k]
        if u[0] * w[1] - u[1] * w[0] <= 0.1 * L * math.hypot(*u) * math.hypot(*w):
            return None
    return P


def thin_polygons(R, phi, L, psi, full):
    """Convex polygons (Klein coordinates) with a short edge of Klein length L from the point A at radius R, angle phi,
    in the direction psi (measured from the outward radius; the edge points inwards) and far vertices F(a) at radius
    rho = 0.9 (R > 0.6) or 0.6, angle phi + a; a second short edge, where present, leaves a far vertex the same way.
    Shapes: T1 triangle / Q2 quadrilateral with two short edges / P2 pentagon with two short edges [/ Q1, P1 with one].
    Every shape in every rotation of its vertex list and both orientations: list of (tag, vertex list)."""
    def polar(r, a):
        return np.array([r * math.cos(a), r * math.sin(a)])

    def short_from(P, a):
        return P + L * (math.cos(psi) * polar(1.0, a) + math.sin(psi) * polar(1.0, a + 0.5 * math.pi))
    rho = 0.9 if R > 0.6 else 0.6
    A = polar(R, phi)
    B = short_from(A, phi)

    def F(a):
        return polar(rho, phi + a)

    def D(a):
        return short_from(F(a), phi + a)
    shapes_ = [("T1", [A, B, F(2.4)]), ("Q2", [A, B, F(2.6), D(2.6)]), ("P2", [A, B, F(1.7), F(-2.5), D(-2.5)])]
    if full:
        shapes_ += [("Q1", [A, B, F(1.9), F(-2.3)]), ("P1", [A, B, F(1.6), F(3.0), F(-2.0)])]
    out = []
    for tag, P in shapes_:
        C = convex_ccw(P, L)
        if C is None:
            continue
        k = len(C)
        for o, Q in (("+", C), ("-", C[::-1])):
            for s in range(k):
                out.append((tag + o, [[float(x) for x in Q[(s + i) % k]] for i in range(k)]))
    return out


def thin_cases(seed, full):
    """cases of the thin-polygon section: model x drawing transform x group (the polygons as designed / their preimage
    under the drawing transform, so that the design is what is drawn) x position x short length."""
    g = lattice.generic_dir(2, 0, seed)
    phi0 = math.atan2(float(g[1]), float(g[0]))
    phis = [phi0 + 2.0 * math.pi * i / 6.0 for i in range(6)] if full else [phi0, phi0 + 2.2]
    psis = [math.pi, 1.9, 2.6, 4.2] if full else [math.pi, 1.9]
    radii = [0.15, 0.3, 0.6, 0.9] if full else [0.3, 0.9]
    for model in CONFORMAL:
        for tf in TFS:
            for grp in (("design", "preimage") if TFS[tf] is not None else ("design",)):
                for R in radii:
                    for L in THIN_LENGTHS:
                        polys = []
                        for phi in phis:
                            for psi in psis:
                                for tag, P in thin_polygons(R, phi, L, psi, full):
                                    polys.append(P if grp == "design" else [preimage(tf, x) for x in P])
                        for s in range(0, len(polys), 48):
                            yield {"model": model, "tf": tf, "tag": "%s/R%g/L%g" % (grp, R, L), "polys": polys[s:s + 48]}


def histories(pair, depth):
    """All transform histories of length 0..depth: op sequences over HIST_OPS with 'ctor' (the constructor's transform=
    argument) only in the first place; the i-th op takes pair[i % 2]; every sequence also with the pair swapped."""
    out = [[]]
    for n in range(1, depth + 1):
        for ops in itertools.product(HIST_OPS, repeat=n):
            if "ctor" in ops[1:]:
                continue
            for names in (list(pair), list(pair)[::-1]):
                out.append([[op, names[i % 2]] for i, op in enumerate(ops)])
    return out


def chart_rep(tf, chart, P):
    """The representative of the vertex tuple P (rows) whose images under the drawing transform all have a
    positive chart coordinate: that polygon lies inside the chart."""
    Y = ptransformed(tf, np.asarray(P, dtype=float))
    return [[float(c) for c in (np.sign(y[chart]) * np.asarray(p, dtype=float))] for p, y in zip(P, Y)]


def scaled(P, lam, mus=None):
    mus = [1.0] * len(P) if mus is None else mus
    return [[float(lam * mu * c) for c in p] for p, mu in zip(P, mus)]


def projective_rep_items(tf, chart, aa, tuples, tris):
    """Single polygons and collections, as explicit homogeneous coordinates.
    Scales: lattice.LAMBDAS (1, -1, 2.5, -0.3) per polygon; per vertex the moduli of LAMBDAS (legal for both
    settings) and, with assume_affine=True only, LAMBDAS themselves (a negative factor at one vertex changes
    the polygon that assume_affine=False is asked to draw)."""
    L = lattice.LAMBDAS
    items = []
    for P in tuples:
        B = chart_rep(tf, chart, P)
        k = len(B)
        for a, lam in enumerate(L):
            items.append(scaled(B, lam))
            items.append(scaled(B, lam, [abs(L[(a + 1 + i) % len(L)]) for i in range(k)]))
            if aa:
                items.append(scaled(B, lam, [L[(a + i) % len(L)] for i in range(k)]))
    T = [chart_rep(tf, chart, P) for P in tris]
    for a, b in itertools.permutations(range(len(T)), 2):
        for la in L:
            for lb in L:
                items.append([scaled(T[a], la), scaled(T[b], lb)])
    mags = [1.0, 2.5, 0.3]
    for r in range(3):
        order = [(r + i) % 3 for i in range(3)]
        for sg in itertools.product([1.0, -1.0], repeat=3):
            items.append([scaled(T[o], sg[i] * mags[i]) for i, o in enumerate(order)])
    # one member leaves the chart (its middle vertex has the other sign): listed first / in the middle / last
    for pos in range(3):
        for sg in itertools.product([1.0, -1.0], repeat=2):
            out = scaled(T[pos], 1.0, [1.0, -1.0, 1.0])
            ins = [scaled(T[o], sg[i]) for i, o in enumerate(x for x in range(3) if x != pos)]
            items.append(ins[:pos] + [out] + ins[pos:])
    return items


# ------------------------------------------------------------------------------------------
def run(ctx):
    q = ctx.quick
    only = getattr(ctx, "only", None)

    def product(name, *a, **kw):
        if only and not any(name.startswith(p) for p in only):
            return None
        return ctx.product(name, *a, **kw)
    ctx.rule = ("every drawing call is made on a fresh HyperbolicDrawing/ProjectiveDrawing (one figure per case, calls "
                "made one at a time, new artist located by diffing the artists of all open axes); cases = model x drawing "
                "transform x all ordered vertex tuples / point pairs / centre-reference pairs of the lattices; composites of 3..4 members drawn by "
                "one call for every straight/arc pattern; projective polygons by every listed scaling of their homogeneous representatives; thin polygons "
                "(one or two very short edges) at every listed position / direction / rotation / orientation; transform histories = every op sequence "
                "up to the stated length over constructor transform / set_transform / add_transform / precompose_transform with non-commuting maps; a case is "
                "non-trivial when at least one drawn object has a curved (arc) edge or a Klein/projective vertex list")
    ctx.assume("objects are 2-dimensional with float coordinates; polygon vertices pairwise distinct, not all collinear, "
               "at Klein radius <= 0.9 before the drawing transform (<= 0.97 after), pairwise >= 0.05 apart in Klein coordinates - except in the section polygons-thin - "
               "(the library's DISTANCE_THRESHOLD for chaining arcs is 1e-4 in model coordinates, and the ideal end points of a "
               "segment of Klein length d carry a relative error ~1e-8/d)")
    ctx.assume("composites drawn by one call: members pairwise different (as unordered end point pairs / vertex sets), each member in the "
               "domain of its single drawing; members are taken from the lattice and, under a non-trivial drawing transform, also from the "
               "preimage of the lattice (Klein radius <= 0.97 before, <= 0.9 after the transform); the half-plane's point at infinity occurs "
               "only as the exact vector (1, 0) after the transform")
    ctx.assume("half-plane: finite vertices/end points have |x| <= 7 (inside the default view's off-screen bounds +-7.2; beyond them only in the section "
               "halfplane-offscreen-vertices); ideal points are the point at infinity exactly or >= 0.1 rad away from it; other tuples are skipped and counted as 'skipped'")
    ctx.assume("edges whose oracle circle radius lies within 1e-4 (relative) of RADIUS_THRESHOLD may be drawn either way")
    ctx.assume("above RADIUS_THRESHOLD the accepted straight substitute is the chord between the two end points, in both conformal models "
               "(it starts and ends at the vertices / end points); in the half-plane the vertical ray to beyond the top of the view when one end is the point at infinity")
    ctx.assume("horospheres of half-plane radius >= RADIUS_THRESHOLD with finite centre: nothing demanded (substituted by a rectangle)")
    ctx.assume("the order of the artists of a composite object and of the data points of a composite point is not fixed by the property")
    ctx.assume("colours, z-order, line styles are not examined")
    ctx.tolerances["bezier"] = ("Euclidean delta = 5e-4*r*(theta/45deg)^6 + tol_arc(r) for the sampled points of a CURVE4 piece that spans the angle "
                                "theta of a drawn arc of radius r; straight pieces on an arc edge get tol_arc(r) only.  5e-4*r is DESIGN 4's "
                                "accuracy class of matplotlib's Bezier circle approximation at its largest piece (Path.arc splits an arc into "
                                "2^ceil(extent/90deg) pieces, at most 45 degrees each); the cubic arc approximation is sixth-order accurate: "
                                "measured with this module's de Casteljau evaluator the radial error is 2.9e-5*r*(theta/45deg)^6 within 7% "
                                "for theta from 2 to 90 degrees, so the allowance keeps a factor 16 at every piece angle.  A realistic defect "
                                "(arc not reversed, chord instead of arc, wrong end point) is off by the sagitta or the size of the edge")
    ctx.tolerances["on-edge (metric)"] = (
        "for a sampled point x at Euclidean distance <= delta (see bezier) from the true edge: hyperbolic distance from "
        "the geodesic line <= rho*delta + 1e-6 and d(A,x)+d(x,B)-d(A,B) <= 2*(rho*delta + 1e-6), rho = sup of the conformal "
        "factor (2/(1-|x|^2), 1/y) on the delta-ball around x [triangle inequality: the excess is at most twice the distance "
        "to the edge; 1e-6 = arccosh-near-1 class]; when the delta-ball leaves the model the Euclidean circle residual <= delta is used")
    ctx.tolerances["tol_arc"] = "1e-6*(1+r)^2 for positions obtained from circle parameters (sqrt-eps class of DESIGN 4: ideal end points pass through sqrt(1-|k|^2), amplified by the half-plane chart ~ r^2)"
    ctx.tolerances["tol_pt"] = "1e-9*(1+|v|) for directly computed model/affine coordinates"
    ctx.tolerances["tol_ideal"] = "1e-6*(1+|v|)^2 for coordinates of ideal points"
    ctx.tolerances["arc angles"] = "tol_arc(r)/r radians"

    seed = ctx.seed
    pts = point_lattice(seed, 1 if q else 12)          # 8 corner + 7 special + generic: 16 / 27 points
    sub = point_lattice(seed, 1)
    combos = [(m, t) for m in MODELS for t in TFS]
    dom = {"models": MODELS, "transforms": list(TFS), "lattice": pts}

    product("polygons-3", "checks.c19:case_polygons", polygon_cases(pts, [3], combos),
                domains=dict(dom, tuples="all ordered non-degenerate vertex triples of a %d-point Klein lattice" % len(pts)), chunk=4)
    sub4 = [sub[i] for i in (0, 1, 4, 5, 8, 11)] if q else [sub[i] for i in (0, 1, 2, 4, 5, 7, 8, 11, 12)]
    product("polygons-4-5", "checks.c19:case_polygons", polygon_cases(sub4, [4] if q else [4, 5], combos),
                domains={"sub-lattice": sub4, "tuples": "all ordered non-degenerate %s-tuples, convex or not" % ("4" if q else "4- and 5")}, chunk=2)
    if not q:
        big = [sub[i] for i in (0, 1, 4, 5, 7, 8, 11, 12)]
        cases = []
        for (model, tf) in combos:
            for k in (6, 7, 8):
                P = big[:k] if k < 8 else big
                for j in range(1, k):
                    rest = [x for x in range(k) if x not in (0, j)]
                    tails = [[P[x] for x in tl] for tl in itertools.permutations(rest)
                             if nondegenerate([P[0], P[j]] + [P[x] for x in tl])]
                    for s in range(0, len(tails), 40):
                        cases.append({"model": model, "tf": tf, "head": [P[0], P[j]], "tails": tails[s:s + 40]})
        product("polygons-6-7-8", "checks.c19:case_polygons", cases,
                    domains={"sub-lattice": big, "tuples": "all orderings, first vertex fixed, of the first 6, the first 7 and all 8 points"}, chunk=2)
    # thin polygons: one or two edges of Klein length 3e-3 .. 3e-4
    ctx.assume("thin polygons (section polygons-thin; convex, 3..5 vertices, one or two edges of Klein length 3e-3, 1e-3 or 3e-4, all other "
               "edges long): demanded when, after the drawing transform, the vertices lie at Klein radius <= 0.97 and in the half-plane view, the "
               "shortest edge is longer than 1.5 DISTANCE_THRESHOLD in model coordinates, and every edge's position tolerance - tol_arc(r) "
               "(tol_pt for a straight substitute) + 1e-8/d, d the shortest Klein edge length: the conditioning of the ideal end points of a "
               "short segment - is at most 1/%g of the shortest model edge; other polygons are skipped and counted "
               "('skipped:ill-conditioned' etc.)" % THIN_MARGIN)
    ctx.tolerances["thin polygons"] = ("all position tolerances of the polygon clauses + 1e-8/d (see assumptions); vertex-order: a path node is "
                                       "at a vertex when within the larger position tolerance of the two edges there (<= 1/4 of the shortest edge)")
    tc = list(thin_cases(seed, not q))
    product("polygons-thin", "checks.c19:case_thin_polygons", tc,
            domains={"models": CONFORMAL, "transforms": list(TFS), "groups": "the polygons as designed; their preimage under the drawing transform",
                     "short edge": {"Klein length": THIN_LENGTHS, "from radius": [0.15, 0.3, 0.6, 0.9] if not q else [0.3, 0.9],
                                    "positions": "6 angles" if not q else "2 angles", "directions": 4 if not q else 2},
                     "shapes": "triangle, quadrilateral and pentagon with one or two short edges (%s), every rotation of the vertex list, both orientations"
                               % ("T1 Q2 P2 Q1 P1" if not q else "T1 Q2 P2")}, chunk=1)

    # composites: two polygons in one call
    comp = []
    tri = [[pts[0], pts[1], pts[8]], [pts[3], pts[5], pts[9]], [pts[2], pts[10], pts[4]], [pts[7], pts[6], pts[1]]]
    for (model, tf) in combos:
        for a, b in itertools.permutations(range(len(tri)), 2):
            comp.append({"model": model, "tf": tf, "polys": [tri[a], tri[b]]})
    product("polygon-composites", "checks.c19:case_polygon_composite", comp,
                domains={"composites": "all ordered pairs of %d triangles as one (2,)-composite" % len(tri)}, chunk=4)

    pc3 = list(composite_cases(lambda m, t: polygon_pools(m, t, sub), combos, [3], 4 if q else 16, same_pair,
                               lambda m, t: {"model": m, "tf": t}))
    product("polygon-composites-3", "checks.c19:case_polygon_composites", pc3,
                domains={"members per call": 3, "patterns": "all of {S, A}^3: S = triangle with an edge drawn straight (above RADIUS_THRESHOLD, "
                         "a diameter, a half-plane vertical) after the drawing transform, A = arcs only",
                         "pools": "all ordered non-degenerate triangles of the %d-point lattice and of its preimage under the drawing transform" % len(sub),
                         "composites per pattern": 4 if q else 16}, chunk=2)

    # geodesics / segments
    dirs = [[1.0, 0.0]] + [list(map(float, x)) for x in lattice.ideal_dirs(2, m_generic=2 if q else 6, seed=seed)]
    gc = []
    for (model, tf) in combos:
        for a in pts:
            gc.append({"model": model, "tf": tf, "kind": "segment", "a": a, "bs": [b for b in pts if b != a]})
        for a in dirs:
            gc.append({"model": model, "tf": tf, "kind": "geodesic", "a": a, "bs": [b for b in dirs if b != a]})
    product("geodesics", "checks.c19:case_geodesics", gc,
                domains={"segments": "all ordered pairs of the %d-point lattice" % len(pts),
                         "geodesics": "all ordered pairs of %d ideal directions incl. antipodal pairs and the point at infinity" % len(dirs),
                         "ideal directions": dirs}, chunk=4)

    # half-plane: edges above RADIUS_THRESHOLD that are far from vertical
    product("halfplane-straight-edges", "checks.c19:case_halfplane_straight", list(halfplane_straight_cases(sub)),
            domains={"model": "halfspace", "transforms": list(TFS), "straight edges (half-plane coordinates, after the drawing transform)": HP_STRAIGHT,
                     "polygons": "the edge first / reversed with every third vertex of 8 lattice points and quadrilaterals; the edge in the middle and last",
                     "segments": "the edge in both directions", "keys": "the polygon / geodesic keys with the suffix /large-radius-non-vertical"}, chunk=2)

    ctx.assume("half-plane, section halfplane-offscreen-vertices: finite vertices / segment end points beyond the default view (x = +-20, +-200, y = 1, 100; "
               "Klein radius up to 0.99997) are ordinary vertices: the path visits them, an edge above RADIUS_THRESHOLD is the chord between its two end points")
    product("halfplane-offscreen-vertices", "checks.c19:case_halfplane_offscreen", list(halfplane_offscreen_cases()),
            domains={"model": "halfspace", "transform": "id", "vertices in the view (half-plane coordinates)": HP_NEAR, "vertices beyond the view": HP_FAR,
                     "polygons": "all ordered non-degenerate triangles over the %d points with at least one vertex beyond the view" % (len(HP_NEAR) + len(HP_FAR)),
                     "segments": "all ordered pairs with at least one end point beyond the view",
                     "keys": "the polygon / geodesic keys with the suffix /offscreen-finite-vertex"}, chunk=2)

    ctx.assume("half-plane polygons with one vertex at the point at infinity (section halfplane-vertex-at-infinity; the other vertices interior points of the view "
               "with abscissae >= 0.05 apart): the vertex at infinity is drawn as a point above the top of the view on the vertical through the neighbouring "
               "finite vertex; the path may jump between the two verticals above the top of the view only")
    hic = list(halfplane_infinity_cases(sub[:10]))
    product("halfplane-vertex-at-infinity", "checks.c19:case_halfplane_infinity_polygons", hic,
            domains={"model": "halfspace", "transform": "id", "polygons": "triangles (inf, A, B), (A, inf, B), (A, B, inf) for all ordered pairs A, B of 10 lattice points; "
                     "quadrilaterals with the vertex at infinity first, third, last for every 5th pair and every third point",
                     "clauses": ["one MOVETO", "starts and ends at the first vertex", "finite vertices in order", "every drawn point inside the view on an edge"]}, chunk=1)

    # half-plane drawings with a window of their own
    ctx.assume("half-plane, section halfplane-window (identity transform, end points handed over in half-plane coordinates): the drawing's window is the "
               "constructor's xlim x ylim; end points are ideal or finite points inside the window, or ideal / finite points beyond it by more than two "
               "window widths + %g (never both).  Below RADIUS_THRESHOLD: the Arc of the geodesic.  Above: the chord between the two end points; when one end "
               "is an ideal point far beyond the window also the vertical ray from the other (visible) end point to beyond the top of the view" % HPW_FAR)
    hwy = [None, [-0.1, 3.0]] if q else HPW_YLIMS
    hwc = list(halfplane_window_cases(HPW_XLIMS, hwy))
    product("halfplane-window", "checks.c19:case_halfplane_window", hwc,
            domains={"model": "halfspace", "transform": "id", "xlim": HPW_XLIMS, "ylim": hwy, "default window": HPW_DEFAULT,
                     "end points per window": "5 ideal points inside the x-range (at 5, 30, 50, 75, 95 %), 3 finite points inside the window, 4 ideal and 2 finite points "
                                              "far beyond it on either side",
                     "objects": "segments for all ordered pairs (not both far), and the geodesic for every pair of ideal points; one draw_geodesic call each"}, chunk=4)

    # composites: 3 or 4 segments / geodesics in one call
    R = 6 if q else 24
    gcc = list(composite_cases(lambda m, t, kd: geodesic_pools(m, t, kd, pts if kd == "segment" else dirs),
                               [(m, t, kd) for (m, t) in combos for kd in ("segment", "geodesic")], [3, 4], R, same_pair,
                               lambda m, t, kd: {"model": m, "tf": t, "kind": kd}))
    product("geodesic-composites", "checks.c19:case_geodesic_composites", gcc,
                domains={"members per call": [3, 4], "patterns": "all of {S, A}^3 and {S, A}^4 (straight member first / in the middle / last / absent / several / all): "
                         "S = drawn straight after the drawing transform (diameter, half-plane vertical or to infinity, radius > %g), A = arc of radius < %g" % (S_MIN, A_MAX),
                         "pools": "all ordered pairs of the %d-point lattice (segments) / of the %d ideal directions (geodesics) and of their preimages under the drawing transform" % (len(pts), len(dirs)),
                         "composites per pattern": R}, chunk=4)

    # points
    pc = []
    for (model, tf) in combos:
        items = [{"k": p, "shape": []} for p in pts]
        items.append({"k": pts, "shape": [len(pts)]})
        items.append({"k": pts[:6], "shape": [2, 3]})
        items.append({"k": pts[:8], "shape": [2, 2, 2]})
        idl = [x for x in dirs if model != "halfspace" or
               (not dg.is_infinity(transformed(tf, x)) and dg.angle_from_infinity(transformed(tf, x)) >= 0.2)]
        items += [{"k": x, "shape": [], "ideal": True} for x in idl]
        items.append({"k": idl, "shape": [len(idl)], "ideal": True})
        pc.append({"model": model, "tf": tf, "items": items})
    product("points", "checks.c19:case_points", pc,
                domains={"points": "every lattice point singly, the whole lattice as one composite, (2,3) and (2,2,2) composites, ideal points"}, chunk=1)

    # model names
    ctx.assume("model names: a HyperbolicDrawing may be given its model as any member of hyperbolic.Model naming a drawable model (aliases "
               "KLEINIAN, AFFINE -> Klein; HALFPLANE -> half-plane) or as a string equal to a member NAME in upper, lower, capitalised or mixed case "
               "(Model: 'compared to strings ... match any alias name (case insensitive)'; the drawtools docstring passes strings); the other "
               "sections pass the canonical member")
    mn = list(model_name_cases(sub, dirs))
    product("model-names", "checks.c19:case_model_names", mn,
            domains={"names": MODEL_ALIASES, "forms of each name": NAME_FORMS, "transforms": "cycling through %s with the name" % list(TFS),
                     "calls per name": "draw_point (3 points, a (2,2) composite, 2 ideal points), draw_polygon (3 triangles, 1 quadrilateral), "
                                       "draw_geodesic (6 segments from one point; geodesics from one ideal direction to every other), "
                                       "draw_horosphere (conformal models; 4 reference points), wrong-dimension point/polygon/segment/horosphere",
                     "oracle": "the same per-artist oracles as for the canonical member"}, chunk=4)

    # horospheres, horoarcs
    refs = pts if not q else pts[:10]
    hc = [{"model": m, "tf": t, "xi": xi, "refs": refs} for m in CONFORMAL for t in TFS for xi in dirs]
    product("horospheres", "checks.c19:case_horospheres", hc,
                domains={"centres": dirs, "reference points": len(refs), "models": CONFORMAL}, chunk=2)
    cc = []
    for m in CONFORMAL:
        for t in TFS:
            for i in range(len(dirs)):
                # three members; the member listed first cycles through all centres (incl. the point at infinity)
                mem = [[dirs[(i + j * 3) % len(dirs)], refs[(2 * i + j) % len(refs)]] for j in range(3)]
                cc.append({"model": m, "tf": t, "members": mem})
                cc.append({"model": m, "tf": t, "members": mem[::-1]})
    product("horospheres-composite", "checks.c19:case_horospheres_composite", cc,
                domains={"members per call": 3, "first member": "every centre of the alphabet (incl. the half-plane point at infinity), both listing orders"}, chunk=2)
    turns = [0.5, -0.5, 2.0, -2.0, 3.0]
    ac = [{"model": m, "tf": t, "xi": xi, "ref": p, "turns": turns}
          for m in CONFORMAL for t in TFS for xi in dirs for p in (pts[:6] if q else pts[:12])]
    product("horoarcs", "checks.c19:case_horoarcs", ac,
                domains={"centres": dirs, "turns about the horocycle's Euclidean centre (rad)": turns}, chunk=4)

    # projective drawings, every chart
    PL = proj_lattice()
    prc = []
    for chart in (0, 1, 2):
        for tf in PTFS:
            ok = [x for x in PL if proj_ok(tf, x)]
            prc.append({"chart": chart, "tf": tf, "kind": "point", "items": [x for x in ok] + [ok]})
            for k in ((3,) if q else (3, 4)):
                tl = [list(c) for c in itertools.permutations(ok, k)]
                for s in range(0, len(tl), 60):
                    prc.append({"chart": chart, "tf": tf, "kind": "polygon", "items": tl[s:s + 60]})
            prc.append({"chart": chart, "tf": tf, "kind": "polygon",
                        "items": [[list(a), list(b)] for a, b in itertools.permutations([ok[0:3], ok[1:4], ok[2:5]], 2)]})
            prc.append({"chart": chart, "tf": tf, "kind": "segment", "items": [list(c) for c in itertools.permutations(ok, 2)]})
    ctx.assume("projective objects have all three homogeneous coordinates away from 0 after the transform (they lie in every standard chart)")
    product("projective", "checks.c19:case_projective", prc,
                domains={"charts": [0, 1, 2], "transforms": list(PTFS), "points": PL,
                         "objects": "points (single, composite), all ordered vertex triples%s, composites of two triangles, all ordered segments" % ("" if q else " and 4-tuples")}, chunk=2)

    # projective polygons by negative / mixed-scale representatives, assume_affine True and False
    rc = []
    for chart in (0, 1, 2):
        for tf in PTFS:
            ok = [x for x in PL if proj_ok(tf, x)]
            tuples = [list(c) for c in itertools.permutations(ok[:5] if q else ok, 3)]
            if not q:
                tuples += [list(c) for c in itertools.permutations(ok[:6], 4)]
            for aa in (True, False):
                items = projective_rep_items(tf, chart, aa, tuples, [ok[0:3], ok[1:4], ok[2:5]])
                for s in range(0, len(items), 60):
                    rc.append({"chart": chart, "tf": tf, "aa": aa, "items": items[s:s + 60]})
    ctx.assume("assume_affine=False: the signs of the homogeneous representatives choose the projective segment between two vertices; "
               "a polygon is demanded only if the chart coordinate (after the drawing transform) has one sign at all its vertices"
               + (" and so has coordinate 0 (the library decides with Polygon.in_standard_chart, i.e. in chart 0, whatever the drawing's chart_index)" if NONAFF_CHART0_ONLY else "")
               + "; for polygons that leave the chart nothing is demanded (they may be split or skipped)")
    product("projective-representatives", "checks.c19:case_projective_reps", rc,
                domains={"charts": [0, 1, 2], "transforms": list(PTFS), "assume_affine": [True, False],
                         "polygons": "all ordered vertex triples of %s%s, the representative inside the chart" % (
                             "the first 5 lattice points" if q else "the lattice", "" if q else " and 4-tuples of the first 6 points"),
                         "scales": "per polygon LAMBDAS %s; per vertex uniform / |LAMBDAS| rotated / (assume_affine=True) LAMBDAS rotated" % lattice.LAMBDAS,
                         "collections": "ordered pairs of 3 triangles x LAMBDAS^2; the 3 triangles in 3 cyclic orders x signs {+,-}^3 x moduli (1, 2.5, 0.3); "
                                        "two triangles inside the chart (signs {+,-}^2) + one leaving it, listed first / in the middle / last"}, chunk=2)

    # projective polygons crossing the chart's line at infinity, assume_affine=False: 3..6 vertices, every chart
    cc = []
    for chart in (0, 1, 2):
        for tf in PTFS:
            ok = [x for x in PL if proj_ok(tf, x)]
            items = crossing_items(tf, chart, ok, [0, 1, 2] if q else list(range(len(ok))))
            for s in range(0, len(items), 60):
                cc.append({"chart": chart, "tf": tf, "items": items[s:s + 60]})
    ctx.assume("assume_affine=False, polygons leaving the chart: the chart coordinate (after the drawing transform) is non-zero at every vertex "
               "and changes sign exactly twice around the polygon (two runs of vertices); such a polygon is demanded to be drawn as two closed "
               "straight patches, one per run: the run's vertices at their chart coordinates, in order, closed through >= 2 corners outside the "
               "drawing's view (xlim x ylim) of which the two next to the run lie on the rays that continue the two crossing edges away from the "
               "vertices on the other side; polygons with more sign changes are not demanded")
    product("projective-nonaffine-crossing", "checks.c19:case_projective_crossing", cc,
            domains={"charts": [0, 1, 2], "transforms": list(PTFS), "vertex counts": [3, 4, 5, 6],
                     "polygons": "cyclic windows of the lattice starting at %s" % ("0, 1, 2" if q else "every point"),
                     "sign patterns": "every run (start, length 1..k-1) of flipped representatives, overall factor 1 / -1",
                     "collections": "[crossing, inside the chart, crossing] and [crossing, crossing] with different runs, per vertex count and start"}, chunk=2)

    # transform histories: the drawing's transform reached through constructor / set_ / add_ / precompose_transform
    depth = 2 if q else 3
    ctx.assume("transform histories: set_transform(g) replaces the drawing's transform, add_transform(g) appends g (a drawing with the "
               "transform f then draws x at g(f(x))), precompose_transform(g) applies g first (x is drawn at f(g(x))).  The three methods "
               "carry no docstring; this is the order their names state ('precompose' = composed on the right, 'add' = the other side - "
               "otherwise the two methods would coincide) and the order of the unchanged library; drawing.transform as reported must be "
               "the same composition (as a projective map), and points, polygons, segments and geodesics must all be drawn after it")
    ctx.assume("transform histories draw objects at Klein radius <= 0.6 (<= 0.94 after the longest history: two loxodromics of "
               "translation length 0.5 each)")
    HP = [sub[i] for i in (0, 1, 3, 5, 6, 8, 12, 15)]
    hh = histories(HIST_PAIRS["hyperbolic"], depth)
    hpts, hpoly, hgeo = [], [], []
    for model in MODELS:
        for hist in hh:
            M = hist_matrix("hyperbolic", hist).tolist()
            base = {"model": model, "hist": hist}
            items = [{"k": p_, "shape": []} for p_ in HP] + [{"k": HP, "shape": [len(HP)]}, {"k": HP[:6], "shape": [3, 2]}]
            idl = [x for x in dirs if model != "halfspace" or
                   (not dg.is_infinity(transformed(M, x)) and dg.angle_from_infinity(transformed(M, x)) >= 0.2)]
            items += [{"k": x, "shape": [], "ideal": True} for x in idl] + [{"k": idl, "shape": [len(idl)], "ideal": True}]
            hpts.append(dict(base, items=items))
            polys = []
            for (i, j) in ((0, 1), (4, 2), (7, 5)):
                rest = [x for x in range(len(HP)) if x not in (i, j)]
                tails = [[HP[x]] for x in rest] + [[HP[rest[0]], HP[rest[3]]], [HP[rest[4]], HP[rest[1]]],
                                                     [HP[rest[2]], HP[rest[5]], HP[rest[0]]]]
                polys += [[HP[i], HP[j]] + tl for tl in tails if nondegenerate([HP[i], HP[j]] + tl)]
            hpoly.append(dict(base, head=[], tails=polys))            # one figure per history: whole vertex lists as 'tails'
            n = len(hgeo) // 2
            a = HP[n % len(HP)]
            hgeo.append(dict(base, kind="segment", a=a, bs=[b for b in HP if b != a]))
            a = dirs[n % len(dirs)]
            hgeo.append(dict(base, kind="geodesic", a=a, bs=[b for b in dirs if b != a]))
    hdom = {"models": MODELS, "ops": HIST_OPS, "transforms": HIST_PAIRS["hyperbolic"],
            "histories": "all %d op sequences of length 0..%d ('ctor' = the constructor's transform, only first), the i-th op taking the "
                         "rotation / the loxodromic alternately, both assignments" % (len(hh), depth), "points": HP}
    product("history-points", "checks.c19:case_points", hpts,
            domains=dict(hdom, objects="every point singly, composites of shape (8,) and (3,2), ideal points singly and as one composite"), chunk=4)
    product("history-polygons", "checks.c19:case_polygons", hpoly,
            domains=dict(hdom, objects="3 first edges x (all third vertices, two quadrilaterals, one pentagon)"), chunk=2)
    product("history-geodesics", "checks.c19:case_geodesics", hgeo,
            domains=dict(hdom, objects="segments from one point (cycling through the points with the history) to every other point; geodesics from one ideal direction (cycling) to every other"), chunk=4)
    ph = histories(HIST_PAIRS["projective"], depth)
    hpr = []
    for chart in (0, 1, 2):
        for hist in ph:
            M = hist_matrix("projective", hist).tolist()
            ok = [x for x in PL if proj_ok(M, x)]
            base = {"chart": chart, "hist": hist}
            hpr.append(dict(base, kind="point", items=[x for x in ok] + [ok]))
            tri = [list(c) for c in itertools.permutations(ok[:4], 3)]
            hpr.append(dict(base, kind="polygon", items=tri + ([[ok[0:3], ok[1:4]], ok[:4]] if len(ok) >= 4 else [])))
            hpr.append(dict(base, kind="segment", items=[list(c) for c in itertools.permutations(ok[:5], 2)]))
    product("history-projective", "checks.c19:case_projective", hpr,
            domains={"charts": [0, 1, 2], "ops": HIST_OPS, "transforms": {k: np.asarray(PTF_ALL[k]).tolist() for k in HIST_PAIRS["projective"]},
                     "histories": "all %d op sequences of length 0..%d, the i-th op taking the shear / the diagonal map alternately, both assignments" % (len(ph), depth),
                     "objects": "lattice points with all coordinates away from 0 after the history's map: points singly and as one composite, "
                                "all ordered triangles of the first 4, a composite of two triangles, a quadrilateral, all ordered segments of the first 5"}, chunk=2)

    # wrong dimension
    wc = []
    for n in (1, 3, 4):
        for kind in ("point", "polygon", "segment", "geodesic", "horosphere", "horoarc"):
            for model in (CONFORMAL if kind in ("horosphere", "horoarc") else MODELS):
                wc.append({"space": "hyperbolic", "kind": kind, "n": n, "model": model})
        for kind in ("point", "polygon", "segment"):
            for chart in (0, 1):
                wc.append({"space": "projective", "kind": kind, "n": n, "model": chart})
    product("wrong-dimension", "checks.c19:case_wrongdim", wc,
                domains={"dimensions": [1, 3, 4], "objects": "point, polygon, segment, geodesic, horosphere, horoarc; projective point, polygon, segment"}, chunk=2)
