"""C17 - the Lie-group maps are homomorphisms onto the groups they name.

Engine P.  The polynomial maps (sl2_irrep, sl2_to_so21, slc_to_slr, block_include) are DECIDED
by evaluation on integer product grids (a polynomial of degree <= d in each variable that
vanishes on a product grid with d+1 values per variable is identically zero); the rational /
non-polynomial maps (adjoints, SL(2,C) -> SO(3,1), o_to_pgl) are checked on complete finite
exact alphabets; the adjoints additionally under every combination of their optional keyword arguments
(inv=, like=, dtype=) and input dtypes (float64, float32, int64, int32).  Oracles: mc/oracle/rep_model.py.
"""
import itertools
import os
import traceback
import warnings

import numpy as np

from mc.oracle import rep_model as R

TOL = 1e-9
TWO53 = float(2 ** 53)


# ------------------------------------------------------------------------------------------
# helpers
# ------------------------------------------------------------------------------------------
def _exc_violation(e, where):
    tb = traceback.extract_tb(e.__traceback__)
    site = "?"
    for fr in reversed(tb):
        if "/geometry_tools/" in fr.filename:
            site = "%s:%s" % (os.path.basename(fr.filename), fr.name)
            break
    else:
        if tb:
            fr = tb[-1]
            site = "HARNESS:%s:%s:%d" % (os.path.basename(fr.filename), fr.name, fr.lineno)
    return {"key": "exception/%s/%s/%s" % (type(e).__name__, site, where),
            "msg": "%s: %s: %s" % (where, type(e).__name__, str(e)[:240])}


def guard(v, where, f):
    try:
        with warnings.catch_warnings():
            warnings.simplefilter("ignore")
            return f()
    except Exception as e:  # noqa: BLE001 - converted into a violation
        v.append(_exc_violation(e, where))
        return None


def quiet(f):
    with warnings.catch_warnings():
        warnings.simplefilter("ignore")
        return f()


def close(got, exp, tol=TOL):
    got, exp = np.asarray(got), np.asarray(exp)
    if got.dtype == object:
        got = got.astype(np.result_type(exp.dtype, np.float64))
    if got.shape != exp.shape:
        return False, float("inf")
    if got.size == 0:
        return True, 0.0
    d = float(np.abs(got - exp).max())
    return bool(d <= tol * (1 + float(np.abs(exp).max()))), d


def fmt(M):
    return np.array2string(np.asarray(M), precision=6).replace("\n", "")


def grid_block(base, nvar, lo, hi):
    """Points lo..hi-1 of the product grid {0..base-1}^nvar (row-major), as floats (N, nvar)."""
    idx = np.arange(lo, hi)
    digits = np.unravel_index(idx, (base,) * nvar)
    return np.stack(digits, axis=-1).astype("float64")


def int_mats_2x2(bound, dets):
    out = []
    for e in itertools.product(range(-bound, bound + 1), repeat=4):
        if e[0] * e[3] - e[1] * e[2] in dets:
            out.append([[e[0], e[1]], [e[2], e[3]]])
    return out


def gaussian_sl2():
    """All 2x2 matrices with entries in {0, +-1, +-i} and determinant 1."""
    vals = [0, 1, -1, 1j, -1j]
    out = []
    for e in itertools.product(vals, repeat=4):
        if e[0] * e[3] - e[1] * e[2] == 1:
            out.append(np.array([[e[0], e[1]], [e[2], e[3]]], dtype="complex128"))
    return out


def elementary_alphabet(n):
    """E_ij(+-1), the adjacent transposition matrices, one sign change; all unimodular."""
    I = np.identity(n)
    out = []
    for i in range(n):
        for j in range(n):
            if i != j:
                for s in (1.0, -1.0):
                    M = I.copy()
                    M[i, j] = s
                    out.append(M)
    for i in range(n - 1):
        P = I.copy()
        P[[i, i + 1]] = P[[i + 1, i]]
        out.append(P)
    D = I.copy()
    D[0, 0] = -1.0
    out.append(D)
    return out


def gl_extras(n):
    """A few non-unimodular elements of GL(n) with exactly representable inverses."""
    I = np.identity(n)
    D = I.copy()
    D[0, 0], D[n - 1, n - 1] = 2.0, 0.5
    S = I.copy()
    S[0, 0], S[0, 1], S[1, 0], S[1, 1] = 1.0, 2.0, 3.0, 4.0     # det -2
    T = I.copy()
    T[0, 0], T[0, n - 1] = 4.0, 1.0
    return [D, S, T]


# ------------------------------------------------------------------------------------------
# 1. sl2_irrep: homomorphism on the integer grid {0..n-1}^8 (complete for degree n-1)
# ------------------------------------------------------------------------------------------
def case_irrep_grid(case):
    from geometry_tools import lie
    n, lo, hi = case["n"], case["lo"], case["hi"]
    v = []
    P = grid_block(n, 8, lo, hi)
    A, B = P[:, :4].reshape(-1, 2, 2), P[:, 4:].reshape(-1, 2, 2)
    lhs = lie.sl2_irrep(A @ B, n)
    ra, rb = lie.sl2_irrep(A, n), lie.sl2_irrep(B, n)
    rhs = ra @ rb
    if not (np.all(np.isfinite(lhs)) and np.all(np.isfinite(ra)) and np.all(np.isfinite(rb))):
        bad = ~np.isfinite(ra).reshape(hi - lo, -1).all(axis=1) | ~np.isfinite(lhs).reshape(hi - lo, -1).all(axis=1)
        i = int(np.argmax(bad))
        return {"v": [{"key": "irrep/non-finite-image/n=%d" % n,
                       "msg": "sl2_irrep(., %d) is not finite on integer input, e.g. A=%s (A@B=%s): %d of %d grid points" % (
                           n, A[i].tolist(), (A[i] @ B[i]).tolist(), int(bad.sum()), hi - lo)}], "t": 3, "o": "nan", "nt": True}
    big = max(float(np.abs(lhs).max()), float(np.abs(rhs).max()), float(np.abs(ra).max()))
    if not big < TWO53:
        raise AssertionError("harness: grid values reach %.3g >= 2^53, float64 is not exact" % big)
    if lhs.shape != (hi - lo, n, n):
        v.append({"key": "irrep/shape", "msg": "sl2_irrep of (%d,2,2) has shape %r" % (hi - lo, lhs.shape)})
    elif not np.array_equal(lhs, rhs):
        i = int(np.argmax(np.abs(lhs - rhs).reshape(hi - lo, -1).max(axis=1) > 0))
        v.append({"key": "irrep/homomorphism/n=%d" % n,
                  "msg": "sl2_irrep(AB,%d) != sl2_irrep(A)sl2_irrep(B) at A=%s B=%s: %s vs %s (%d of %d grid points)" % (
                      n, fmt(A[i]), fmt(B[i]), fmt(lhs[i]), fmt(rhs[i]),
                      int((np.abs(lhs - rhs).reshape(hi - lo, -1).max(axis=1) > 0).sum()), hi - lo)})
    t = 3
    if lo == 0:
        one = lie.sl2_irrep(np.identity(2), n)
        t += 1
        if not np.array_equal(one, np.identity(n)):
            v.append({"key": "irrep/identity/n=%d" % n, "msg": "sl2_irrep(I,%d) = %s" % (n, fmt(one))})
    return {"v": v, "t": t, "o": "%d|%d|%g" % (n, len(v), big), "nt": True}


# ------------------------------------------------------------------------------------------
# 1b. sl2_irrep / sl2_to_so21 / Isometry.from_sl2 called ONE MATRIX AT A TIME (and on homogeneous stacks) for matrices
#     with a zero pattern: the grid blocks above hand the library 65536 matrices at once, so a branch taken when
#     np.any(b) / np.any(c) / ... is False FOR THE WHOLE ARRAY is never entered there
# ------------------------------------------------------------------------------------------
SP_VALS = [2.0, 0.5, -3.0, 0.25, 1.0]
SP_VALS3 = [2.0, 0.5, -3.0]


def sparse_family():
    """2x2 matrices with a zero pattern and dyadic / small-integer entries (all products exact in float64):
    diagonal, anti-diagonal, upper and lower triangular; scalar and non-scalar, determinant one and not."""
    out = []
    for t in SP_VALS:
        for s in SP_VALS:
            out.append(("diagonal", [[t, 0.0], [0.0, s]]))
    for t in SP_VALS:
        for s in SP_VALS:
            out.append(("antidiagonal", [[0.0, t], [s, 0.0]]))
    for t in SP_VALS3:
        for u in SP_VALS3:
            for s in SP_VALS3:
                out.append(("upper", [[t, u], [0.0, s]]))
                out.append(("lower", [[t, 0.0], [u, s]]))
    return out


def sparse_partners():
    fam = sparse_family()
    return [np.array(m, dtype="float64") for m in int_mats_2x2(1, (1, -1))] + \
           [np.array(m, dtype="float64") for m in ([[2, 1], [3, 2]], [[2, 1], [1, 1]], [[1, 2], [3, 4]])] + \
           [np.array(fam[i][1]) for i in (1, 7, 13, 26, 32, 50, 51, 77)]


def case_irrep_single(case):
    """One sparse matrix g, one target dimension n: value of sl2_irrep(g, n) (single call) against the action on binary
    forms, the homomorphism law rho(g h) = rho(g) rho(h) and rho(h g) = rho(h) rho(g) for every partner h with every
    image computed by its own single-matrix call, the same on a stack of matrices with the same zero pattern, and (n = 3)
    through sl2_to_so21 and Isometry.from_sl2."""
    from geometry_tools import lie
    n, i = case["n"], case["i"]
    fam = sparse_family()
    pat, g = fam[i][0], np.array(fam[i][1])
    v, t = [], 0
    rg = lie.sl2_irrep(g.copy(), n)
    t += 1
    exp = np.array(R.sym_power(g, n), dtype="float64")
    ok, d = close(rg, exp)
    if not ok:
        v.append({"key": "irrep-single/value/%s/n=%d" % (pat, n), "msg": "sl2_irrep(%s,%d) = %s, the action on binary forms gives %s" % (fmt(g), n, fmt(rg), fmt(exp))})
    partners = sparse_partners()
    nbad = 0
    for h in partners:
        rh = lie.sl2_irrep(h.copy(), n)
        for side, prod, want_ in (("g.h", g @ h, lambda: rg @ rh), ("h.g", h @ g, lambda: rh @ rg)):
            got = lie.sl2_irrep(prod, n)
            t += 1
            ok, d = close(got, want_())
            if not ok:
                nbad += 1
                if nbad <= 1:
                    v.append({"key": "irrep-single/homomorphism/%s/n=%d" % (pat, n),
                              "msg": "single-matrix calls: sl2_irrep(%s,%d) != product of the images for g=%s (%s) h=%s: residual %.3g" % (side, n, fmt(g), pat, fmt(h), d)})
        t += 1
    # a stack all of whose matrices share the zero pattern, against per-matrix calls, and the law on the stack
    same = [np.array(m) for p_, m in fam if p_ == pat]
    k = [j for j, (p_, m) in enumerate(fam) if p_ == pat].index(i)
    G = np.stack([same[(k + s) % len(same)] for s in (0, 1, 5)])
    H = np.stack([partners[(i + s) % len(partners)] for s in (0, 3, 4)])
    rG, rH = lie.sl2_irrep(G.copy(), n), lie.sl2_irrep(H.copy(), n)
    t += 2
    per = np.stack([lie.sl2_irrep(x.copy(), n) for x in G])
    if rG.shape != per.shape or not close(rG, per)[0]:
        v.append({"key": "irrep-single/stack-vs-single/%s/n=%d" % (pat, n), "msg": "sl2_irrep of a stack of %s matrices differs from the per-matrix calls, first matrix %s" % (pat, fmt(g))})
    else:
        for side, lhs, rhs in (("G.H", lie.sl2_irrep(G @ H, n), rG @ rH), ("H.G", lie.sl2_irrep(H @ G, n), rH @ rG)):
            t += 1
            if not close(lhs, rhs)[0]:
                v.append({"key": "irrep-single/stack-homomorphism/%s/n=%d" % (pat, n), "msg": "sl2_irrep(%s) != product of images for a stack of %s matrices starting at %s" % (side, pat, fmt(g))})
    if n == 3:
        from geometry_tools import hyperbolic
        sg = np.asarray(lie.sl2_to_so21(g.copy()))
        ig = hyperbolic.Isometry.from_sl2(g.copy())
        sbad = ibad = 0
        for h in partners:
            sh = np.asarray(lie.sl2_to_so21(h.copy()))
            ih = hyperbolic.Isometry.from_sl2(h.copy())
            t += 6
            for side, prod, want_, iwant in (("g.h", g @ h, sg @ sh, ig @ ih), ("h.g", h @ g, sh @ sg, ih @ ig)):
                got = np.asarray(lie.sl2_to_so21(prod))
                if not close(got, want_)[0]:
                    sbad += 1
                    if sbad == 1:
                        v.append({"key": "irrep-single/so21-homomorphism/%s" % pat, "msg": "sl2_to_so21(%s) != product of images for g=%s h=%s" % (side, fmt(g), fmt(h))})
                gi_ = np.asarray(hyperbolic.Isometry.from_sl2(prod).proj_data)
                wi_ = np.asarray(iwant.proj_data)
                if not close(gi_, wi_)[0]:
                    ibad += 1
                    if ibad == 1:
                        v.append({"key": "irrep-single/from_sl2-composition/%s" % pat, "msg": "Isometry.from_sl2(%s) != composition of the isometries for g=%s h=%s" % (side, fmt(g), fmt(h))})
        nbad += sbad + ibad
    return {"v": v[:6], "t": t, "o": "%s|%d|%d|%s" % (pat, n, nbad, np.round(rg[0], 4).tolist()), "nt": bool(g[0, 0] != g[1, 1] or g[0, 1] != 0 or g[1, 0] != 0)}


# ------------------------------------------------------------------------------------------
# 2. sl2_to_so21: homomorphism on {0,1,2}^8, form identity on {0..4}^4
# ------------------------------------------------------------------------------------------
def case_so21_grid(case):
    from geometry_tools import lie
    v = []
    J = np.diag([-1.0, 1.0, 1.0])
    if case["what"] == "hom":
        P = grid_block(3, 8, case["lo"], case["hi"])
        A, B = P[:, :4].reshape(-1, 2, 2), P[:, 4:].reshape(-1, 2, 2)
        lhs, rhs = lie.sl2_to_so21(A @ B), lie.sl2_to_so21(A) @ lie.sl2_to_so21(B)
        d = np.abs(lhs - rhs).reshape(len(P), -1).max(axis=1)
        bad = ~(d <= TOL * (1 + np.abs(rhs).reshape(len(P), -1).max(axis=1)))
        if bad.any():
            i = int(np.argmax(bad))
            v.append({"key": "so21/homomorphism", "msg": "sl2_to_so21(AB) != sl2_to_so21(A)sl2_to_so21(B) at A=%s B=%s: residual %.3g (%d of %d grid points)" % (
                fmt(A[i]), fmt(B[i]), d[i], int(bad.sum()), len(P))})
        if case["lo"] == 0:
            one = lie.sl2_to_so21(np.identity(2))
            if not close(one, np.identity(3))[0]:
                v.append({"key": "so21/identity", "msg": "sl2_to_so21(I) = %s" % fmt(one)})
        return {"v": v, "t": 3, "o": "hom|%d|%.2g" % (len(v), d.max()), "nt": True}
    P = grid_block(5, 4, 0, 5 ** 4)
    A = P.reshape(-1, 2, 2)
    S = lie.sl2_to_so21(A)
    det2 = (A[:, 0, 0] * A[:, 1, 1] - A[:, 0, 1] * A[:, 1, 0]) ** 2
    exp = det2[:, None, None] * J
    for name, got in (("rho^T J rho", S.swapaxes(-1, -2) @ J @ S), ("rho J rho^T", S @ J @ S.swapaxes(-1, -2))):
        d = np.abs(got - exp).reshape(len(P), -1).max(axis=1)
        bad = ~(d <= TOL * (1 + np.abs(S).reshape(len(P), -1).max(axis=1) ** 2))
        if bad.any():
            i = int(np.argmax(bad))
            v.append({"key": "so21/form/%s" % name.replace(" ", ""), "msg": "%s != det(A)^2 J at A=%s: %s (%d of %d grid points)" % (
                name, fmt(A[i]), fmt(got[i]), int(bad.sum()), len(P))})
    return {"v": v, "t": 1, "o": "form|%d" % len(v), "nt": True}


# ------------------------------------------------------------------------------------------
# 3. maps of total degree <= 1 (slc_to_slr, block_include): the law f(X,Y) = phi(XY) - phi(X)phi(Y)
#    has total degree <= 2, so it is decided by the points with at most two non-zero coordinates,
#    values in {1,2} (every monomial lives in a coordinate 2-plane; {0,1,2}^2 decides degree <= 2)
# ------------------------------------------------------------------------------------------
def sparse_points(nvar):
    pts = [np.zeros(nvar)]
    for i in range(nvar):
        for x in (1.0, 2.0):
            p = np.zeros(nvar)
            p[i] = x
            pts.append(p)
    for i, j in itertools.combinations(range(nvar), 2):
        for x in (1.0, 2.0):
            for y in (1.0, 2.0):
                p = np.zeros(nvar)
                p[i], p[j] = x, y
                pts.append(p)
    return np.stack(pts)


def case_linear(case):
    from geometry_tools import lie
    v = []
    k = case["k"]
    if case["map"] == "slc_to_slr":
        nvar = 4 * k * k                     # re/im parts of the entries of X and Y
        P = sparse_points(nvar) if not case.get("full") else grid_block(2, nvar, 0, 2 ** nvar)
        X = (P[:, :k * k] + 1j * P[:, k * k:2 * k * k]).reshape(-1, k, k)
        Y = (P[:, 2 * k * k:3 * k * k] + 1j * P[:, 3 * k * k:]).reshape(-1, k, k)
        f = lie.slc_to_slr
        one_in, one_out = np.identity(k, dtype=complex), np.identity(2 * k)
        oracle = R.realify
    else:
        m = case["m"]
        nvar = 2 * k * k
        P = sparse_points(nvar)
        X, Y = P[:, :k * k].reshape(-1, k, k), P[:, k * k:].reshape(-1, k, k)
        f = lambda Z: lie.block_include(Z, m)
        one_in, one_out = np.identity(k), np.identity(m)
        oracle = lambda Z: R.block_include(Z, m)
    lhs, rhs = f(X @ Y), f(X) @ f(Y)
    name = case["map"]
    if lhs.shape != rhs.shape or not np.array_equal(lhs, rhs):
        d = np.abs(lhs - rhs).reshape(len(P), -1).max(axis=1)
        i = int(np.argmax(d > 0))
        v.append({"key": "%s/homomorphism" % name, "msg": "%s(XY) != %s(X)%s(Y) at X=%s Y=%s (%d of %d points)" % (
            name, name, name, fmt(X[i]), fmt(Y[i]), int((d > 0).sum()), len(P))})
    if not np.array_equal(f(one_in), one_out):
        v.append({"key": "%s/identity" % name, "msg": "%s(I) = %s" % (name, fmt(f(one_in)))})
    if not np.array_equal(f(X), oracle(X)):
        v.append({"key": "%s/value" % name, "msg": "%s differs from its definition on the grid" % name})
    if np.iscomplexobj(f(X)) and np.abs(np.imag(f(X))).max() != 0:
        v.append({"key": "%s/real-image" % name, "msg": "image has a non-zero imaginary part"})
    return {"v": v, "t": 5, "o": "%s|%d|%d|%d" % (name, k, len(P), len(v)), "nt": True}


# ------------------------------------------------------------------------------------------
# 4. adjoint representations on finite exact alphabets
# ------------------------------------------------------------------------------------------
def adjoint_alphabet(n, thorough):
    if n == 2:
        A = [np.array(m, dtype="float64") for m in int_mats_2x2(2, (1, -1))]
    else:
        A = elementary_alphabet(n)
        if thorough:
            A = A + [x @ y for x in elementary_alphabet(n)[:2 * n * (n - 1)] for y in elementary_alphabet(n)[:2 * n * (n - 1)]
                     if not np.array_equal(x @ y, np.identity(n))][::3]
    return A + gl_extras(n)


# ------------------------------------------------------------------------------------------
# purity: the maps answer from their arguments, in any order of calls (module-level caches!)
# ------------------------------------------------------------------------------------------
def _purity_calls():
    from geometry_tools import lie
    A = np.array([[2.0, 1.0], [1.0, 1.0]])
    Bc = np.array([[1.0 + 0j, 1j], [0j, 1.0 + 0j]])
    A3 = np.array([[1.0, 1.0, 0.0], [0.0, 1.0, 1.0], [0.0, 0.0, 1.0]])
    stack = np.array([[[2.0, 1.0], [1.0, 1.0]], [[1.0, 2.0], [0.0, 1.0]]])
    return [
        ("sl2_irrep/n3", lambda a: lie.sl2_irrep(a, 3), [A]),
        ("sl2_irrep/n4-stack", lambda a: lie.sl2_irrep(a, 4), [stack]),
        ("sl2_to_so21", lambda a: lie.sl2_to_so21(a), [A]),
        ("sl2_to_so21/stack", lambda a: lie.sl2_to_so21(a), [stack]),
        ("o_to_pgl", lambda a: lie.o_to_pgl(lie.sl2_to_so21(a)), [A]),
        ("gln_adjoint", lambda a: lie.gln_adjoint(a, dtype="float64"), [A]),
        ("gln_adjoint/n3", lambda a: lie.gln_adjoint(a, dtype="float64"), [A3]),
        ("sln_adjoint", lambda a: lie.sln_adjoint(a, dtype="float64"), [A]),
        ("sln_adjoint/n3", lambda a: lie.sln_adjoint(a, dtype="float64"), [A3]),
        ("sln_adjoint/complex", lambda a: lie.sln_adjoint(a, dtype="complex128"), [Bc]),
        ("gln_adjoint/complex", lambda a: lie.gln_adjoint(a, dtype="complex128"), [Bc]),
        ("sln_killing_form", lambda: lie.sln_killing_form(3), []),
        ("slc_to_slr", lambda a: lie.slc_to_slr(a), [Bc]),
        ("sl2c_to_so31", lambda a: lie.sl2c_to_so31(a), [Bc]),
        ("sl2c_herm_action", lambda a: lie.sl2c_herm_action(a), [Bc]),
        ("block_include", lambda a: lie.block_include(a, 4), [A]),
    ]


def case_purity(case):
    """All maps in one process, in the order given by the case (a rotation of the list): every call is checked
    for purity, and every answer must equal the answer the same call gives when it is the FIRST call of its
    kind (recorded by running the unrotated order in the same case)."""
    from mc import diffhist
    calls = _purity_calls()
    k = case["rot"] % len(calls)
    order = calls[k:] + calls[:k]
    v = []
    first = {}
    for name, f, args in calls:
        first[name] = [np.array(x, copy=True) for x in diffhist._flat_arrays(quiet(lambda: f(*[a.copy() for a in args])))]
    for name, f, args in order + order[::-1]:
        v += quiet(lambda: diffhist.purity_violations(name, f, [a.copy() for a in args]))
        now = diffhist._flat_arrays(quiet(lambda: f(*[a.copy() for a in args])))
        if len(now) != len(first[name]) or any(x.shape != y.shape or not np.allclose(x.astype(complex), y.astype(complex), rtol=1e-12, atol=1e-12) for x, y in zip(now, first[name])):
            v.append({"key": "purity/order-of-calls/%s" % name.split("/")[0], "msg": "%s gives a different answer after the other maps were called (order rotation %d)" % (name, k)})
    return {"v": v[:6], "t": 6 * len(calls), "o": "rot%d|%d" % (k, len(v)), "nt": True}


def case_adjoint_complex(case):
    """gln_adjoint / sln_adjoint on COMPLEX matrices (all Gaussian-integer 2x2 matrices with entries in
    {0,+-1,+-i}, det 1), called without a dtype, with an explicit complex dtype, and through lie.hom:
    value vs the matrix of X -> g X g^-1 and homomorphism over every partner."""
    from geometry_tools import lie
    alpha = gaussian_sl2()
    g = alpha[case["i"]]
    gi = R.inverse(g)
    v, t = [], 0
    want = R.gl_adjoint(g, gi)
    routes = [("gln_adjoint()", lambda x: np.asarray(lie.gln_adjoint(x))),
              ("gln_adjoint(dtype=complex)", lambda x: np.asarray(lie.gln_adjoint(x, dtype="complex128"))),
              ("hom.gln_adjoint()", lambda x: np.asarray(lie.hom.gln_adjoint()(x)))]
    for name, f in routes:
        got = guard(v, name, lambda: quiet(lambda: f(g)))
        t += 1
        if got is None:
            continue
        got = np.asarray(got).astype("complex128")
        if got.shape != want.shape or not np.max(np.abs(got - want)) <= 1e-9:
            v.append({"key": "adjoint-complex/%s/value" % name.split("(")[0], "msg": "%s of %s differs from the matrix of X -> gXg^-1: %s vs %s" % (name, fmt(g), fmt(got), fmt(want))})
            continue
        bad = 0
        for h in alpha:
            gh = quiet(lambda: np.asarray(f(g @ h))).astype("complex128")
            fh = quiet(lambda: np.asarray(f(h))).astype("complex128")
            t += 2
            if not np.max(np.abs(gh - got @ fh)) <= 1e-9:
                bad += 1
        if bad:
            v.append({"key": "adjoint-complex/%s/homomorphism" % name.split("(")[0], "msg": "%s: Ad(gh) != Ad(g)Ad(h) for g=%s and %d partners" % (name, fmt(g), bad)})
    # sln_adjoint on complex input
    ws = R.sl_adjoint(g, gi)
    got = guard(v, "sln_adjoint(complex)", lambda: quiet(lambda: np.asarray(lie.sln_adjoint(g))))
    t += 1
    if got is not None:
        got = np.asarray(got).astype("complex128")
        if got.shape != np.asarray(ws).shape or not np.max(np.abs(got - ws)) <= 1e-9:
            v.append({"key": "adjoint-complex/sln_adjoint/value", "msg": "sln_adjoint(%s) differs from the matrix of X -> gXg^-1 on sl(2): %s vs %s" % (fmt(g), fmt(got), fmt(ws))})
    return {"v": v, "t": t, "o": "%d|%d" % (case["i"], len(v)), "nt": bool(np.any(np.imag(g) != 0))}


def case_adjoint(case):
    from geometry_tools import lie
    n, i = case["n"], case["i"]
    alpha = adjoint_alphabet(n, case["thorough"])
    g = alpha[i]
    v, t = [], 0
    K = np.asarray(lie.sln_killing_form(n)).astype("float64")
    Ko = R.sl_trace_form(n)
    if i == 0:
        if not np.array_equal(K, Ko):
            v.append({"key": "adjoint/killing-form-matrix", "msg": "sln_killing_form(%d) differs from the trace form tr(XY) in the basis E_ij, E_ii - E_nn" % n})
        for nm, f, m in (("gln_adjoint", lie.gln_adjoint, n * n), ("sln_adjoint", lie.sln_adjoint, n * n - 1)):
            one = guard(v, nm + "(I)", lambda: f(np.identity(n), dtype="float64"))
            if one is not None and not close(one, np.identity(m))[0]:
                v.append({"key": "adjoint/%s/identity" % nm, "msg": "%s(I) = %s" % (nm, fmt(one))})
    gi = R.inverse(g)

    def G(x, **kw):
        return quiet(lambda: np.asarray(lie.gln_adjoint(x, dtype="float64", **kw)))

    def S(x, **kw):
        return quiet(lambda: np.asarray(lie.sln_adjoint(x, dtype="float64", **kw)))
    Gg, Sg = G(g), S(g)
    t += 2
    ok, d = close(Gg, R.gl_adjoint(g, gi))
    if not ok:
        v.append({"key": "adjoint/gln_adjoint/value", "msg": "gln_adjoint(%s) differs from the matrix of X -> gXg^-1 by %.3g" % (fmt(g), d)})
    ok, d = close(Sg, R.sl_adjoint(g, gi))
    if not ok:
        v.append({"key": "adjoint/sln_adjoint/value", "msg": "sln_adjoint(%s) differs from the matrix of X -> gXg^-1 on sl(n) by %.3g" % (fmt(g), d)})
    # explicit inverse argument, and the default (object) dtype
    ok, d = close(G(g, inv=gi), Gg)
    if not ok:
        v.append({"key": "adjoint/gln_adjoint/inv-argument", "msg": "gln_adjoint(g, inv=g^-1) differs from gln_adjoint(g) by %.3g at g=%s" % (d, fmt(g))})
    ok, d = close(S(g, inv=gi), Sg)
    if not ok:
        v.append({"key": "adjoint/sln_adjoint/inv-argument", "msg": "sln_adjoint(g, inv=g^-1) differs from sln_adjoint(g) by %.3g at g=%s" % (d, fmt(g))})
    nod = guard(v, "gln_adjoint(no-dtype)", lambda: np.asarray(lie.gln_adjoint(g)))
    t += 3
    if nod is not None and not close(nod, Gg)[0]:
        v.append({"key": "adjoint/gln_adjoint/default-dtype", "msg": "gln_adjoint(g) without dtype differs from dtype=float64 at g=%s" % fmt(g)})
    # Killing form preserved
    ok, d = close(Sg.T @ K @ Sg, K)
    if not ok:
        v.append({"key": "adjoint/sln_adjoint/killing-form", "msg": "Ad(g)^T K Ad(g) != K at g=%s (residual %.3g)" % (fmt(g), d)})
    # the trace form tr(XY) on gl(n) (basis E_ij at i*n+j) is invariant under the GL(n) adjoint
    Kg = np.zeros((n * n, n * n))
    for i_ in range(n):
        for j_ in range(n):
            Kg[i_ * n + j_, j_ * n + i_] = 1.0
    ok, d = close(Gg.T @ Kg @ Gg, Kg)
    if not ok:
        v.append({"key": "adjoint/gln_adjoint/trace-form", "msg": "Ad(g)^T K Ad(g) != K on gl(n) at g=%s (residual %.3g)" % (fmt(g), d)})
    # homomorphism against every h of the alphabet
    nbad = 0
    for h in alpha:
        gh = g @ h
        t += 4
        okg, dg = close(G(gh), Gg @ G(h))
        oks, ds = close(S(gh), Sg @ S(h))
        if not okg and nbad < 2:
            v.append({"key": "adjoint/gln_adjoint/homomorphism", "msg": "Ad(gh) != Ad(g)Ad(h) at g=%s h=%s (residual %.3g)" % (fmt(g), fmt(h), dg)})
        if not oks and nbad < 2:
            v.append({"key": "adjoint/sln_adjoint/homomorphism", "msg": "Ad(gh) != Ad(g)Ad(h) on sl(n) at g=%s h=%s (residual %.3g)" % (fmt(g), fmt(h), ds)})
        nbad += (not okg) + (not oks)
    return {"v": v, "t": t, "o": "%d|%d|%d|%s" % (n, len(v), nbad, np.round(Gg, 3).tolist()), "nt": not np.array_equal(g, np.identity(n))}


# ------------------------------------------------------------------------------------------
# 4b. the adjoints under every combination of their optional keyword arguments and input dtypes
# ------------------------------------------------------------------------------------------
ADJ_PACKS = ["f64", "f32", "i64", "i32"]
ADJ_INV = ["none", "float64", "same-dtype"]
ADJ_LIKE = ["none", "float64-array", "pyfloat", "input"]
ADJ_DTYPE = ["none", "str", "type"]


def slz_extras(n):
    """Elements of SL(n,Z) with a NON-symmetric inverse; several have a floating-point inverse that is not bit-exact
    (np.linalg.inv of [[2,1,0],[1,1,0],[3,1,1]] has entries 0.9999999999999998)."""
    if n == 2:
        return [np.array(m, dtype="float64") for m in ([[2, 1], [1, 1]], [[3, 2], [4, 3]], [[5, 3], [3, 2]], [[1, 2], [0, 1]])]
    base = [np.array([[2.0, 1, 0], [1, 1, 0], [3, 1, 1]]), np.array([[1.0, 0, 2], [0, 1, 1], [1, 1, 4]])]
    base.append(base[0] @ base[1])
    if n == 3:
        return base
    out = []
    for b in base:
        M = np.identity(n)
        M[n - 3:, n - 3:] = b
        M[0, n - 1] = 1.0
        out.append(M)
    E = elementary_alphabet(n)
    P = np.identity(n)
    for k in (0, 3, 2 * n, 2 * n + 3, 4 * n + 1):
        P = P @ E[k % len(E)]
    out.append(P)
    return out


def adjoint_option_alphabet(n):
    if n == 2:
        A = [np.array(m, dtype="float64") for m in int_mats_2x2(2, (1, -1))][::4]
    elif n == 3:
        A = elementary_alphabet(n)
    else:
        A = elementary_alphabet(n)[::5]
    return slz_extras(n) + A + gl_extras(n)


def _adj_pack(M, how):
    return np.array(M, dtype={"f64": "float64", "f32": "float32", "i64": "int64", "i32": "int32"}[how])


def case_adjoint_options(case):
    """gln_adjoint / sln_adjoint of one matrix in one input dtype under EVERY combination of inv= / like= / dtype=:
    value against the oracle (the matrix of X -> g X g^-1 in the elementary-matrix basis), identity, homomorphism
    against the SL(n,Z) partners in the same dtype and with the same options, Killing / trace form."""
    from geometry_tools import lie
    n, i, pack = case["n"], case["i"], case["pack"]
    alpha = adjoint_option_alphabet(n)
    g = alpha[i]
    integer = pack in ("i64", "i32")
    gi = R.inverse(g)                                       # exact (rational arithmetic), float64
    gi_integral = bool(np.array_equal(gi, np.round(gi)))
    partners = slz_extras(n)[:3]
    tol = 2e-5 if pack == "f32" else TOL
    K = R.sl_trace_form(n)
    v, t = [], 0
    wants = {"gln_adjoint": R.gl_adjoint(g, gi), "sln_adjoint": R.sl_adjoint(g, gi)}
    pw = {"gln_adjoint": [(R.gl_adjoint(h, R.inverse(h)), R.gl_adjoint(g @ h, R.inverse(g @ h))) for h in partners],
          "sln_adjoint": [(R.sl_adjoint(h, R.inverse(h)), R.sl_adjoint(g @ h, R.inverse(g @ h))) for h in partners]}
    ncombo = 0
    for inv_how, like_how, dt_how in itertools.product(ADJ_INV, ADJ_LIKE, ADJ_DTYPE):
        if like_how == "input" and integer and dt_how == "none":
            continue        # like=<integer array> and no dtype is an explicit request for an integer-typed result
        if inv_how == "same-dtype" and integer and not gi_integral:
            continue        # the inverse of this matrix has no integer packaging

        def kwargs(M):
            kw = {}
            if inv_how != "none":
                Mi = R.inverse(np.asarray(M, dtype="float64"))
                kw["inv"] = np.array(Mi, dtype="float64") if inv_how == "float64" else _adj_pack(Mi, pack)
            if like_how == "float64-array":
                kw["like"] = np.identity(n)
            elif like_how == "pyfloat":
                kw["like"] = 1.0
            elif like_how == "input":
                kw["like"] = M
            if dt_how == "str":
                kw["dtype"] = "float64"
            elif dt_how == "type":
                kw["dtype"] = np.float64
            return kw
        combo = "inv=%s,like=%s,dtype=%s" % (inv_how, like_how, dt_how)
        cls = "%s%s%s" % ("inv+" if inv_how != "none" else "", "like+" if like_how != "none" else "", "dtype" if dt_how != "none" else "")
        cls = cls.rstrip("+") or "defaults"
        ncombo += 1
        for nm in ("gln_adjoint", "sln_adjoint"):
            f = getattr(lie, nm)
            where = "%s(%s as %s, %s)" % (nm, fmt(g), pack, combo)

            def img(M):
                Mp = _adj_pack(M, pack)
                snap = Mp.copy()
                r = quiet(lambda: np.asarray(f(Mp, **kwargs(Mp))))
                if not np.array_equal(Mp, snap):
                    v.append({"key": "adjoint-options/%s/input-mutated" % nm, "msg": "%s changed its argument" % where})
                raw.append(r)
                if r.dtype == object:
                    r = r.astype("float64")
                return r
            raw = []
            got = guard(v, "adjoint-options/%s/%s/%s" % (nm, cls, "integer" if integer else pack), lambda: img(g))
            t += 1
            if got is None:
                continue
            # a real matrix has a floating-point image, on which the library's own inverse works (the inverse of
            # Ad(g) is Ad(g^-1)): an array of Python objects is rejected by utils.invert / utils.eig / utils.kernel
            if raw[0].dtype.kind not in "fc":
                v.append({"key": "adjoint-options/%s/result-dtype/%s" % (nm, "no-like-no-dtype" if cls in ("defaults", "inv") else cls),
                          "msg": "%s has dtype %s (numpy.linalg and utils.invert / utils.eig / utils.kernel reject it)" % (where, raw[0].dtype)})
            else:
                from geometry_tools import utils as U
                back = guard(v, "adjoint-options/%s/utils.invert-of-result/%s" % (nm, cls), lambda: np.asarray(U.invert(raw[0])))
                t += 1
                if back is not None:
                    wi = R.gl_adjoint(gi, g) if nm == "gln_adjoint" else R.sl_adjoint(gi, g)
                    ok, d = close(back, wi, 1e-3 if pack == "f32" else 1e-7)
                    if not ok:
                        v.append({"key": "adjoint-options/%s/utils.invert-of-result/%s" % (nm, cls),
                                  "msg": "utils.invert(%s) differs from Ad(g^-1) by %.3g" % (where, d)})
            ok, d = close(got, wants[nm], tol)
            if not ok:
                v.append({"key": "adjoint-options/%s/value/%s/%s" % (nm, cls, "integer" if integer else pack),
                          "msg": "%s differs from the matrix of X -> gXg^-1 by %.3g (dtype %s):\n%r" % (where, d, got.dtype, got)})
                continue
            if nm == "sln_adjoint":
                ok, d = close(got.T @ K @ got, K, tol)
                if not ok:
                    v.append({"key": "adjoint-options/sln_adjoint/killing-form/%s" % cls, "msg": "%s: Ad(g)^T K Ad(g) != K (%.3g)" % (where, d)})
            for h, (wh, wgh) in zip(partners, pw[nm]):
                fh = guard(v, "adjoint-options/%s/%s/%s" % (nm, cls, "integer" if integer else pack), lambda: img(h))
                fgh = guard(v, "adjoint-options/%s/%s/%s" % (nm, cls, "integer" if integer else pack), lambda: img(g @ h))
                t += 2
                if fh is None or fgh is None:
                    break
                ok, d = close(fgh, got @ fh, tol * (1 + float(np.abs(got).max())))
                if not ok:
                    v.append({"key": "adjoint-options/%s/homomorphism/%s/%s" % (nm, cls, "integer" if integer else pack),
                              "msg": "%s: Ad(gh) != Ad(g)Ad(h) for h = %s (residual %.3g)" % (where, fmt(h), d)})
                    break
        if len(v) > 6:
            break
    if i == 0:
        for nm, m in (("gln_adjoint", n * n), ("sln_adjoint", n * n - 1)):
            one = guard(v, "adjoint-options/%s(I)" % nm, lambda: quiet(lambda: np.asarray(getattr(lie, nm)(_adj_pack(np.identity(n), pack)))))
            t += 1
            if one is not None and not close(np.asarray(one).astype("float64"), np.identity(m))[0]:
                v.append({"key": "adjoint-options/%s/identity/%s" % (nm, "integer" if integer else pack), "msg": "%s(I as %s) = %s" % (nm, pack, fmt(one))})
    return {"v": v[:8], "t": t, "o": "%d|%s|%d|%d|%s" % (n, pack, ncombo, len(v), np.round(wants["gln_adjoint"], 3).tolist()), "nt": not np.array_equal(g, np.identity(n))}


# ------------------------------------------------------------------------------------------
# 5. SL(2,C) -> SO(3,1) and the action on Hermitian matrices
# ------------------------------------------------------------------------------------------
def case_sl2c(case):
    from geometry_tools import lie
    alpha = gaussian_sl2()
    g = alpha[case["i"]]
    v, t = [], 0
    J = np.diag([-1.0, 1.0, 1.0, 1.0])
    F = R.herm_det_form()

    def so31(x):
        return quiet(lambda: np.asarray(lie.sl2c_to_so31(x)))

    def herm(x):
        return quiet(lambda: np.asarray(lie.sl2c_herm_action(x)))
    Sg, Hg = so31(g), herm(g)
    t += 2
    if case["i"] == 0:
        for nm, f in (("sl2c_to_so31", so31), ("sl2c_herm_action", herm)):
            one = f(np.identity(2, dtype=complex))
            if not close(one, np.identity(4))[0]:
                v.append({"key": "sl2c/%s/identity" % nm, "msg": "%s(I) = %s" % (nm, fmt(one))})
    if np.iscomplexobj(Sg) and np.abs(np.imag(Sg)).max() > TOL:
        v.append({"key": "sl2c/sl2c_to_so31/real", "msg": "image of %s has imaginary part %.3g" % (fmt(g), np.abs(np.imag(Sg)).max())})
    Sg_r = np.real(Sg)
    ok, d = close(Sg_r.T @ J @ Sg_r, J)
    if not ok:
        v.append({"key": "sl2c/sl2c_to_so31/form", "msg": "rho(g)^T diag(-1,1,1,1) rho(g) != diag(-1,1,1,1) at g=%s (residual %.3g)" % (fmt(g), d)})
    ok, d = close(np.real(Hg), R.herm_action(g))
    if not ok:
        v.append({"key": "sl2c/sl2c_herm_action/value", "msg": "differs from X -> gXg^* in the documented basis at g=%s by %.3g" % (fmt(g), d)})
    ok, d = close(np.real(Hg).T @ F @ np.real(Hg), F)
    if not ok:
        v.append({"key": "sl2c/sl2c_herm_action/det-form", "msg": "the determinant form on Hermitian matrices is not preserved at g=%s (%.3g)" % (fmt(g), d)})
    dS = R.det(np.round(Sg_r).astype("int64")) if np.abs(Sg_r - np.round(Sg_r)).max() < 1e-9 else None
    if dS is not None and dS != 1:
        v.append({"key": "sl2c/sl2c_to_so31/determinant", "msg": "det rho(g) = %r at g=%s" % (dS, fmt(g))})
    nbad = 0
    for h in alpha:
        gh = g @ h
        t += 4
        ok1, d1 = close(so31(gh), Sg @ so31(h))
        ok2, d2 = close(herm(gh), Hg @ herm(h))
        if not ok1 and nbad < 2:
            v.append({"key": "sl2c/sl2c_to_so31/homomorphism", "msg": "rho(gh) != rho(g)rho(h) at g=%s h=%s (%.3g)" % (fmt(g), fmt(h), d1)})
        if not ok2 and nbad < 2:
            v.append({"key": "sl2c/sl2c_herm_action/homomorphism", "msg": "rho(gh) != rho(g)rho(h) at g=%s h=%s (%.3g)" % (fmt(g), fmt(h), d2)})
        nbad += (not ok1) + (not ok2)
    return {"v": v, "t": t, "o": "%d|%d|%s" % (len(v), nbad, np.round(Sg_r, 3).tolist()), "nt": True}


# ------------------------------------------------------------------------------------------
# 6. determinant of the irreducible representations
# ------------------------------------------------------------------------------------------
def _int_rows(M):
    return [[int(x) for x in r] for r in np.asarray(M).tolist()]


def case_irrep_det(case):
    from geometry_tools import lie
    n = case["n"]
    v = []
    if case["what"] == "alphabet":
        mats = int_mats_2x2(case["bound"], (1,))
        A = np.array(mats, dtype="float64")
        Rn = lie.sl2_irrep(A, n)
        if not (np.abs(Rn).max() < TWO53 and np.array_equal(Rn, np.round(Rn))):
            raise AssertionError("harness: non-integral or too large image")
        bad = []
        for a, r in zip(mats, Rn):
            d = R._det_py(_int_rows(r))
            if d != 1:
                bad.append((a, d))
            exp = R.sym_power(a, n)
            if _int_rows(r) != exp and len(v) < 2:
                v.append({"key": "irrep/value/n=%d" % n, "msg": "sl2_irrep(%r,%d) = %r, action on binary forms gives %r" % (a, n, _int_rows(r), exp)})
        if bad:
            v.append({"key": "irrep/determinant/n=%d" % n, "msg": "det sl2_irrep(A,%d) = %d at A=%r (%d of %d unimodular matrices)" % (
                n, bad[0][1], bad[0][0], len(bad), len(mats))})
        return {"v": v, "t": 1, "o": "alphabet|%d|%d|%d" % (n, len(mats), len(v)), "nt": True}
    if case["what"] == "complex":
        # the complex128 code path on Gaussian integers (exact): same polynomial identity
        al = gaussian_sl2()
        G = np.stack([g for g in al for _ in al])
        H = np.stack([h for _ in al for h in al])
        lhs, rhs = lie.sl2_irrep(G @ H, n), lie.sl2_irrep(G, n) @ lie.sl2_irrep(H, n)
        if not np.array_equal(lhs, rhs):
            i = int(np.argmax(np.abs(lhs - rhs).reshape(len(G), -1).max(axis=1) > 0))
            v.append({"key": "irrep/homomorphism-complex/n=%d" % n, "msg": "sl2_irrep(GH,%d) != sl2_irrep(G)sl2_irrep(H) at G=%s H=%s" % (n, fmt(G[i]), fmt(H[i]))})
        exp = np.stack([np.array(R.sym_power(g, n)) for g in al])
        if not np.array_equal(lie.sl2_irrep(np.stack(al), n), exp):
            v.append({"key": "irrep/value-complex/n=%d" % n, "msg": "sl2_irrep differs from the action on binary forms on the Gaussian alphabet"})
        return {"v": v, "t": 4, "o": "complex|%d|%d" % (n, len(v)), "nt": True}
    # polynomial identity det rho_n(A) = det(A)^(n(n-1)/2): degree <= n(n-1) in each entry
    base = n * (n - 1) + 1
    P = grid_block(base, 4, case["lo"], case["hi"])
    A = P.reshape(-1, 2, 2)
    Rn = lie.sl2_irrep(A, n)
    if not np.abs(Rn).max() < TWO53:
        raise AssertionError("harness: grid image not exact in float64")
    e = n * (n - 1) // 2
    nb = 0
    for a, r in zip(A, Rn):
        da = int(a[0, 0]) * int(a[1, 1]) - int(a[0, 1]) * int(a[1, 0])
        d = R._det_py(_int_rows(r))
        if d != da ** e:
            nb += 1
            if nb == 1:
                v.append({"key": "irrep/determinant-identity/n=%d" % n, "msg": "det sl2_irrep(A,%d) = %d != det(A)^%d = %d at A=%s" % (n, d, e, da ** e, fmt(a))})
    return {"v": v, "t": 1, "o": "grid|%d|%d|%d" % (n, case["lo"], nb), "nt": True}


# ------------------------------------------------------------------------------------------
# 7. arrays of matrices vs per-matrix calls
# ------------------------------------------------------------------------------------------
SHAPES = [()] + [(i,) for i in (1, 2, 3)] + [(i, j) for i in (1, 2, 3) for j in (1, 2, 3)]


def case_shapes(case):
    from geometry_tools import lie
    name, shape = case["map"], tuple(case["shape"])
    v = []
    if name.startswith("sl2_irrep"):
        n = int(name.split(":")[1])
        f, pool, k, m = (lambda Z: lie.sl2_irrep(Z, n)), [np.array(x, dtype="float64") for x in int_mats_2x2(2, (1,))], 2, n
    elif name == "sl2_to_so21":
        f, pool, k, m = lie.sl2_to_so21, [np.array(x, dtype="float64") for x in int_mats_2x2(2, (1,))], 2, 3
    elif name.startswith("slc_to_slr"):
        k = int(name.split(":")[1])
        base = [np.array(x, dtype="float64") for x in int_mats_2x2(2, (1, -1))]
        pool = []
        for i in range(len(base) - 3):
            Z = np.zeros((k, k), dtype=complex)
            for r in range(k):
                for c in range(k):
                    Z[r, c] = base[i + (r + c) % 3][r % 2, c % 2] + 1j * base[i + 1 + (r * c) % 2][c % 2, r % 2]
            pool.append(Z + 2 * np.identity(k))
        f, m = lie.slc_to_slr, 2 * k
    elif name.startswith("o_to_pgl"):
        # the documented inverse on arrays of shape (..., 3, 3): images of det +-1 matrices, every second one negated
        # (-S is in O(2,1) as well and takes the other sign branch), so that a stack mixes all pivots and signs
        variant = name.split(":")[1]
        sl = [np.array(x, dtype="float64") for x in int_mats_2x2(2, (1, -1))]
        pool = [(-1.0) ** i * np.asarray(lie.sl2_to_so21(a)) for i, a in enumerate(sl)]
        k, m = 3, 2
        if variant == "default":
            f = lie.o_to_pgl
        elif variant == "to_sl2":
            from geometry_tools import hyperbolic
            f = lambda Z: np.asarray(hyperbolic.Isometry(Z, column_vectors=True).to_sl2())
        else:
            Mc = np.array(FORM_CONJ[int(variant.split("=")[1])])
            Mci = np.linalg.inv(Mc)
            Bf = Mc.T @ np.diag([-1.0, 1.0, 1.0]) @ Mc
            pool = [Mci @ p_ @ Mc for p_ in pool]
            f = lambda Z: np.asarray(lie.o_to_pgl(Z, bilinear_form=Bf))
    else:
        k, m = [int(x) for x in name.split(":")[1:]]
        pool = []
        base = [np.array(x, dtype="float64") for x in int_mats_2x2(2, (1, -1))]
        for i in range(len(base) - 3):
            Z = np.zeros((k, k))
            for r in range(k):
                for c in range(k):
                    Z[r, c] = base[i + (r + c) % 3][r % 2, c % 2]
            pool.append(Z)
        f = lambda Z: lie.block_include(Z, m)
    up_to_sign = name.startswith("o_to_pgl")
    size = int(np.prod(shape)) if shape else 1
    X = np.stack([pool[(7 * i + 3) % len(pool)] for i in range(size)]).reshape(shape + (k, k))
    Y = np.stack([pool[(5 * i + 11) % len(pool)] for i in range(size)]).reshape(shape + (k, k))
    got = guard(v, "shapes/%s" % name.split("=")[0], lambda: np.asarray(f(X))) if up_to_sign else f(X)
    t = 1
    if got is None:
        return {"v": v, "t": t, "o": "%s|%r|exc" % (name, shape), "nt": True}
    if got.shape != shape + (m, m):
        v.append({"key": "shapes/%s/shape" % name.split(":")[0], "msg": "%s of an array of shape %r has shape %r" % (name, X.shape, got.shape)})
        return {"v": v, "t": t, "o": "%s|%r|shape" % (name, shape), "nt": True}
    for idx in itertools.product(*[range(s) for s in shape]):
        single = f(X[idx])
        t += 1
        if single.shape != (m, m) or not close(got[idx], single, 1e-9 if up_to_sign else 1e-12)[0]:
            v.append({"key": "shapes/%s/per-matrix" % name.split(":")[0],
                      "msg": "%s(array)[%r] differs from %s(array[%r]) for batch shape %r" % (name, idx, name, idx, shape)})
            break
    if up_to_sign:
        lhs, rhs = np.asarray(f(X @ Y)), got @ np.asarray(f(Y))
        ok, d = lhs.shape == rhs.shape, float("inf")
        if ok:
            sc = 1e-7 * (1 + np.abs(rhs).reshape(shape + (-1,)).max(axis=-1))
            dm = np.minimum(np.abs(lhs - rhs).reshape(shape + (-1,)).max(axis=-1), np.abs(lhs + rhs).reshape(shape + (-1,)).max(axis=-1))
            ok, d = bool(np.all(dm <= sc)), float(np.max(dm))
    else:
        ok, d = close(f(X @ Y), got @ f(Y))
    t += 2
    if not ok:
        v.append({"key": "shapes/%s/homomorphism" % name.split(":")[0], "msg": "%s(XY) != %s(X)%s(Y) for arrays of batch shape %r (%.3g)" % (name, name, name, shape, d)})
    return {"v": v, "t": t, "o": "%s|%r|%d" % (name, shape, len(v)), "nt": size > 1}


# ------------------------------------------------------------------------------------------
# 8. the lie.hom wrappers, alone and inside Representation.compose
# ------------------------------------------------------------------------------------------
def case_wrappers(case):
    from geometry_tools import lie
    from geometry_tools.lie import hom
    from geometry_tools.representation import Representation
    name = case["hom"]
    v, t = [], 0
    sl2 = [np.array(x, dtype="float64") for x in int_mats_2x2(2, (1,))]
    table = {
        "sl2_irrep:2": (lambda: hom.sl2_irrep(2), lambda M: lie.sl2_irrep(M, 2), sl2),
        "sl2_irrep:3": (lambda: hom.sl2_irrep(3), lambda M: lie.sl2_irrep(M, 3), sl2),
        "sl2_irrep:5": (lambda: hom.sl2_irrep(5), lambda M: lie.sl2_irrep(M, 5), sl2),
        "sl2_to_so21": (lambda: hom.sl2_to_so21(), lie.sl2_to_so21, sl2),
        "gln_adjoint": (lambda: hom.gln_adjoint(dtype="float64"), lambda M: lie.gln_adjoint(M, dtype="float64"), sl2),
        "sln_adjoint": (lambda: hom.sln_adjoint(dtype="float64"), lambda M: lie.sln_adjoint(M, dtype="float64"), sl2),
        "gln_adjoint:3": (lambda: hom.gln_adjoint(dtype="float64"), lambda M: lie.gln_adjoint(M, dtype="float64"), elementary_alphabet(3)),
        "sln_adjoint:3": (lambda: hom.sln_adjoint(dtype="float64"), lambda M: lie.sln_adjoint(M, dtype="float64"), elementary_alphabet(3)),
        "slc_to_slr": (lambda: hom.slc_to_slr(), lie.slc_to_slr, gaussian_sl2()),
        "sl2c_to_so31": (lambda: hom.sl2c_to_so31(), lie.sl2c_to_so31, gaussian_sl2()),
        "block_include:4": (lambda: hom.block_include(4), lambda M: lie.block_include(M, 4), sl2),
    }
    make, direct, pool = table[name]
    pool = pool[case["lo"]:case["hi"]]
    W = make()
    for M in pool:
        Mi = R.inverse(M)
        d0 = quiet(lambda: np.asarray(direct(M)))
        w1 = guard(v, name + ":wrapper(M)", lambda: np.asarray(W(M)))
        w2 = guard(v, name + ":wrapper(M,inv)", lambda: np.asarray(W(M, inv=Mi)))
        t += 3
        if w1 is not None and not close(w1, d0)[0]:
            v.append({"key": "wrappers/%s/value" % name.split(":")[0], "msg": "hom wrapper differs from lie.%s at %s" % (name, fmt(M))})
        if w2 is not None and not close(w2, d0)[0]:
            v.append({"key": "wrappers/%s/inv-argument" % name.split(":")[0], "msg": "hom wrapper with inv= differs from lie.%s at %s" % (name, fmt(M))})
        if len(v) > 3:
            break
    # inside Representation.compose: the composite sends words to hom(rho(w))
    for i in range(0, len(pool) - 1):
        a, b = pool[i], pool[i + 1]
        rep = Representation()
        rep["a"], rep["b"] = a.copy(), b.copy()
        model = R.RepModel().assign("a", a).assign("b", b)
        comp = guard(v, name + ":compose", lambda: rep.compose(W))
        if comp is None:
            break
        for w in R.all_words(["a", "b", "A", "B"], 2):
            got = np.asarray(comp["".join(w)])
            exp = quiet(lambda: np.asarray(direct(model.value(w).astype(a.dtype))))
            t += 1
            if not close(got, exp)[0]:
                v.append({"key": "wrappers/%s/compose" % name.split(":")[0],
                          "msg": "compose(hom.%s)[%r] != lie.%s(rho(%r)) for a=%s b=%s" % (name, "".join(w), name, "".join(w), fmt(a), fmt(b))})
                break
        if len(v) > 3:
            break
    return {"v": v[:4], "t": t, "o": "%s|%d|%d" % (name, case["lo"], len(v)), "nt": True}


# ------------------------------------------------------------------------------------------
# 9. O(2,1) -> PGL(2): recovery up to sign, homomorphism up to sign
# ------------------------------------------------------------------------------------------
def _pm_equal(X, Y):
    return close(X, Y)[0] or close(X, -np.asarray(Y))[0]


def _cls(A):
    a, b, c, d = int(A[0, 0]), int(A[0, 1]), int(A[1, 0]), int(A[1, 1])
    z = [nm for nm, x in (("a", a), ("b", b), ("c", c), ("d", d)) if x == 0]
    return "zero-entries=" + ("".join(z) or "none")


FORM_CONJ = [[[2.0, 0.0, 0.0], [0.0, 1.0, 0.0], [0.0, 0.0, 1.0]],          # B = diag(-4, 1, 1)
             [[1.0, 0.0, 0.0], [0.0, 1.0, 1.0], [0.0, 0.0, 1.0]],          # a shear: non-diagonal form
             [[1.0, 1.0, 0.0], [0.0, 2.0, 0.0], [1.0, 0.0, 1.0]],          # generic
             [[0.0, 1.0, 0.0], [1.0, 0.0, 0.0], [0.0, 0.0, 1.0]]]          # permutation: diag(1, -1, 1)


def case_pgl_form(case):
    """o_to_pgl(., bilinear_form=B) for B = M^T J M and the B-isometries M^-1 S M, S = sl2_to_so21(A).
    The diagonalising frame of B is only determined up to O(2,1), so only basis-independent facts are
    demanded: determinant one, identity -> +-I, homomorphism up to sign over all ordered pairs."""
    from geometry_tools import lie
    M = np.array(FORM_CONJ[case["form"]])
    Mi = np.linalg.inv(M)
    J = np.diag([-1.0, 1.0, 1.0])
    B = M.T @ J @ M
    mats = [np.array(x, dtype="float64") for x in int_mats_2x2(case["bound"], (1,))]
    A = mats[case["i"]]
    v, t = [], 0
    S1 = Mi @ np.asarray(lie.sl2_to_so21(A)) @ M
    assert np.max(np.abs(S1.T @ B @ S1 - B)) < 1e-9 * (1 + np.max(np.abs(S1)) ** 2), "harness: S1 does not preserve B"
    g1 = guard(v, "o_to_pgl(form)", lambda: np.asarray(lie.o_to_pgl(S1, bilinear_form=B)))
    t += 2
    if g1 is None:
        return {"v": v, "t": t, "o": "exc", "nt": True}
    # the same map through its generator-wise wrapper lie.hom.so21_to_sl2(bilinear_form=B) (what Representation.compose
    # is given): bound to the direct answer, which the clauses below decide
    from geometry_tools.lie import hom
    w1 = guard(v, "hom.so21_to_sl2(bilinear_form=B)", lambda: np.asarray(hom.so21_to_sl2(bilinear_form=B)(S1)))
    w2 = guard(v, "hom.so21_to_sl2(bilinear_form=B)(S, inv=)", lambda: np.asarray(hom.so21_to_sl2(bilinear_form=B)(S1, inv=np.linalg.inv(S1))))
    t += 2
    for how, w in (("", w1), ("/inv-argument", w2)):
        if w is not None and not (w.shape == g1.shape and np.all(np.isfinite(w) == np.isfinite(g1)) and
                                  np.allclose(w, g1, rtol=1e-9, atol=1e-9, equal_nan=True)):
            v.append({"key": "o_to_pgl/form/hom-wrapper%s" % how,
                      "msg": "lie.hom.so21_to_sl2(bilinear_form=B)(S) = %s differs from lie.o_to_pgl(S, bilinear_form=B) = %s for B = M^T J M, M = %s, S = M^-1 sl2_to_so21(%s) M" % (
                          fmt(w), fmt(g1), fmt(M), fmt(A))})
    tol = 1e-7 * (1 + float(np.max(np.abs(A))) ** 2)
    if not (np.all(np.isfinite(g1)) and abs(float(np.linalg.det(g1)) - 1.0) <= tol):
        v.append({"key": "o_to_pgl/form/determinant", "msg": "o_to_pgl(M^-1 sl2_to_so21(%s) M, form=M^T J M) = %s has determinant %.6g (M = %s)" % (fmt(A), fmt(g1), float(np.linalg.det(g1)), fmt(M))})
        return {"v": v, "t": t, "o": "det", "nt": True}
    nbad = 0
    first = None
    for A2 in mats:
        S2 = Mi @ np.asarray(lie.sl2_to_so21(A2)) @ M
        g2 = np.asarray(lie.o_to_pgl(S2, bilinear_form=B))
        g12 = np.asarray(lie.o_to_pgl(S1 @ S2, bilinear_form=B))
        t += 3
        sc = 1e-7 * (1 + float(np.max(np.abs(g1))) * float(np.max(np.abs(g2))))
        if not (np.max(np.abs(g12 - g1 @ g2)) <= sc or np.max(np.abs(g12 + g1 @ g2)) <= sc):
            nbad += 1
            first = first or (A2, g12, g1 @ g2)
    if nbad:
        v.append({"key": "o_to_pgl/form/homomorphism-up-to-sign", "msg": "form M^T J M with M = %s: o_to_pgl(S1 S2) = %s != +-o_to_pgl(S1) o_to_pgl(S2) = %s for A1 = %s, A2 = %s (%d partners)" % (
            fmt(M), fmt(first[1]), fmt(first[2]), fmt(A), fmt(first[0]), nbad)})
    return {"v": v, "t": t, "o": "%d|%d|%d" % (case["form"], case["i"], nbad), "nt": True}


def case_pgl(case):
    from geometry_tools import lie, hyperbolic
    mats = [np.array(x, dtype="float64") for x in int_mats_2x2(case["bound"], tuple(case["dets"]))]
    A = mats[case["i"]]
    v, t = [], 0
    P = np.array([[0.0, 1.0], [1.0, 0.0]])
    S = lie.sl2_to_so21(A)
    detA = int(round(A[0, 0] * A[1, 1] - A[0, 1] * A[1, 0]))
    Bm = guard(v, "o_to_pgl", lambda: np.asarray(lie.o_to_pgl(S)))
    t += 2
    if Bm is None:
        return {"v": v, "t": t, "o": "exc", "nt": True}
    rec = _pm_equal(Bm, A)
    if detA == 1:
        if not rec:
            how = "basis-swapped(PAP)" if _pm_equal(Bm, P @ A @ P) else "other"
            v.append({"key": "o_to_pgl/recovery/%s" % how,
                      "msg": "o_to_pgl(sl2_to_so21(A)) = %s is not +-A for A = %s (%s)" % (fmt(Bm), fmt(A), _cls(A))})
        iso = guard(v, "Isometry.to_sl2", lambda: np.asarray(hyperbolic.Isometry.from_sl2(A).to_sl2()))
        t += 1
        if iso is not None and not _pm_equal(iso, A):
            how = "basis-swapped(PAP)" if _pm_equal(iso, P @ A @ P) else "other"
            v.append({"key": "o_to_pgl/Isometry.to_sl2/%s" % how,
                      "msg": "Isometry.from_sl2(A).to_sl2() = %s is not +-A for A = %s" % (fmt(iso), fmt(A))})
    # homomorphism up to sign against every matrix of the alphabet (and against -S2, also in O(2,1))
    classes = {}
    for A2 in mats:
        S2 = lie.sl2_to_so21(A2)
        det2 = int(round(A2[0, 0] * A2[1, 1] - A2[0, 1] * A2[1, 0]))
        for neg in (False, True):
            if neg and not case.get("negated", True):
                continue
            T2 = -S2 if neg else S2
            try:
                lhs = np.asarray(lie.o_to_pgl(S @ T2))
                rhs = Bm @ np.asarray(lie.o_to_pgl(T2))
            except Exception as e:  # noqa: BLE001
                v.append(_exc_violation(e, "o_to_pgl(product)"))
                return {"v": v, "t": t, "o": "exc", "nt": True}
            t += 2
            if not _pm_equal(lhs, rhs):
                if any(int(round(M[1, 1])) == 0 for M in (A, A2, A @ A2)):
                    c = "lower-right-entry-zero"
                elif detA == -1 or det2 == -1:
                    c = "determinant-minus-one"
                elif neg:
                    c = "negated-isometry"
                else:
                    c = "other"
                classes.setdefault(c, [0, (A2, neg, lhs, rhs)])[0] += 1
    nbad = sum(x[0] for x in classes.values())
    for c, (k, (A2, neg, lhs, rhs)) in sorted(classes.items()):
        v.append({"key": "o_to_pgl/homomorphism-up-to-sign/%s" % c,
                  "msg": "o_to_pgl(S1 S2) = %s != +-o_to_pgl(S1) o_to_pgl(S2) = %s for S1 = sl2_to_so21(%s), S2 = %ssl2_to_so21(%s) (%d partners in this class)" % (
                      fmt(lhs), fmt(rhs), fmt(A), "-" if neg else "", fmt(A2), k)})
    return {"v": v, "t": t, "o": "%d|%s|%d|%s" % (detA, rec, nbad, _cls(A)), "nt": True}


# ------------------------------------------------------------------------------------------
def run(ctx):
    # the full exploration takes ~20 s on 16 cores, so the quick tier runs the thorough bounds as well
    q = False
    only = getattr(ctx, "only", None)

    def want(name):
        return not only or any(name.startswith(p) for p in only)
    ctx.rule = ("polynomial maps: the homomorphism law evaluated at every point of an integer product grid with "
                "(degree+1) values per variable, in vectorised blocks (one case = one block of grid indices); other maps: "
                "every element / pair of a complete finite alphabet of exactly representable matrices; a case is non-trivial "
                "when its matrices are not the identity")
    ctx.assume("sl2_irrep(A,n) has entries of degree <= n-1 in each entry of A, sl2_to_so21 of degree <= 2, slc_to_slr and "
               "block_include of total degree <= 1 (read off the code); hence the grids {0..n-1}^8, {0,1,2}^8, {0..4}^4 and the "
               "points with at most two non-zero coordinates in {1,2} decide the laws for all real and complex matrices")
    ctx.assume("float64/complex128 inputs (lie.sl2_irrep accumulates in the input dtype; integer arrays are outside the property)")
    ctx.assume("arrays of matrices are demanded for the maps written for shape (..., k, k): sl2_irrep, sl2_to_so21, slc_to_slr, "
               "block_include, and for o_to_pgl (docstring: (..., 3, 3) -> (..., 2, 2); homomorphism up to sign PER MATRIX of the array); "
               "gln_adjoint, sln_adjoint, sl2c_to_so31, sl2c_herm_action take one matrix")
    ctx.assume("adjoint-alphabet / adjoint-complex: gln_adjoint / sln_adjoint values are compared after conversion to float64 / complex128; "
               "adjoint-options demands in addition that the image of a real (float or integer) ndarray is a floating-point array for "
               "every combination of the options, the defaults included, and that utils.invert accepts it and returns Ad(g^-1)")
    ctx.assume("o_to_pgl: recovery demanded for determinant-one integer matrices; homomorphism up to sign on the images of "
               "determinant +-1 matrices under sl2_to_so21")
    ctx.tolerances["grid identities of sl2_irrep, slc_to_slr, block_include"] = "exact (==): all intermediate integers are < 2^53 (asserted per block)"
    ctx.tolerances["sl2_to_so21, adjoints, sl2c maps"] = ("|got-exp| <= 1e-9 (1 + max|exp|): the library inverts a fixed conjugating matrix / "
                                                           "the argument numerically; measured residual <= 1e-13")
    BLOCK = 65536
    if want("irrep-grid"):
        cases = []
        for n in ([2, 3, 4] if q else [2, 3, 4, 5, 6]):
            N = n ** 8
            for lo in range(0, N, BLOCK):
                cases.append({"n": n, "lo": lo, "hi": min(N, lo + BLOCK)})
        ctx.product("irrep-grid", "checks.c17:case_irrep_grid", cases,
                    domains={"n": "2..%d" % (4 if q else 6), "grid": "{0..n-1}^8 (entries of A and B)", "points": sum(c["hi"] - c["lo"] for c in cases)}, chunk=1)
    if want("irrep-single"):
        nf = len(sparse_family())
        cases = [{"n": n, "i": i} for n in range(2, 7) for i in range(nf)]
        ctx.assume("irrep-single: single-matrix and same-pattern-stack calls of sl2_irrep / sl2_to_so21 / Isometry.from_sl2 on matrices with "
                   "zero entries (diagonal, anti-diagonal, triangular; any non-zero determinant: the maps are polynomial); compared with "
                   "1e-9 (1 + max|exp|), all entries dyadic so the arithmetic is exact up to the fixed conjugation in sl2_to_so21")
        ctx.product("irrep-single", "checks.c17:case_irrep_single", cases,
                    domains={"n": "2..6", "g": "%d sparse matrices: diag(t,s), antidiag(t,s), t,s in %r; upper / lower triangular with entries in %r" % (nf, SP_VALS, SP_VALS3),
                             "h": "%d partners: all integer matrices with entries in [-1,1] and det +-1, 3 dense integer matrices, 8 of the sparse family; both orders" % len(sparse_partners()),
                             "calls": "every image by its own single-matrix call; stacks of 3 matrices with the same zero pattern; n = 3 also sl2_to_so21 and Isometry.from_sl2 / @"}, chunk=4)
    if want("so21-grid"):
        N = 3 ** 8
        cases = [{"what": "hom", "lo": 0, "hi": N}, {"what": "form"}]
        ctx.product("so21-grid", "checks.c17:case_so21_grid", cases,
                    domains={"homomorphism grid": "{0,1,2}^8 = %d points" % N, "form grid": "{0..4}^4 = 625 points, rho^T J rho = rho J rho^T = det(A)^2 J"}, chunk=1)
    if want("linear-maps"):
        cases = [{"map": "slc_to_slr", "k": k} for k in ([1, 2, 3] if q else [1, 2, 3, 4])]
        cases.append({"map": "slc_to_slr", "k": 1, "full": True})
        cases.append({"map": "slc_to_slr", "k": 2, "full": True})
        for k in (1, 2, 3):
            for m in range(k, k + 3):
                cases.append({"map": "block_include", "k": k, "m": m})
        ctx.product("linear-maps", "checks.c17:case_linear", cases,
                    domains={"slc_to_slr": "k x k complex, k = 1..%d: points with <= 2 non-zero real coordinates in {1,2}; k = 1,2 also the full {0,1}^(4k^2) grid" % (3 if q else 4),
                             "block_include": "k x k into m x m, k = 1..3, m = k..k+2"}, chunk=1)
    if want("purity"):
        ctx.product("purity", "checks.c17:case_purity", [{"rot": r} for r in range(len(_purity_calls()))], chunk=1,
                    domains={"maps": [c[0] for c in _purity_calls()], "orders": "every rotation of the list, forwards then backwards, all in one process",
                             "demand": "arguments unchanged, answers independent of earlier calls (module-level caches), returned arrays not rewritten"})
    if want("adjoint"):
        cases = []
        for n in ([2, 3] if q else [2, 3, 4]):
            for i in range(len(adjoint_alphabet(n, not q))):
                cases.append({"n": n, "i": i, "thorough": not q})
        ng = len(gaussian_sl2())
        ctx.product("adjoint-complex", "checks.c17:case_adjoint_complex", [{"i": i} for i in range(0, ng, 2 if q else 1)],
                    domains={"matrices": "Gaussian-integer 2x2, entries in {0,+-1,+-i}, det 1 (%d; quick: every second one as g, all as partners)" % ng,
                             "routes": ["lie.gln_adjoint(g)", "lie.gln_adjoint(g, dtype=complex128)", "lie.hom.gln_adjoint()(g)", "lie.sln_adjoint(g)"]}, chunk=2)
        ctx.product("adjoint-alphabet", "checks.c17:case_adjoint", cases,
                    domains={"n=2": "all integer matrices with entries in [-2,2], det +-1 (%d) + 3 non-unimodular" % len(int_mats_2x2(2, (1, -1))),
                             "n>=3": "elementary matrices E_ij(+-1), adjacent transpositions, a sign change" + ("" if q else ", a third of their pairwise products") + " + 3 non-unimodular",
                             "pairs": "every ordered pair of the alphabet"}, chunk=4)
    if want("adjoint"):
        cases = []
        for n in (2, 3, 4):
            al = adjoint_option_alphabet(n)
            for i, g in enumerate(al):
                for pack in ADJ_PACKS:
                    if pack in ("i64", "i32") and not np.array_equal(g, np.round(g)):
                        continue
                    cases.append({"n": n, "i": i, "pack": pack})
        ctx.assume("adjoint options: matrices are ndarrays (nested lists raise AttributeError in gln_adjoint / sln_adjoint: outside the input kind); "
                   "like=<integer array> without dtype= is an explicit request for an integer-typed result and is not exercised; every other "
                   "combination of inv= / like= / dtype= must give the matrix the defaults give, for float64, float32, int64 and int32 input")
        ctx.tolerances["adjoint options"] = "1e-9 (1 + max|exp|); 2e-5 for float32 input"
        ctx.product("adjoint-options", "checks.c17:case_adjoint_options", cases,
                    domains={"n": [2, 3, 4], "matrices": "SL(n,Z) elements with non-symmetric (and not bit-exactly invertible) inverses, a slice of the integer / "
                                                         "elementary alphabets, 3 non-unimodular elements of GL(n)",
                             "input dtypes": ADJ_PACKS, "inv=": ADJ_INV, "like=": ADJ_LIKE, "dtype=": ADJ_DTYPE,
                             "clauses": "value vs oracle, identity, homomorphism against 3 SL(n,Z) partners with the same dtype and options, Killing form"}, chunk=2)
    if want("sl2c"):
        cases = [{"i": i} for i in range(len(gaussian_sl2()))]
        ctx.product("sl2c-alphabet", "checks.c17:case_sl2c", cases,
                    domains={"alphabet": "all 2x2 matrices with entries in {0,+-1,+-i} and det 1 (%d); every ordered pair" % len(cases)}, chunk=4)
    if want("irrep-det"):
        cases = [{"what": "alphabet", "n": n, "bound": 2 if q else 3} for n in range(2, 7)]
        cases += [{"what": "complex", "n": n} for n in range(2, 7)]
        for n in ([2, 3] if q else [2, 3, 4]):
            base = n * (n - 1) + 1
            N = base ** 4
            for lo in range(0, N, 2048):
                cases.append({"what": "grid", "n": n, "lo": lo, "hi": min(N, lo + 2048)})
        ctx.product("irrep-determinant", "checks.c17:case_irrep_det", cases,
                    domains={"alphabet": "all integer matrices with entries in [-%d,%d], det 1; n = 2..6; exact integer determinant" % ((2, 2) if q else (3, 3)),
                             "identity": "det sl2_irrep(A,n) = det(A)^(n(n-1)/2) on {0..n(n-1)}^4, n = 2..%d, python integers" % (3 if q else 4),
                             "complex": "homomorphism law and values on all pairs of the Gaussian alphabet, n = 2..6"}, chunk=1)
    if want("shapes"):
        maps = ["sl2_irrep:2", "sl2_irrep:3", "sl2_irrep:4", "sl2_to_so21", "slc_to_slr:1", "slc_to_slr:2", "slc_to_slr:3",
                "block_include:2:4", "block_include:3:3", "block_include:1:2",
                "o_to_pgl:default", "o_to_pgl:to_sl2", "o_to_pgl:form=1", "o_to_pgl:form=2", "o_to_pgl:form=3"]
        if not q:
            maps += ["sl2_irrep:5", "sl2_irrep:6"]
        cases = [{"map": m, "shape": list(s)} for m in maps for s in SHAPES]
        ctx.product("array-shapes", "checks.c17:case_shapes", cases,
                    domains={"maps": maps, "batch shapes": [list(s) for s in SHAPES]}, chunk=8)
    if want("wrappers"):
        cases = []
        names = ["sl2_irrep:2", "sl2_irrep:3", "sl2_irrep:5", "sl2_to_so21", "gln_adjoint", "sln_adjoint", "gln_adjoint:3",
                 "sln_adjoint:3", "slc_to_slr", "sl2c_to_so31", "block_include:4"]
        for nm in names:
            size = {"gln_adjoint:3": len(elementary_alphabet(3)), "sln_adjoint:3": len(elementary_alphabet(3)),
                    "slc_to_slr": len(gaussian_sl2()), "sl2c_to_so31": len(gaussian_sl2())}.get(nm, len(int_mats_2x2(2, (1,))))
            step = 8 if q else 4
            for lo in range(0, size, step):
                cases.append({"hom": nm, "lo": lo, "hi": min(size, lo + (3 if q else 5))})
        ctx.product("hom-wrappers", "checks.c17:case_wrappers", cases,
                    domains={"wrappers": names, "matrices": "windows of the SL(2,Z) / Gaussian / elementary alphabets; compose on words of length <= 2"}, chunk=4)
    if want("o_to_pgl"):
        bound = 2 if q else 3
        n = len(int_mats_2x2(bound, (1, -1)))
        cases = [{"bound": bound, "dets": [1, -1], "i": i} for i in range(n)]
        n1 = len(int_mats_2x2(2, (1,)))
        fcases = [{"bound": 2, "form": f, "i": i} for f in range(len(FORM_CONJ)) for i in range(0, n1, 3 if q else 1)]
        ctx.product("o_to_pgl-forms", "checks.c17:case_pgl_form", fcases,
                    domains={"forms": "M^T diag(-1,1,1) M for %d matrices M (scaling, shear, generic, permutation)" % len(FORM_CONJ),
                             "isometries": "M^-1 sl2_to_so21(A) M, A over all det-1 integer matrices in [-2,2], all ordered pairs",
                             "routes": ["lie.o_to_pgl(S, bilinear_form=B)", "lie.hom.so21_to_sl2(bilinear_form=B)(S) and (S, inv=S^-1), bound to the direct call"]}, chunk=2)
        ctx.product("o_to_pgl", "checks.c17:case_pgl", cases,
                    domains={"alphabet": "all integer 2x2 matrices with entries in [-%d,%d] and det +-1 (%d); recovery for det 1, "
                                         "homomorphism up to sign for every ordered pair" % (bound, bound, n)}, chunk=4)
