"""C18 - the indefinite linear-algebra helpers meet their stated contracts.

Engine P throughout.  Forms B = Q^T D Q (D = diag(-1 x p, +1 x q), Q unimodular integer, exact),
row sets = ordered k-subsets of a small integer row alphabet whose leading Gram minors are non-zero
(decided with exact integer determinants), exact kernels / circumcentres from fractions
(mc/oracle/linalg.py), arc helpers on a complete grid of angle pairs.
"""
import functools
import itertools
import warnings
import math

import numpy as np

from mc.oracle import linalg as L

TAU = 1e-8          # Gram entries / orthogonality on the bounded-condition domain
TAU_ANGLE = 1e-9
RANK_RTOL = 1e-7


# ------------------------------------------------------------------------------------------
# shared helpers
# ------------------------------------------------------------------------------------------
def _form(case):
    n = case["p"] + case["q"]
    Q = L.unimodular_family(n)[case["conj"]]
    B = L.conj_form(L.diag_form(case["p"], case["q"]), Q)
    return B, np.array(B, dtype=float) * float(case.get("scale", 1.0))


def _defclass(case):
    return "definite" if case["p"] == 0 or case["q"] == 0 else "indefinite"


def _in_gs_domain(B, rows):
    """Gram-Schmidt precondition: all leading Gram minors of the ordered rows are non-zero."""
    return all(m != 0 for m in L.leading_minors(L.gram(B, rows)))


def _skip(why):
    return {"v": [], "t": 0, "o": "out-of-domain:" + why, "nt": False}


def _V(key, msg):
    return {"key": key, "msg": msg}


def _quiet(fn):
    """run a case function with NumPy / library warnings silenced (nothing is printed per case)."""
    @functools.wraps(fn)
    def wrapped(case):
        with warnings.catch_warnings():
            warnings.simplefilter("ignore")
            with np.errstate(all="ignore"):
                return fn(case)
    return wrapped


def _shape_tile(units, shape):
    """array of composite shape `shape` cycling through the unit arrays (floats)."""
    units = [np.asarray(u, dtype=float) for u in units]
    n = int(np.prod(shape)) if len(shape) else 1
    flat = np.stack([units[i % len(units)] for i in range(n)])
    return flat.reshape(tuple(shape) + units[0].shape), [i % len(units) for i in range(n)]


def _run_group(unit_fn, case):
    """Evaluate unit_fn on every ordered row set head + tail, tail running over the ordered
    (k - len(head))-subsets of the remaining rows of the alphabet.  One framework case = one group
    (keeps the enumeration in the workers); every unit is a separate library execution."""
    rows, k, head = case["alphabet"], case["k"], list(case["head"])
    rest = [i for i in range(len(rows)) if i not in head]
    base = {key: case[key] for key in ("p", "q", "conj") if key in case}
    v, t, outs, nt, units, indom = [], 0, set(), False, 0, 0
    for tail in itertools.permutations(rest, k - len(head)):
        c = dict(base)
        c["rows"] = [list(rows[i]) for i in head + list(tail)]
        r = unit_fn(c)
        units += 1
        t += r.get("t", 0)
        if r.get("nt"):
            nt = True
            indom += 1
            outs.add(r.get("o"))
        if len(v) < 4:
            v.extend(r.get("v", [])[:4 - len(v)])
    return {"v": v, "t": t, "nt": nt,
            "o": repr((base.get("p"), base.get("q"), base.get("conj"), k, head, units, indom, sorted(outs, key=repr)[:4]))}


def _gram_check(M, Bf):
    G = M @ Bf @ M.T
    off, un = L.offdiag_and_unit_error(G)
    return G, off, un


def _flag_ok(R, M, k):
    """span(M[:j]) == span(R[:j]) for j = 1..k (rank tests)."""
    for j in range(1, k + 1):
        if not L.same_span(R[:j], M[:j], RANK_RTOL):
            return j
    return 0


# ------------------------------------------------------------------------------------------
# indefinite_orthogonalize
# ------------------------------------------------------------------------------------------
def _check_orth_unit(v, R, O, Bf, cls, where):
    k = R.shape[0]
    if O.shape != R.shape:
        v.append(_V("orthogonalize/shape/" + where, "result shape %r for input %r" % (O.shape, R.shape)))
        return None
    if not np.all(np.isfinite(O)):
        v.append(_V("orthogonalize/non-finite/%s/%s" % (cls, where), "rows %r -> %r" % (R.tolist(), O.tolist())))
        return None
    G, off, un = _gram_check(O, Bf)
    if off > TAU or un > TAU:
        v.append(_V("orthogonalize/gram/%s/%s" % (cls, where),
                    "rows %r: Gram matrix off-diagonal %.3g, | |diag|-1 | %.3g" % (R.tolist(), off, un)))
        return None
    j = _flag_ok(R, O, k)
    if j:
        v.append(_V("orthogonalize/flag/%s/%s" % (cls, where),
                    "rows %r: first %d rows of the result do not span the first %d input rows" % (R.tolist(), j, j)))
    return tuple(int(round(x)) for x in np.diag(G))


@_quiet
def case_orth(case):
    from geometry_tools import utils
    B, Bf = _form(case)
    rows = case["rows"]
    if not _in_gs_domain(B, rows):
        return _skip("null-flag")
    R = np.array(rows, dtype=float)
    v = []
    cls = _defclass(case)
    O = utils.indefinite_orthogonalize(Bf, R.copy())
    signs = _check_orth_unit(v, R, O, Bf, cls, "single")
    t = 1
    if len(rows) == 1:
        # documented 1-D behaviour: a single vector is normalised
        o = utils.indefinite_orthogonalize(Bf, R[0].copy())
        t += 1
        if o.shape != (R.shape[1],):
            v.append(_V("orthogonalize/shape/vector", "shape %r" % (o.shape,)))
        else:
            nsq = float(o @ Bf @ o)
            if abs(abs(nsq) - 1.0) > TAU or not L.same_span(R[:1], o[None, :], RANK_RTOL):
                v.append(_V("orthogonalize/vector/" + cls, "vector %r -> %r, square norm %r" % (rows[0], o.tolist(), nsq)))
    return {"v": v, "t": t, "o": repr((case["p"], case["q"], signs)), "nt": True}


@_quiet
def case_orth_batch(case):
    from geometry_tools import utils
    B, Bf = _form(case)
    units = [r for r in case["rowsets"]]
    shape = tuple(case["shape"])
    arr, idx = _shape_tile(units, shape)
    cls = _defclass(case)
    O = utils.indefinite_orthogonalize(Bf, arr.copy())
    v = []
    if O.shape != arr.shape:
        return {"v": [_V("orthogonalize/shape/batch", "result shape %r for input %r" % (O.shape, arr.shape))], "t": 1,
                "o": "shape", "nt": True}
    Of = O.reshape((-1,) + arr.shape[-2:])
    Af = arr.reshape((-1,) + arr.shape[-2:])
    sig = set()
    for i in range(Af.shape[0]):
        s = _check_orth_unit(v, Af[i], Of[i], Bf, cls, "batch")
        sig.add(s)
        if v:
            break
    return {"v": v, "t": 1, "o": repr((shape, sorted(sig, key=repr))), "nt": True}


# ------------------------------------------------------------------------------------------
# find_isometry
# ------------------------------------------------------------------------------------------
def _null_kernel_diagnosis(M, Bf, k):
    """Harness-side classification only (numpy): does the Euclidean-orthonormal basis of the
    form-orthogonal complement that LAPACK's SVD returns for the orthogonalised partial frame have
    a vanishing leading Gram minor (so that Gram-Schmidt on it divides by ~0)?"""
    try:
        part = M[:k]
        if not np.all(np.isfinite(part)):
            return False
        _, _, vh = np.linalg.svd(part @ Bf)
        K = vh[k:]
        Gk = K @ Bf @ K.T
        for j in range(1, Gk.shape[0] + 1):
            if abs(np.linalg.det(Gk[:j, :j])) < 1e-6:
                return True
    except Exception:
        return False
    return False


def _check_iso_unit(v, R, M, Bf, k, fo, cls, where):
    n = Bf.shape[0]
    if M.shape != (n, n):
        v.append(_V("find_isometry/shape/" + where, "result shape %r, expected %r" % (M.shape, (n, n))))
        return None
    finite = bool(np.all(np.isfinite(M)))
    off = un = float("inf")
    if finite:
        G, off, un = _gram_check(M, Bf)
    if not finite or off > TAU or un > TAU:
        sub = "null-kernel-vector" if _null_kernel_diagnosis(M, Bf, k) else "other"
        v.append(_V("find_isometry/form-not-preserved/%s/%s/%s" % (sub, cls, where),
                    "partial frame %r force_oriented=%r: rows not orthonormal for the form "
                    "(off-diagonal %.3g, | |diag|-1 | %.3g, max entry %.3g)" % (R.tolist(), fo, off, un,
                                                                             float(np.nanmax(np.abs(M))) if M.size else 0.0)))
        return None
    j = _flag_ok(R, M, k)
    if j:
        v.append(_V("find_isometry/flag/%s/%s" % (cls, where),
                    "partial frame %r: first %d rows of the result do not span the first %d given rows" % (R.tolist(), j, j)))
    d = float(np.linalg.det(M))
    if fo and not d > 0:
        v.append(_V("find_isometry/orientation/%s/%s" % (cls, where),
                    "partial frame %r force_oriented=True: det = %r" % (R.tolist(), d)))
    return (tuple(int(round(x)) for x in np.diag(G)), d > 0)


@_quiet
def case_isometry(case):
    from geometry_tools import utils
    B, Bf = _form(case)
    rows = case["rows"]
    n = len(B)
    k = len(rows)
    if k >= n:
        return _skip("full-frame")
    if not _in_gs_domain(B, rows):
        return _skip("null-flag")
    R = np.array(rows, dtype=float)
    cls = _defclass(case)
    v, out, t = [], [], 0
    for fo in (False, True):
        M = utils.find_isometry(Bf, R.copy(), fo)
        t += 1
        out.append(_check_iso_unit(v, R, M, Bf, k, fo, cls, "single"))
        if k == 1:
            # the documented call with a single vector (Hyperplane.reflection_across uses it)
            M1 = utils.find_isometry(Bf, R[0].copy(), fo)
            t += 1
            _check_iso_unit(v, R, M1, Bf, k, fo, cls, "vector")
    return {"v": v, "t": t, "o": repr((case["p"], case["q"], out)), "nt": True}


@_quiet
def case_isometry_batch(case):
    from geometry_tools import utils
    B, Bf = _form(case)
    shape = tuple(case["shape"])
    arr, idx = _shape_tile(case["rowsets"], shape)
    k = arr.shape[-2]
    n = len(B)
    cls = _defclass(case)
    v, t, sig = [], 0, set()
    for fo in (False, True):
        M = utils.find_isometry(Bf, arr.copy(), fo)
        t += 1
        if M.shape != shape + (n, n):
            v.append(_V("find_isometry/shape/batch", "result shape %r for input %r" % (M.shape, arr.shape)))
            break
        Mf = M.reshape((-1, n, n))
        Af = arr.reshape((-1, k, n))
        for i in range(Af.shape[0]):
            sig.add(_check_iso_unit(v, Af[i], Mf[i], Bf, k, fo, cls, "batch"))
            if v:
                break
        if v:
            break
    return {"v": v, "t": t, "o": repr((shape, sorted(sig, key=repr))), "nt": True}


# ------------------------------------------------------------------------------------------
# find_isometry for diagonal forms diag(+-1) with the signs in EVERY order: M B M^T = B
# ------------------------------------------------------------------------------------------
def _frame_signs(B, rows):
    """Exact signs of the square norms of the Gram-Schmidt frame of the ordered rows (ratios of consecutive
    leading Gram minors); None outside the Gram-Schmidt domain."""
    minors = L.leading_minors(L.gram(B, rows))
    if any(m == 0 for m in minors):
        return None
    out, prev = [], 1
    for m in minors:
        out.append(1 if (m > 0) == (prev > 0) else -1)
        prev = m
    return out


def _check_preserving_unit(v, R, M, Bf, k, fo, order, where):
    n = Bf.shape[0]
    if M.shape != (n, n):
        v.append(_V("find_isometry/shape/diagonal-form/" + where, "result shape %r, expected %r" % (M.shape, (n, n))))
        return None
    if not np.all(np.isfinite(M)):
        v.append(_V("find_isometry/diagonal-form/non-finite/%s" % where, "partial frame %r, form diag%r" % (R.tolist(), np.diag(Bf).tolist())))
        return None
    G = M @ Bf @ M.T
    err = float(np.max(np.abs(G - Bf)))
    if err > TAU:
        off, un = L.offdiag_and_unit_error(G)
        sub = "sign-order" if off <= TAU and un <= TAU else "not-orthonormal"
        v.append(_V("find_isometry/diagonal-form/M-B-Mt-differs-from-B/%s/%s/%s" % (sub, order, where),
                    "form diag%r, partial frame %r (its frame has the signs of the leading diagonal entries), force_oriented=%r: "
                    "diag(M B M^T) = %r" % (np.diag(Bf).astype(int).tolist(), R.tolist(), fo, np.round(np.diag(G), 6).tolist())))
        return None
    j = _flag_ok(R, M, k)
    if j:
        v.append(_V("find_isometry/diagonal-form/flag/%s/%s" % (order, where),
                    "form diag%r, partial frame %r: first %d rows of the result do not span the first %d given rows" % (
                        np.diag(Bf).astype(int).tolist(), R.tolist(), j, j)))
    d = float(np.linalg.det(M))
    if fo and not d > 0:
        v.append(_V("find_isometry/diagonal-form/orientation/%s/%s" % (order, where),
                    "form diag%r, partial frame %r force_oriented=True: det = %r" % (np.diag(Bf).astype(int).tolist(), R.tolist(), d)))
    return d > 0


def _sign_order(signs):
    s = list(signs)
    if all(x == s[0] for x in s):
        return "definite"
    if s == sorted(s):
        return "negative-first"
    if s == sorted(s, reverse=True):
        return "positive-first"
    return "interleaved"


@_quiet
def case_isometry_diag(case):
    """All ordered k-subsets (k < n) of the row alphabet with a given first row, for the form B = diag(signs):
    when the Gram-Schmidt frame of the rows has the signs of the first k diagonal entries of B (exact test; a
    form-preserving completion then exists), find_isometry must return M with M B M^T = B, the flag and the
    orientation.  The first compatible row sets are also sent as batches, together with an incompatible one."""
    from geometry_tools import utils
    signs, rows, k, head = case["signs"], case["alphabet"], case["k"], list(case["head"])
    n = len(signs)
    B = [[signs[i] if i == j else 0 for j in range(n)] for i in range(n)]
    Bf = np.array(B, dtype=float)
    order = _sign_order(signs)
    rest = [i for i in range(len(rows)) if i not in head]
    v, t, outs, compat, incompat = [], 0, set(), [], []
    for tail in itertools.permutations(rest, k - len(head)):
        rs = [list(rows[i]) for i in head + list(tail)]
        fs = _frame_signs(B, rs)
        if fs is None:
            continue
        if fs != list(signs[:k]):
            incompat.append(rs)
            continue
        compat.append(rs)
        R = np.array(rs, dtype=float)
        for fo in (False, True):
            M = utils.find_isometry(Bf, R.copy(), fo)
            t += 1
            outs.add(_check_preserving_unit(v, R, M, Bf, k, fo, order, "single"))
            if k == 1:
                M1 = utils.find_isometry(Bf, R[0].copy(), fo)
                t += 1
                _check_preserving_unit(v, R, M1, Bf, k, fo, order, "vector")
        if len(v) >= 4:
            break
    if compat and not v:
        units = compat[:4] + incompat[:1]
        for shape in ((len(units),), (2, 3)):
            arr, idx = _shape_tile(units, shape)
            for fo in (False, True):
                M = utils.find_isometry(Bf, arr.copy(), fo)
                t += 1
                if M.shape != tuple(shape) + (n, n):
                    v.append(_V("find_isometry/shape/diagonal-form/batch", "result shape %r for input %r" % (M.shape, arr.shape)))
                    break
                Mf, Af = M.reshape((-1, n, n)), arr.reshape((-1, k, n))
                for i, u in enumerate(idx):
                    if u < len(compat[:4]):
                        _check_preserving_unit(v, Af[i], Mf[i], Bf, k, fo, order, "batch")
                    if v:
                        break
                if v:
                    break
            if v:
                break
    return {"v": v[:4], "t": t, "nt": bool(compat), "o": repr((signs, k, head, len(compat), len(incompat), sorted(outs, key=repr)))}


def diag_isometry_cases(nmax_all, extra, m_rows, seed):
    """every sign vector of length n <= nmax_all, and for the dimensions in `extra` the negative-first, positive-first
    and alternating vectors of every signature; ordered k-subsets grouped by first row as in rowset_groups."""
    for n in range(1, max([nmax_all] + list(extra)) + 1):
        if n <= nmax_all:
            vecs = [list(sv) for sv in itertools.product((-1, 1), repeat=n)]
        elif n in extra:
            vecs = []
            for pneg in range(n + 1):
                for sv in ([-1] * pneg + [1] * (n - pneg), [1] * (n - pneg) + [-1] * pneg):
                    if sv not in vecs:
                        vecs.append(sv)
            for sv in ([(-1) ** i for i in range(n)], [(-1) ** (i + 1) for i in range(n)]):
                if sv not in vecs:
                    vecs.append(sv)
        else:
            continue
        rows = L.row_alphabet(n, m_rows(n), seed)
        for sv in vecs:
            for k in range(1, n):
                heads = [[]] if k == 1 else [[i] for i in range(len(rows))]
                for head in heads:
                    yield {"signs": sv, "alphabet": rows, "k": k, "head": head}


# ------------------------------------------------------------------------------------------
# find_definite_isometry (accepts the row or the column convention, see run())
# ------------------------------------------------------------------------------------------
def _check_definite_unit(v, R, M, k, fo, where):
    n = R.shape[1]
    if M.shape != (n, n):
        v.append(_V("find_definite_isometry/shape/" + where, "result shape %r, expected %r" % (M.shape, (n, n))))
        return None
    err = float(np.max(np.abs(M @ M.T - np.eye(n))))
    if not err <= 1e-10:
        v.append(_V("find_definite_isometry/orthogonal/" + where, "vectors %r: |M M^T - 1| = %.3g" % (R.tolist(), err)))
        return None
    by_rows = _flag_ok(R, M, k) == 0
    by_cols = _flag_ok(R, M.T, k) == 0
    if not (by_rows or by_cols):
        v.append(_V("find_definite_isometry/flag/%s/%s" % ("force_oriented" if fo else "unoriented", where),
                    "vectors %r: neither the leading rows nor the leading columns of the result span the given flag" % (R.tolist(),)))
    d = float(np.linalg.det(M))
    if fo and not d > 0:
        v.append(_V("find_definite_isometry/orientation/" + where, "vectors %r force_oriented=True: det %r" % (R.tolist(), d)))
    return ("rows" if by_rows else "", "cols" if by_cols else "", d > 0)


@_quiet
def case_definite(case):
    from geometry_tools import utils
    rows = case["rows"]
    n = len(rows[0])
    k = len(rows)
    if k >= n:
        return _skip("full-frame")
    if L.exact_rank(rows) != k:
        return _skip("dependent")
    R = np.array(rows, dtype=float)
    v, out, t = [], [], 0
    for fo in (False, True):
        M = utils.find_definite_isometry(R.copy(), fo)
        t += 1
        out.append(_check_definite_unit(v, R, M, k, fo, "single"))
        if k == 1:
            M1 = utils.find_definite_isometry(R[0].copy(), fo)
            t += 1
            _check_definite_unit(v, R, M1, k, fo, "vector")
    return {"v": v, "t": t, "o": repr(out), "nt": True}


@_quiet
def case_definite_batch(case):
    from geometry_tools import utils
    shape = tuple(case["shape"])
    arr, idx = _shape_tile(case["rowsets"], shape)
    k, n = arr.shape[-2:]
    v, sig, t = [], set(), 0
    for fo in (False, True):
        M = utils.find_definite_isometry(arr.copy(), fo)
        t += 1
        if M.shape != shape + (n, n):
            v.append(_V("find_definite_isometry/shape/batch", "result shape %r for input %r" % (M.shape, arr.shape)))
            break
        Mf = M.reshape((-1, n, n))
        Af = arr.reshape((-1, k, n))
        for i in range(Af.shape[0]):
            sig.add(_check_definite_unit(v, Af[i], Mf[i], k, fo, "batch"))
            if v:
                break
        if v:
            break
    return {"v": v, "t": t, "o": repr((shape, sorted(sig, key=repr))), "nt": True}


# ------------------------------------------------------------------------------------------
# orthogonal_complement, projection
# ------------------------------------------------------------------------------------------
@_quiet
def case_complement(case):
    from geometry_tools import utils
    B, Bf = _form(case)
    rows = case["rows"]
    n, k = len(B), len(rows)
    if k >= n:
        return _skip("full-frame")
    if L.exact_rank(rows) != k:
        return _skip("dependent")
    R = np.array(rows, dtype=float)
    cls = _defclass(case)
    v, t, out = [], 0, []
    modes = ["euclidean", None] + (["form"] if cls == "definite" else [])
    forms = [("given", Bf)] + ([("default", None)] if case["p"] == 0 and case["conj"] == 0 else [])
    for (fname, fm) in forms:
        for mode in modes:
            C = utils.orthogonal_complement(R.copy(), None if fm is None else fm.copy(), normalize=mode)
            t += 1
            where = "%s/%s" % (mode, cls)
            if C.shape != (n - k, n):
                v.append(_V("orthogonal_complement/shape/" + where, "vectors %r: shape %r, expected %r" % (rows, C.shape, (n - k, n))))
                continue
            pair = C @ Bf @ R.T
            scale = 1.0 + float(np.max(np.abs(C))) * float(np.max(np.abs(Bf @ R.T)))
            if not float(np.max(np.abs(pair))) <= TAU * scale:
                v.append(_V("orthogonal_complement/orthogonal/" + where, "vectors %r: max pairing %.3g" % (rows, float(np.max(np.abs(pair))))))
                continue
            if L.num_rank(C, RANK_RTOL) != n - k:
                v.append(_V("orthogonal_complement/rank/" + where, "vectors %r: rank %d" % (rows, L.num_rank(C, RANK_RTOL))))
            if mode == "euclidean":
                un = float(np.max(np.abs(np.linalg.norm(C, axis=-1) - 1.0)))
                if un > TAU:
                    v.append(_V("orthogonal_complement/unit/" + where, "vectors %r: Euclidean norms off by %.3g" % (rows, un)))
            if mode == "form":
                G, off, un = _gram_check(C, Bf)
                if off > TAU or un > TAU:
                    v.append(_V("orthogonal_complement/unit/" + where, "vectors %r: Gram off-diagonal %.3g diag %.3g" % (rows, off, un)))
            out.append((fname, mode, C.shape))
    return {"v": v, "t": t, "o": repr((case["p"], case["q"], n - k)), "nt": True}


@_quiet
def case_projection(case):
    """projection(v1, v2, B) = v2 <v1,v2>/<v2,v2> on all ordered pairs of the row alphabet (one
    batched call of every rank plus the scalar calls)."""
    from geometry_tools import utils
    B, Bf = _form(case)
    rows = case["rows"]
    v, t = [], 0
    pairs = [(a, b) for a in rows for b in rows if L.gram(B, [b])[0][0] != 0]
    if not pairs:
        return _skip("all-null")
    want = []
    for a, b in pairs:
        ab = L.gram(B, [a, b])
        want.append([float(L.Fraction(ab[0][1] * x, ab[1][1])) for x in b])
    want = np.array(want)
    V1 = np.array([p[0] for p in pairs], dtype=float)
    V2 = np.array([p[1] for p in pairs], dtype=float)
    got = utils.projection(V1.copy(), V2.copy(), Bf)
    t += 1
    if got.shape != want.shape or not np.allclose(got, want, rtol=0, atol=1e-12 * (1 + np.max(np.abs(want)))):
        v.append(_V("projection/batch-rank1", "batched projection differs from v2<v1,v2>/<v2,v2> (max %.3g)" % (
            float(np.max(np.abs(got - want))) if got.shape == want.shape else float("nan"))))
    for i, (a, b) in enumerate(pairs):
        g = utils.projection(V1[i].copy(), V2[i].copy(), Bf)
        t += 1
        if g.shape != want[i].shape or not np.allclose(g, want[i], rtol=0, atol=1e-12 * (1 + np.max(np.abs(want[i])))):
            v.append(_V("projection/single", "projection(%r, %r) = %r, expected %r" % (a, b, g.tolist(), want[i].tolist())))
            break
    m = len(pairs) - len(pairs) % 2
    if m >= 2:
        g2 = utils.projection(V1[:m].reshape(2, m // 2, -1).copy(), V2[:m].reshape(2, m // 2, -1).copy(), Bf)
        t += 1
        if g2.shape != (2, m // 2, V1.shape[1]) or not np.allclose(g2.reshape(m, -1), want[:m], rtol=0, atol=1e-12 * (1 + np.max(np.abs(want)))):
            v.append(_V("projection/batch-rank2", "rank-2 batched projection differs"))
    return {"v": v, "t": t, "o": repr((case["p"], case["q"], case["conj"], len(pairs))), "nt": True}


# ------------------------------------------------------------------------------------------
# diagonalize_form, permute_along_axis
# ------------------------------------------------------------------------------------------
def _expected_order_ok(signs, p, q, order, reverse):
    """signs: list of +-1 (diagonal of W^T B W); p negative, q positive directions."""
    neg_first = [-1] * p + [1] * q
    pos_first = [1] * q + [-1] * p
    if not order:
        return sorted(signs) == sorted(neg_first)
    if order == "signed":
        return signs == (pos_first if reverse else neg_first)
    if order == "minkowski":
        if p == q:      # the property fixes no tie-break: any grouped order
            return signs in (neg_first, pos_first)
        rarer_first = neg_first if p < q else pos_first
        commoner_first = pos_first if p < q else neg_first
        return signs == (commoner_first if reverse else rarer_first)
    raise ValueError(order)


def _check_diag_unit(v, Bf, W, Winv, p, q, order, reverse, where):
    n = Bf.shape[0]
    okey = "%s%s" % (order if order else "none", "-reverse" if reverse else "")
    if W.shape != (n, n) or (Winv is not None and Winv.shape != (n, n)):
        v.append(_V("diagonalize_form/shape/" + where, "W shape %r" % (W.shape,)))
        return None
    G = W.T @ Bf @ W
    off, un = L.offdiag_and_unit_error(G)
    if not (off <= TAU and un <= TAU):
        v.append(_V("diagonalize_form/diagonal/%s/%s" % (okey, where),
                    "signature (%d,%d): W^T B W off-diagonal %.3g, | |diag|-1 | %.3g" % (p, q, off, un)))
        return None
    signs = [int(round(x)) for x in np.diag(G)]
    if not _expected_order_ok(signs, p, q, order, reverse):
        v.append(_V("diagonalize_form/order/%s/%s" % (okey, where),
                    "signature (%d negative, %d positive), order_eigenvalues=%r reverse=%r: diagonal signs %r" % (p, q, order, reverse, signs)))
    if Winv is not None:
        e = float(np.max(np.abs(W @ Winv - np.eye(n))))
        if not e <= TAU:
            v.append(_V("diagonalize_form/inverse/%s/%s" % (okey, where), "|W Winv - 1| = %.3g" % e))
    return tuple(signs)


@_quiet
def case_diagform(case):
    from geometry_tools import utils
    B, Bf = _form(case)
    p, q = case["p"], case["q"]
    if np.linalg.cond(Bf) > 1e4:
        return _skip("ill-conditioned-form")
    v, out, t = [], [], 0
    for order in ("signed", "minkowski", None):
        for reverse in (False, True):
            for winv in (True, False):
                r = utils.diagonalize_form(Bf.copy(), order_eigenvalues=order, reverse=reverse, with_inverse=winv)
                t += 1
                if winv:
                    if not (isinstance(r, tuple) and len(r) == 2):
                        v.append(_V("diagonalize_form/return/with_inverse", "returned %r" % (type(r),)))
                        continue
                    W, Wi = r
                else:
                    if isinstance(r, tuple):
                        v.append(_V("diagonalize_form/return/without_inverse", "returned a tuple"))
                        continue
                    W, Wi = r, None
                out.append(_check_diag_unit(v, Bf, W, Wi, p, q, order, reverse, "single"))
    # defaults: signed, with inverse
    W, Wi = utils.diagonalize_form(Bf.copy())
    t += 1
    _check_diag_unit(v, Bf, W, Wi, p, q, "signed", False, "single-default")
    return {"v": v, "t": t, "o": repr((p, q, case["conj"], case.get("scale", 1.0), out[:4])), "nt": True}


@_quiet
def case_diagform_batch(case):
    from geometry_tools import utils
    forms = [_form(f)[1] for f in case["forms"]]
    sigs = [(f["p"], f["q"]) for f in case["forms"]]
    forms_ok = [i for i, F in enumerate(forms) if np.linalg.cond(F) <= 1e4]
    forms = [forms[i] for i in forms_ok]
    sigs = [sigs[i] for i in forms_ok]
    shape = tuple(case["shape"])
    arr, idx = _shape_tile(forms, shape)
    n = arr.shape[-1]
    order, reverse = case["order"], case["reverse"]
    W, Wi = utils.diagonalize_form(arr.copy(), order_eigenvalues=order, reverse=reverse, with_inverse=True)
    v = []
    if W.shape != arr.shape or Wi.shape != arr.shape:
        return {"v": [_V("diagonalize_form/shape/batch", "W shape %r for input %r" % (W.shape, arr.shape))], "t": 1, "o": "shape", "nt": True}
    Wf, Wif, Af = W.reshape((-1, n, n)), Wi.reshape((-1, n, n)), arr.reshape((-1, n, n))
    out = []
    for i in range(Af.shape[0]):
        p, q = sigs[idx[i]]
        out.append(_check_diag_unit(v, Af[i], Wf[i], Wif[i], p, q, order, reverse, "batch"))
        if v:
            break
    return {"v": v, "t": 1, "o": repr((shape, order, reverse, out[:3])), "nt": len(set(sigs)) > 1}


@_quiet
def case_permute(case):
    """permute_along_axis has no docstring; the only law demanded is that inverse=True undoes
    inverse=False along the same axis and that slices are permuted, not altered (its convention is
    checked through diagonalize_form)."""
    from geometry_tools import utils
    n, axis = case["n"], case["axis"]
    shape = tuple(case["shape"])
    v, t = [], 0
    base = np.arange(1, int(np.prod(shape + (n, n))) + 1, dtype=float).reshape(shape + (n, n))
    for perm in L.permutations(n):
        P = np.broadcast_to(np.array(perm), shape + (n,)).copy()
        a = utils.permute_along_axis(base.copy(), P, axis, inverse=False)
        b = utils.permute_along_axis(a.copy(), P, axis, inverse=True)
        t += 2
        if a.shape != base.shape or not np.array_equal(b, base):
            v.append(_V("permute_along_axis/roundtrip/axis%d" % axis, "perm %r shape %r: inverse does not undo" % (perm, shape)))
            break
        want_put = np.empty_like(base)
        idx = [slice(None)] * base.ndim
        for i, s in enumerate(perm):
            src, dst = list(idx), list(idx)
            src[axis], dst[axis] = i, s
            want_put[tuple(dst)] = base[tuple(src)]
        want_take = np.take(base, perm, axis=axis)
        if not (np.array_equal(a, want_put) or np.array_equal(a, want_take)):
            v.append(_V("permute_along_axis/not-a-permutation/axis%d" % axis, "perm %r shape %r" % (perm, shape)))
            break
    return {"v": v, "t": t, "o": repr((n, axis, shape)), "nt": n > 1}


# ------------------------------------------------------------------------------------------
# kernel / svd_kernel
# ------------------------------------------------------------------------------------------
def _kclass(m, n, r):
    if r == min(m, n):
        if m == n:
            return "full-rank-square"
        return "full-rank-tall" if m > n else "full-rank-wide"
    return "rank-deficient"


def _check_kernel_unit(v, A, K, r, where):
    m, n = A.shape
    cls = _kclass(m, n, r)
    if K.ndim != 2 or K.shape != (n, n - r):
        v.append(_V("kernel/dimension/%s/%s" % (cls, where),
                    "matrix %r (rank %d): kernel array of shape %r, expected %r" % (A.tolist(), r, K.shape, (n, n - r))))
        return
    if n - r == 0:
        return
    e = float(np.max(np.abs(A @ K)))
    if not e <= TAU * (1 + float(np.max(np.abs(A)))):
        v.append(_V("kernel/annihilated/%s/%s" % (cls, where), "matrix %r: |A K| = %.3g" % (A.tolist(), e)))
    e = float(np.max(np.abs(K.T @ K - np.eye(n - r))))
    if not e <= TAU:
        v.append(_V("kernel/orthonormal/%s/%s" % (cls, where), "matrix %r: |K^T K - 1| = %.3g" % (A.tolist(), e)))


def _mat_from_code(code, m, n, alpha):
    a = len(alpha)
    ent = []
    for _ in range(m * n):
        ent.append(alpha[code % a])
        code //= a
    return [ent[i * n:(i + 1) * n] for i in range(m)]


@_quiet
def case_kernel(case):
    """A block of consecutive integer matrices (entries from `alpha`, enumeration index
    lo..hi-1 in base len(alpha)) of one shape."""
    from geometry_tools import utils
    m, n, alpha = case["m"], case["n"], case["alpha"]
    v, t, classes = [], 0, set()
    for code in range(case["lo"], case["hi"]):
        rows = _mat_from_code(code, m, n, alpha)
        r = L.exact_rank(rows)
        A = np.array(rows, dtype=float)
        K = utils.kernel(A.copy())
        t += 1
        classes.add((_kclass(m, n, r), n - r))
        nv = len(v)
        _check_kernel_unit(v, A, K, r, "single")
        if len(v) > 6:
            break
    return {"v": v[:6], "t": t, "o": repr((m, n, sorted(classes))), "nt": True}


@_quiet
def case_kernel_batch(case):
    from geometry_tools import utils
    mats = case["mats"]
    shape = tuple(case["shape"])
    ranks = [L.exact_rank(M) for M in mats]
    assert len(set(ranks)) == 1
    r = ranks[0]
    arr, idx = _shape_tile(mats, shape)
    m, n = arr.shape[-2:]
    K = utils.kernel(arr.copy())
    v = []
    if K.shape[:len(shape)] != shape or K.ndim != len(shape) + 2:
        return {"v": [_V("kernel/shape/batch", "kernel array shape %r for input %r" % (K.shape, arr.shape))], "t": 1, "o": "shape", "nt": True}
    nb = int(np.prod(shape))
    Kf = K.reshape((nb,) + K.shape[-2:])
    Af = arr.reshape((nb, m, n))
    for i in range(Af.shape[0]):
        _check_kernel_unit(v, Af[i], Kf[i], r, "batch")
        if v:
            break
    return {"v": v, "t": 1, "o": repr((m, n, r, shape)), "nt": True}


@_quiet
def case_svd_kernel_mixed(case):
    """svd_kernel(matching_rank=False, with_dimensions=True, with_loc=True) on a stack of matrices of
    different ranks: every returned basis is a kernel basis of its matrices."""
    from geometry_tools.utils import numerical
    mats = case["mats"]
    arr = np.array(mats, dtype=float)
    ranks = [L.exact_rank(M) for M in mats]
    m, n = arr.shape[-2:]
    dims, bases, locs = numerical.svd_kernel(arr.copy(), matching_rank=False, with_dimensions=True, with_loc=True)
    v = []
    want_dims = sorted(set(n - r for r in ranks))
    if sorted(int(d) for d in dims) != want_dims:
        v.append(_V("svd_kernel/mixed-rank/dimensions", "dimensions %r, expected %r" % (list(map(int, dims)), want_dims)))
    else:
        for d, Kb, loc in zip(dims, bases, locs):
            where = [i for i in range(len(mats)) if bool(np.asarray(loc)[i])]
            if where != [i for i in range(len(mats)) if n - ranks[i] == int(d)]:
                v.append(_V("svd_kernel/mixed-rank/location", "dimension %d located at %r" % (int(d), where)))
                continue
            for j, i in enumerate(where):
                _check_kernel_unit(v, arr[i], np.asarray(Kb)[j], ranks[i], "mixed")
    return {"v": v[:4], "t": 1, "o": repr((m, n, ranks)), "nt": len(set(ranks)) > 1}


# ------------------------------------------------------------------------------------------
# sphere_through / circle_through
# ------------------------------------------------------------------------------------------
def _check_sphere_unit(v, pts, centre, radius, where, rel=1e-9):
    d = len(pts[0])
    P = np.array(pts, dtype=float)
    c_ex, r2 = L.exact_circumcentre(pts)
    c_ex = np.array([float(x) for x in c_ex])
    r_ex = math.sqrt(float(r2))
    centre = np.asarray(centre)
    if centre.shape != (d,) or np.ndim(radius) != 0:
        v.append(_V("sphere_through/shape/dim%d/%s" % (d, where), "centre shape %r radius shape %r" % (centre.shape, np.shape(radius))))
        return
    tol = rel * (1 + r_ex + float(np.max(np.abs(c_ex))))
    dist = np.linalg.norm(P - centre, axis=-1)
    if not float(np.max(np.abs(dist - float(radius)))) <= tol:
        v.append(_V("sphere_through/contains/dim%d/%s" % (d, where),
                    "points %r: distances to the centre %r, radius %r" % (pts, dist.tolist(), float(radius))))
        return
    if not (float(np.max(np.abs(centre - c_ex))) <= tol and abs(float(radius) - r_ex) <= tol):
        v.append(_V("sphere_through/centre/dim%d/%s" % (d, where),
                    "points %r: centre %r radius %r, exact %r %r" % (pts, centre.tolist(), float(radius), c_ex.tolist(), r_ex)))


@_quiet
def case_sphere(case):
    """all orderings given in case["sets"] (each a list of d+1 integer points of Z^d)."""
    from geometry_tools import utils
    v, t, n_ok = [], 0, 0
    for pts in case["sets"]:
        if not L.affinely_independent(pts):
            continue
        n_ok += 1
        P = np.array(pts, dtype=float)
        c, r = utils.sphere_through(P.copy())
        t += 1
        _check_sphere_unit(v, pts, c, r, "single")
        if len(pts[0]) == 2:
            c, r = utils.circle_through(P[0].copy(), P[1].copy(), P[2].copy())
            t += 1
            _check_sphere_unit(v, pts, c, r, "circle_through")
        if len(v) > 4:
            break
    return {"v": v[:4], "t": t, "o": repr((len(case["sets"][0][0]), n_ok, case["sets"][0])), "nt": n_ok > 0}


@_quiet
def case_sphere_batch(case):
    from geometry_tools import utils
    sets = [s for s in case["sets"] if L.affinely_independent(s)]
    shape = tuple(case["shape"])
    arr, idx = _shape_tile(sets, shape)
    d = arr.shape[-1]
    v = []
    c, r = utils.sphere_through(arr.copy())
    t = 1
    results = [("batch", c, r)]
    if d == 2:
        c2, r2 = utils.circle_through(arr[..., 0, :].copy(), arr[..., 1, :].copy(), arr[..., 2, :].copy())
        t += 1
        results.append(("circle_through-batch", c2, r2))
    for where, c, r in results:
        c, r = np.asarray(c), np.asarray(r)
        if c.shape != shape + (d,) or r.shape != shape:
            v.append(_V("sphere_through/shape/dim%d/%s" % (d, where), "centre %r radius %r for input %r" % (c.shape, r.shape, arr.shape)))
            continue
        cf, rf = c.reshape((-1, d)), r.reshape((-1,))
        for i in range(cf.shape[0]):
            _check_sphere_unit(v, sets[idx[i]], cf[i], rf[i], where)
            if v:
                break
    return {"v": v[:4], "t": t, "o": repr((d, shape, len(sets))), "nt": True}


# sphere_through / circle_through: points of MIXED numeric kinds --------------------------------
MIX_INT = [[0, 0], [2, -1], [-3, 1]]                       # integer-valued points
MIX_FRAC = [[1.5, -2.25], [-0.75, 3.5], [2.25, 0.5]]       # dyadic, exact in float32 and as Fractions
MIX_PACKS_INT = ["i64", "i32", "f64", "f32", "list", "tuple"]
MIX_PACKS_FRAC = ["f64", "f32", "list", "tuple"]
TOL_F32 = 2e-4       # some point float32: float32 accuracy is accepted (all-float32 input is computed in float32, measured <= 2e-6)


def _mix_pack(pt, how):
    """One point (or an array of points) in a numeric kind; integer kinds only for integer-valued points."""
    a = np.array(pt, dtype=float)
    if how in ("i64", "i32"):
        assert np.array_equal(a, np.round(a))
        return a.astype({"i64": np.int64, "i32": np.int32}[how])
    if how == "f64":
        return a.copy()
    if how == "f32":
        return a.astype(np.float32)
    integral = bool(np.array_equal(a, np.round(a)))
    def conv(x):
        if isinstance(x, list):
            return [conv(y) for y in x]
        return int(x) if integral else float(x)          # integer-valued points as Python ints
    lst = conv(a.tolist())
    if how == "list":
        return lst
    def tup(x):
        return tuple(tup(y) for y in x) if isinstance(x, list) else x
    return tup(lst)


def _kind(how):
    return {"i64": "integer-array", "i32": "integer-array", "f32": "float32-array", "f64": "float64-array"}.get(how, how)


@_quiet
def case_sphere_mixed(case):
    """circle_through(p1, p2, p3) for one ordered triple of the mixed alphabet under EVERY assignment of numeric
    kinds to the three points; sphere_through of the integer-valued sets as integer / float32 ndarrays."""
    from geometry_tools import utils
    v, t = [], 0
    if case["what"] == "circle":
        alpha = MIX_INT + MIX_FRAC
        pts = [alpha[i] for i in case["triple"]]
        if not L.affinely_independent(pts):
            return {"v": [], "t": 0, "o": "dependent", "nt": False}
        packs = [MIX_PACKS_INT if i < len(MIX_INT) else MIX_PACKS_FRAC for i in case["triple"]]
        for hows in itertools.product(*packs):
            args = [_mix_pack(p_, h) for p_, h in zip(pts, hows)]
            snaps = [np.array(a, copy=True) if isinstance(a, np.ndarray) else None for a in args]
            where = "circle_through-mixed/first=%s/others=%s" % (_kind(hows[0]), "+".join(sorted({_kind(h) for h in hows[1:]})))
            try:
                c, r = utils.circle_through(*args)
            except Exception as e:  # noqa: BLE001
                v.append(_V("sphere_through/raises/dim2/%s" % where, "circle_through of %r packaged as %r raises %s: %s" % (pts, hows, type(e).__name__, str(e)[:160])))
                continue
            t += 1
            if any(sn is not None and not np.array_equal(a, sn) for a, sn in zip(args, snaps)):
                v.append(_V("sphere_through/input-mutated/dim2/%s" % where, "circle_through changed one of its arguments (%r as %r)" % (pts, hows)))
            _check_sphere_unit(v, pts, c, r, where, rel=TOL_F32 if any(h == "f32" for h in hows) else 1e-9)
            if len(v) > 5:
                break
        return {"v": v[:6], "t": t, "o": repr(case["triple"]), "nt": True}
    if case["what"] == "circle-batch":
        # arrays of points: argument number `pos` is an integer-typed (or float32) array, the others float64 arrays of
        # non-integral points
        shape, pos, how = tuple(case["shape"]), case["pos"], case["pack"]
        n = int(np.prod(shape))
        trip = []
        for k in range(n):
            a, b, c_ = MIX_INT[k % 3], MIX_FRAC[(k + 1) % 3], MIX_FRAC[(k + 2) % 3]
            t3 = [b, c_]
            t3.insert(pos, a)
            trip.append(t3)
        if not all(L.affinely_independent(t3) for t3 in trip):
            return {"v": [], "t": 0, "o": "dependent", "nt": False}
        args = []
        for j in range(3):
            arr = np.array([t3[j] for t3 in trip], dtype=float).reshape(shape + (2,))
            args.append(_mix_pack(arr, how) if j == pos else arr)
        where = "circle_through-mixed-batch/%s-argument-%d" % (_kind(how), pos + 1)
        c, r = utils.circle_through(*args)
        t += 1
        c, r = np.asarray(c), np.asarray(r)
        if c.shape != shape + (2,) or r.shape != shape:
            v.append(_V("sphere_through/shape/dim2/%s" % where, "centre %r radius %r for points of shape %r" % (c.shape, r.shape, shape + (2,))))
        else:
            cf, rf = c.reshape((-1, 2)), r.reshape((-1,))
            for k in range(n):
                _check_sphere_unit(v, trip[k], cf[k], rf[k], where)
                if v:
                    break
        return {"v": v[:4], "t": t, "o": repr((shape, pos, how)), "nt": True}
    # sphere_through(points) with an integer-typed / float32 ndarray of integer points, single and batched
    sets = [s_ for s_ in case["sets"] if L.affinely_independent(s_)]
    how = case["pack"]
    d = len(sets[0][0])
    for s_ in sets:
        c, r = utils.sphere_through(_mix_pack(s_, how))
        t += 1
        _check_sphere_unit(v, s_, c, r, "sphere_through-%s" % _kind(how), rel=TOL_F32 if how == "f32" else 1e-9)
        if v:
            break
    arr = _mix_pack(sets, how)
    c, r = utils.sphere_through(arr)
    t += 1
    c, r = np.asarray(c), np.asarray(r)
    if c.shape != (len(sets), d) or r.shape != (len(sets),):
        v.append(_V("sphere_through/shape/dim%d/sphere_through-%s-batch" % (d, _kind(how)), "centre %r radius %r for input %r" % (c.shape, r.shape, arr.shape)))
    elif not v:
        for k, s_ in enumerate(sets):
            _check_sphere_unit(v, s_, c[k], r[k], "sphere_through-%s-batch" % _kind(how), rel=TOL_F32 if how == "f32" else 1e-9)
            if v:
                break
    return {"v": v[:4], "t": t, "o": repr((d, how, len(sets))), "nt": True}


def sphere_mixed_cases(seed):
    n = len(MIX_INT) + len(MIX_FRAC)
    for tr in itertools.permutations(range(n), 3):
        yield {"what": "circle", "triple": list(tr)}
    for shape in ([2], [3], [2, 2], [1, 3]):
        for pos in range(3):
            for how in ("i64", "i32", "f32"):
                yield {"what": "circle-batch", "shape": shape, "pos": pos, "pack": how}
    for c in sphere_batch_cases(seed):
        if c["shape"] == [1]:
            for how in ("i64", "i32", "f32"):
                yield {"what": "sphere", "sets": c["sets"], "pack": how}


# ------------------------------------------------------------------------------------------
# arc helpers
# ------------------------------------------------------------------------------------------
def angle_grid(kind, seed):
    """25 structured angles of the documented range + 4 generic ones selected by the seed."""
    if kind == "open2pi":        # (-2pi, 2pi): multiples of pi/6 and two angles close to the ends
        g = [k * math.pi / 6 for k in range(-11, 12)] + [-1.95 * math.pi, 1.95 * math.pi]
        span = 2 * math.pi
    else:                        # [-pi, pi]: multiples of pi/12
        g = [k * math.pi / 12 for k in range(-12, 13)]
        span = math.pi
    for j in range(4):
        x = ((j + 1) * math.sqrt(2) + (seed % 97) * 0.137 * (j + 1)) % 1.0
        g.append((2 * x - 1) * span * 0.999)
    return g


def _check_arcs(fn, thetas, ref, out):
    """vectorised predicates; returns list of (key-suffix, message)."""
    bad = []
    if out.shape != thetas.shape:
        return [("shape", "result shape %r for input %r" % (out.shape, thetas.shape))]
    same = L.same_angle_pair(out, thetas, TAU_ANGLE)
    if not np.all(same):
        i = np.argwhere(~same)[0]
        bad.append(("same-angles", "pair %r -> %r is not the same two angles mod 2pi" % (thetas[tuple(i)].tolist(), out[tuple(i)].tolist())))
        return bad
    a, b = out[..., 0], out[..., 1]
    if fn == "short_arc":
        d = L.ccw_len(a, b, TAU_ANGLE)
        ok = d <= math.pi + TAU_ANGLE
        what = "counter-clockwise arc from a to b is the longer one"
    elif fn == "right_to_left":
        ok = np.cos(b) <= np.cos(a) + TAU_ANGLE
        what = "cos(b) > cos(a)"
    else:
        w = L.ccw_len(a, b, TAU_ANGLE)
        u = L.ccw_len(a, ref, TAU_ANGLE)
        degenerate = w == 0.0                       # the two angles coincide on the circle
        ok = degenerate | (u <= w + TAU_ANGLE)
        what = "reference angle not on the counter-clockwise arc from a to b"
    if not np.all(ok):
        i = tuple(np.argwhere(~ok)[0])
        bad.append(("order", "pair %r%s -> %r: %s" % (thetas[i].tolist(), "" if fn != "arc_include" else " ref %r" % (float(np.asarray(ref)[i]),),
                                                    out[i].tolist(), what)))
    return bad


@_quiet
def case_arcs(case):
    from geometry_tools import utils
    fn, rank, seed = case["fn"], case["rank"], case["seed"]
    grid = angle_grid("open2pi" if fn == "short_arc" else "closedpi", seed)
    m = len(grid)
    G = np.array(grid)
    a = grid[case["a"]]
    ref = None
    if rank == 0:
        thetas = np.array([a, grid[case["b"]]])
        if fn == "arc_include":
            ref = grid[case["ref"]]
    elif rank == 1:
        if fn == "arc_include":
            thetas = np.tile(np.array([a, grid[case["b"]]]), (m, 1))
            ref = G.copy()
        else:
            thetas = np.stack([np.full(m, a), G], axis=-1)
    else:
        if fn == "arc_include":
            thetas = np.stack([np.full((m, m), a), np.tile(G[:, None], (1, m))], axis=-1)
            ref = np.tile(G[None, :], (m, 1))
        else:
            thetas = np.stack([np.tile(G[:, None], (1, m)), np.tile(G[None, :], (m, 1))], axis=-1)
    inp = thetas.copy()
    if fn == "arc_include":
        out = utils.arc_include(thetas, ref if rank == 0 else ref.copy())
    else:
        out = getattr(utils, fn)(thetas)
    out = np.asarray(out)
    v = []
    if not np.array_equal(thetas, inp):
        v.append(_V("%s/mutates-input/rank%d" % (fn, rank), "the input array was modified"))
    for suffix, msg in _check_arcs(fn, inp, ref, out):
        v.append(_V("%s/%s/rank%d" % (fn, suffix, rank), msg))
    d0 = np.mod(out[..., 0] - inp[..., 0], 2 * math.pi) if out.shape == inp.shape else np.zeros(1)
    swapped = int(np.count_nonzero(np.minimum(d0, 2 * math.pi - d0) > 1e-9))
    return {"v": v, "t": 1, "o": repr((fn, rank, swapped, case.get("a"), case.get("b") if rank == 0 else None)), "nt": True}


@_quiet
def case_circle_angles(case):
    from geometry_tools import utils
    seed = case["seed"]
    grid = np.array(angle_grid("closedpi", seed))
    centre = np.array(case["centre"], dtype=float)
    r = float(case["radius"])
    pts = centre + r * np.stack([np.cos(grid), np.sin(grid)], axis=-1)          # (m, 2)
    v, t = [], 0
    shapes = [(), (2,), (2, 3)]
    for shape in shapes:
        C = np.broadcast_to(centre, shape + (2,)).copy()
        P = np.broadcast_to(pts, shape + pts.shape).copy()
        ang = np.asarray(utils.circle_angles(C, P))
        t += 1
        if ang.shape != shape + (len(grid),):
            v.append(_V("circle_angles/shape/rank%d" % len(shape), "shape %r" % (ang.shape,)))
            continue
        d = np.mod(ang - grid, 2 * math.pi)
        d = np.minimum(d, 2 * math.pi - d)
        if not (np.all(d <= 1e-9) and np.all(np.abs(ang) <= math.pi + 1e-12)):
            v.append(_V("circle_angles/value/rank%d" % len(shape), "centre %r radius %r: max angle error %.3g" % (case["centre"], r, float(np.max(d)))))
    return {"v": v, "t": t, "o": repr((case["centre"], r)), "nt": True}


@_quiet
def case_orth_group(case):
    return _run_group(case_orth.__wrapped__, case)


@_quiet
def case_isometry_group(case):
    return _run_group(case_isometry.__wrapped__, case)


@_quiet
def case_definite_group(case):
    return _run_group(case_definite.__wrapped__, case)


@_quiet
def case_complement_group(case):
    return _run_group(case_complement.__wrapped__, case)


# ------------------------------------------------------------------------------------------
# enumeration
# ------------------------------------------------------------------------------------------
SHAPES_R2 = [s for r in (1, 2) for s in itertools.product((1, 2, 3), repeat=r)]


def form_cases(nmax):
    for n in range(1, nmax + 1):
        for p in range(n + 1):
            for ci in range(len(L.unimodular_family(n))):
                yield {"p": p, "q": n - p, "conj": ci}


def rowset_groups(nmax, m_rows, seed, partial_only, with_forms=True, nmin=1):
    """groups of ordered k-subsets of the row alphabet: all of them for k = 1, one group per
    first row for k >= 2; together they cover every ordered k-subset exactly once."""
    forms = list(form_cases(nmax)) if with_forms else [{"n": n} for n in range(nmin, nmax + 1)]
    for f in forms:
        n = f["n"] if "n" in f else f["p"] + f["q"]
        if n < nmin:
            continue
        rows = L.row_alphabet(n, m_rows(n), seed)
        for k in range(1, n if partial_only else n + 1):
            heads = [[]] if k == 1 else [[i] for i in range(len(rows))]
            for head in heads:
                c = {key: f[key] for key in ("p", "q", "conj") if key in f}
                c.update({"alphabet": rows, "k": k, "head": head})
                yield c


def count_rowsets(nmax, m_rows, partial_only, forms_per_n):
    tot = 0
    for n in range(1, nmax + 1):
        m = len(L.row_alphabet(n, m_rows(n), 0))
        for k in range(1, n if partial_only else n + 1):
            tot += forms_per_n(n) * math.perm(m, k)
    return tot


def batch_cases(nmax, m_rows, seed, partial_only, units=5):
    """for every form and k: the first `units` in-domain ordered row sets (starting at a
    seed-dependent position of the enumeration) tiled into every shape of rank 1..2."""
    for f in form_cases(nmax):
        n = f["p"] + f["q"]
        if n < 2:
            continue
        B, _ = _form(f)
        rows = L.row_alphabet(n, m_rows(n), seed)
        for k in range(1, n if partial_only else n + 1):
            ok = [[list(r) for r in rs] for rs in itertools.permutations(rows, k)
                  if _in_gs_domain(B, [list(r) for r in rs])]
            if not ok:
                continue
            start = (7 * seed) % len(ok)
            sel = [ok[(start + 3 * j) % len(ok)] for j in range(units)]
            for shape in SHAPES_R2:
                c = dict(f)
                c.update({"rowsets": sel, "shape": list(shape)})
                yield c


def definite_batch_cases(nmax, m_rows, seed):
    for n in range(2, nmax + 1):
        rows = L.row_alphabet(n, m_rows(n), seed)
        for k in range(1, n):
            ok = [[list(r) for r in rs] for rs in itertools.permutations(rows, k) if L.exact_rank([list(r) for r in rs]) == k]
            sel = [ok[(7 * seed + 3 * j) % len(ok)] for j in range(5)]
            for shape in SHAPES_R2:
                yield {"rowsets": sel, "shape": list(shape)}


def kernel_cases(shapes_alpha, block):
    for (m, n, alpha) in shapes_alpha:
        total = len(alpha) ** (m * n)
        for lo in range(0, total, block):
            yield {"m": m, "n": n, "alpha": alpha, "lo": lo, "hi": min(total, lo + block)}


def kernel_batch_cases(seed):
    """stacks of equal-rank matrices of every class, every shape of rank 1..2."""
    fams = {
        "wide-full": [[[1, 0, 2], [0, 1, -1]], [[1, 1, 1], [1, -1, 0]], [[2, 0, 1], [1, 1, 0]], [[0, 1, 1], [1, 0, 3]]],
        "square-deficient": [[[1, 2], [2, 4]], [[1, -1], [-1, 1]], [[0, 0], [1, 3]], [[2, 1], [4, 2]]],
        "square-deficient3": [[[1, 2, 3], [2, 4, 6], [1, 0, 1]], [[1, 0, 0], [0, 1, 0], [1, 1, 0]], [[1, 1, 1], [1, -1, 0], [2, 0, 1]]],
        "wide-deficient": [[[1, 2, 3], [2, 4, 6]], [[1, -1, 0], [-2, 2, 0]], [[0, 0, 1], [0, 0, 2]]],
        "square-full": [[[1, 2], [3, 4]], [[1, 0], [0, 1]], [[2, 1], [1, 1]], [[0, 1], [-1, 0]]],
        "square-full3": [[[1, 0, 0], [0, 1, 0], [0, 0, 1]], [[1, 2, 3], [0, 1, 4], [5, 6, 0]], [[2, 0, 1], [1, 1, 0], [0, 1, 1]]],
        "tall-full": [[[1, 0], [0, 1], [1, 1]], [[1, 2], [3, 4], [5, 7]], [[2, 1], [1, 1], [0, 3]]],
        "tall-deficient": [[[1, 2], [2, 4], [3, 6]], [[1, -1], [-1, 1], [2, -2]]],
    }
    for name in sorted(fams):
        mats = fams[name]
        mats = mats[seed % len(mats):] + mats[:seed % len(mats)]
        for shape in SHAPES_R2:
            yield {"mats": mats, "shape": list(shape), "family": name}


def mixed_rank_cases():
    z2 = [[0, 0], [0, 0]]
    r1 = [[1, 2], [2, 4]]
    r1b = [[1, -1], [3, -3]]
    f2 = [[1, 2], [3, 4]]
    f2b = [[0, 1], [1, 0]]
    w1 = [[1, 2, 3], [2, 4, 6]]
    w2 = [[1, 0, 2], [0, 1, -1]]
    w2b = [[1, 1, 1], [1, -1, 0]]
    for mats in ([r1, z2, r1b], [r1, f2], [f2, r1, f2b, z2], [w1, w2, w2b], [w2, w1], [f2, f2b, r1b]):
        for perm in itertools.permutations(range(len(mats))):
            yield {"mats": [mats[i] for i in perm]}


def sphere_cases(quick, seed):
    """ordered (d+1)-tuples of integer points."""
    out = []
    # d = 1: pairs on the line
    line = [[x] for x in (-3, -1, 0, 2, 5)]
    out.append({"sets": [[a, b] for a in line for b in line if a != b]})
    # d = 2: all ordered triples of a grid (affinely dependent ones are filtered exactly in the case)
    rng = (-1, 0, 1, 2) if quick else (-2, -1, 0, 1, 2)
    grid2 = [[x, y] for x in rng for y in rng]
    if seed % 3:
        grid2 = [[x + seed % 3, y - 2 * (seed % 3)] for x, y in grid2]
    for a in grid2:
        for b in grid2:
            if a != b:
                out.append({"sets": [[a, b, c] for c in grid2 if c not in (a, b)]})
    # d = 3, 4: ordered tuples from a small alphabet
    pts3 = [[0, 0, 0], [1, 0, 0], [0, 1, 0], [0, 0, 1], [1, 1, 1], [2, -1, 1], [-1, 2, 3]] + ([] if quick else [[3, 1, -2], [1, 1, 0]])
    for a in pts3:
        for b in pts3:
            if a != b:
                rest = [c for c in pts3 if c not in (a, b)]
                out.append({"sets": [[a, b, c, d] for c in rest for d in rest if c != d]})
    pts4 = [[0, 0, 0, 0], [1, 0, 0, 0], [0, 1, 0, 0], [0, 0, 1, 0], [0, 0, 0, 1], [1, 1, 1, 1], [2, -1, 1, 0]] + ([] if quick else [[-1, 2, 3, 1]])
    for a in pts4:
        for b in pts4:
            if a != b:
                rest = [c for c in pts4 if c not in (a, b)]
                out.append({"sets": [[a, b, c, d, e] for c in rest for d in rest for e in rest if len({tuple(c), tuple(d), tuple(e)}) == 3]})
    return out


def sphere_batch_cases(seed):
    sets = {
        1: [[[0], [2]], [[-1], [4]], [[3], [1]], [[5], [-3]]],
        2: [[[0, 0], [1, 0], [0, 1]], [[1, 1], [2, -1], [0, 3]], [[-1, 0], [2, 2], [1, -1]], [[0, 2], [2, 0], [-1, -1]], [[3, 1], [0, 0], [1, 2]]],
        3: [[[0, 0, 0], [1, 0, 0], [0, 1, 0], [0, 0, 1]], [[1, 1, 1], [2, -1, 1], [0, 0, 0], [1, 0, 0]], [[-1, 2, 3], [0, 1, 0], [1, 1, 1], [0, 0, 1]]],
    }
    for d in sorted(sets):
        s = sets[d]
        s = s[seed % len(s):] + s[:seed % len(s)]
        for shape in SHAPES_R2:
            yield {"sets": s, "shape": list(shape)}


def arc_cases(seed, quick):
    m = 29
    for fn in ("short_arc", "right_to_left"):
        for a in range(m):
            for b in range(m):
                yield {"fn": fn, "rank": 0, "a": a, "b": b, "seed": seed}
        for a in range(m):
            yield {"fn": fn, "rank": 1, "a": a, "seed": seed}
        yield {"fn": fn, "rank": 2, "a": 0, "seed": seed}
    fn = "arc_include"
    for a in range(m):
        for b in range(m):
            for r in range(m):
                yield {"fn": fn, "rank": 0, "a": a, "b": b, "ref": r, "seed": seed}
            yield {"fn": fn, "rank": 1, "a": a, "b": b, "seed": seed}
        yield {"fn": fn, "rank": 2, "a": a, "seed": seed}


# ------------------------------------------------------------------------------------------
# ------------------------------------------------------------------------------------------
# purity: the helpers answer from their arguments and leave them alone
# ------------------------------------------------------------------------------------------
def _purity_calls():
    from geometry_tools import utils
    J3, J4 = np.diag([-1.0, 1.0, 1.0]), np.diag([-1.0, 1.0, 1.0, 1.0])
    B = np.array([[2.0, 1.0, 0.0], [1.0, -1.0, 0.5], [0.0, 0.5, 1.0]])
    pts2 = np.array([[0.0, 0.0], [4.0, 0.0], [0.0, 3.0]])
    pts3 = np.array([[1.0, 0.0, 0.0], [0.0, 2.0, 0.0], [0.0, 0.0, 3.0], [1.0, 1.0, 1.0]])
    th = np.array([[0.1, 3.0], [-2.5, 2.9], [3.0, -3.1]])
    calls = [
        ("projection", lambda a, b, f: utils.projection(a, b, f), [np.array([1.0, 2.0, 3.0]), np.array([0.0, 1.0, 1.0]), J3]),
        ("projection-batch", lambda a, b, f: utils.projection(a, b, f), [np.arange(18.0).reshape(2, 3, 3) + 1.0, np.ones((2, 3, 3)) + np.eye(3), J3]),
        ("find_isometry", lambda f, r: utils.find_isometry(f, r, True), [J3, np.array([[2.0, 1.0, 0.0]])]),
        ("find_isometry-batch", lambda f, r: utils.find_isometry(f, r, False), [J4, np.array([[[3.0, 1.0, 0.0, 1.0]], [[2.0, 0.0, 1.0, 0.5]]])]),
        ("find_definite_isometry", lambda r: utils.find_definite_isometry(r), [np.array([[2.0, 1.0, 0.0], [0.0, 1.0, 1.0]])]),
        ("orthogonal_complement", lambda r: utils.orthogonal_complement(r), [np.array([[2.0, 1.0, 0.0]])]),
        ("diagonalize_form", lambda b: utils.diagonalize_form(b, order_eigenvalues="minkowski", with_inverse=True), [B]),
        ("diagonalize_form-batch", lambda b: utils.diagonalize_form(b), [np.stack([B, J3, -B])]),
        ("kernel", lambda m: utils.kernel(m), [np.array([[2.0, 1.0, 0.0], [1.0, -1.0, 0.0]])]),
        ("sphere_through", lambda p_: utils.sphere_through(p_), [pts2]),
        ("sphere_through-3d", lambda p_: utils.sphere_through(p_), [pts3]),
        ("sphere_through-batch", lambda p_: utils.sphere_through(p_), [np.stack([pts2, pts2[::-1] + 1.0])]),
        ("circle_through", lambda a, b, c: utils.circle_through(a, b, c), [pts2[0].copy(), pts2[1].copy(), pts2[2].copy()]),
        ("circle_angles", lambda c, p_: utils.circle_angles(c, p_), [np.array([0.5, -0.25]), np.array([[1.0, 0.0], [0.0, 1.0]])]),
        ("short_arc", lambda t_: utils.short_arc(t_), [th]),
        ("short_arc-single", lambda t_: utils.short_arc(t_), [th[1].copy()]),
        ("right_to_left", lambda t_: utils.right_to_left(t_), [th]),
        ("arc_include", lambda t_, r: utils.arc_include(t_, r), [th, np.array([1.0, 0.0, -3.0])]),
        ("arc_include-single", lambda t_: utils.arc_include(t_, 1.0), [th[0].copy()]),
    ]
    return calls


def _flat(r):
    if isinstance(r, (tuple, list)):
        out = []
        for x in r:
            out += _flat(x)
        return out
    return [np.array(r, copy=True)]


def case_purity(case):
    name, f, args = _purity_calls()[case["i"]]
    v = []
    snaps = [np.array(a, copy=True) for a in args]
    r1 = _flat(f(*args))
    for k, (a, s0) in enumerate(zip(args, snaps)):
        if a.shape != s0.shape or not np.array_equal(a, s0):
            v.append(_V("purity/argument-modified/%s" % name.split("-")[0], "%s changed its argument %d in place: %r -> %r" % (name, k, s0.tolist(), a.tolist())))
    keep = [x.copy() for x in r1]
    r2 = _flat(f(*[s0.copy() for s0 in snaps]))
    r3 = _flat(f(*args)) if not v else r2
    for tag, other in (("fresh-arguments", r2), ("same-arguments-again", r3)):
        if len(other) != len(r1) or any(x.shape != y.shape or not np.allclose(x, y, rtol=1e-12, atol=1e-12, equal_nan=True) for x, y in zip(keep, other)):
            v.append(_V("purity/answer-changes/%s/%s" % (name.split("-")[0], tag), "%s answers differently the second time" % name))
    if any(x.shape != y.shape or not np.array_equal(x, y, equal_nan=True) for x, y in zip(r1, keep)):
        v.append(_V("purity/returned-array-rewritten/%s" % name.split("-")[0], "%s: an array returned earlier was changed by a later call" % name))
    return {"v": v, "t": 3, "o": name, "nt": True}


def run(ctx):
    q = ctx.quick
    seed = ctx.seed
    nmax = 4 if q else 6

    def m_rows(n):
        return min(6 if q else 7, max(3, 2 * n + 1)) if n > 1 else 3

    ctx.rule = ("forms B = Q^T D Q for every signature (p negative, q positive), p+q <= %d, Q in a fixed family of "
                "unimodular integer matrices; row sets = every ordered k-subset of an integer row alphabet, kept when all "
                "leading Gram minors are non-zero (exact integer determinants); integer matrices / point sets / angle "
                "grids enumerated completely; a case is non-trivial when it is inside the stated domain "
                "(out-of-domain tuples are counted but not executed)" % nmax)
    ctx.assume("Gram-Schmidt precondition: every leading Gram minor of the ordered rows w.r.t. the form is non-zero (exact test)")
    ctx.assume("find_isometry is called with k = 1..n rows (k = n: a complete frame, the completion is empty but orthonormalisation and force_oriented still apply); k < n for find_definite_isometry / orthogonal_complement")
    ctx.assume("bounded condition number: integer rows with entries in [-3,3], forms with integer entries and |det| = 1 "
               "(cond(B) <= 1e4 required for diagonalize_form); measured library error on this domain <= 1e-12")
    ctx.assume("find_isometry 'preserves the form' = its rows are orthonormal for the form (Gram matrix diagonal +-1); by Sylvester's "
               "law this is M B M^T = B whenever the sign sequence is forced (e.g. Minkowski form, timelike first row)")
    ctx.assume("find_definite_isometry: the docstring speaks of leading rows, the code and its only caller "
               "(hyperplane_coordinate_transform) use leading columns; either convention is accepted")
    ctx.assume("orthogonal_complement(normalize='form') is only checked for definite forms (its docstring disclaims indefinite ones)")
    ctx.assume("order_eigenvalues='minkowski' with as many negative as positive directions: the property fixes no tie-break, any grouped order passes")
    ctx.assume("sphere_through: the k+2 points are affinely independent (exact test)")
    ctx.assume("arc helpers: angle pairs in (-2pi,2pi) for short_arc and in [-pi,pi] for right_to_left / arc_include (reference angle in [-pi,pi]); "
               "ordering predicates are not demanded within 1e-9 of a tie (antipodal pair, reference on an endpoint, coinciding endpoints)")
    ctx.tolerances["gram"] = "1e-8 absolute on Gram / W^T B W / K^T K entries (values 0, +-1; measured error <= 1e-12 on the domain; the F11 class has error >= 0.1)"
    ctx.tolerances["rank"] = "relative singular-value threshold 1e-7 on row-normalised stacks for flag / span equality"
    ctx.tolerances["sphere"] = "1e-9*(1+r+|c|) against the exact rational circumcentre"
    ctx.tolerances["angles"] = "1e-9 rad"
    ctx.tolerances["projection"] = "1e-12*(1+|value|) against exact rationals"

    dom_forms = {"signatures": "all (p,q), 1 <= p+q <= %d" % nmax, "conjugators per dimension": [len(L.unimodular_family(n)) for n in range(1, nmax + 1)],
                 "row alphabet sizes": [m_rows(n) for n in range(1, nmax + 1)], "seed": seed}

    def nforms(n):
        return (n + 1) * len(L.unimodular_family(n))
    dom_forms["ordered row sets (all k)"] = count_rowsets(nmax, m_rows, False, nforms)
    dom_forms["ordered partial row sets (k<n)"] = count_rowsets(nmax, m_rows, True, nforms)
    dom_forms["grouping"] = "one framework case = all ordered k-subsets with a given first row (k=1: all rows)"
    ctx.product("purity", "checks.c18:case_purity", [{"i": i} for i in range(len(_purity_calls()))], chunk=2,
                domains={"helpers": sorted({c[0].split("-")[0] for c in _purity_calls()}),
                         "demand": "arguments bitwise unchanged; same answer from fresh copies and from the same arrays again; earlier results not rewritten",
                         "excluded": "normalize / indefinite_orthogonalize (they rescale rows in place by design; flags are unchanged)"})
    ctx.product("orthogonalize", "checks.c18:case_orth_group", rowset_groups(nmax, m_rows, seed, False), domains=dom_forms, chunk=4)
    ctx.product("find_isometry", "checks.c18:case_isometry_group", rowset_groups(nmax, m_rows, seed, False), domains=dom_forms, chunk=4)
    ctx.assume("find_isometry with a DIAGONAL form diag(+-1), the signs in any order (utils.indefinite_form(p, q, neg_first=False) is "
               "positive-first): when the Gram-Schmidt frame of the k given rows has the signs of the first k diagonal entries (exact "
               "test: then a form-preserving completion exists), 'a matrix preserving the form' is demanded literally, M B M^T = B; "
               "for non-diagonal forms B = Q^T D Q the rows of the result are form-orthonormal by the docstring, so M B M^T is diagonal "
               "and cannot equal B: there the demand stays orthonormality (sections find_isometry, find_isometry-batch)")
    dcases = list(diag_isometry_cases(5, () if q else (6,), m_rows, seed))
    ctx.product("find_isometry-diagonal-forms", "checks.c18:case_isometry_diag", dcases, chunk=4,
                domains={"forms": "diag(s), every sign vector s in {-1,+1}^n, n <= %d%s" % (5, "" if q else "; n = 6: negative-first, positive-first and alternating vectors of every signature"),
                         "partial frames": "every ordered k-subset (1 <= k < n) of the row alphabet whose Gram-Schmidt frame has the signs s[:k] (exact)",
                         "force_oriented": [False, True], "call forms": ["(k, n) array", "single vector (k = 1)", "batches of shape (5,) and (2,3) mixing 4 compatible and 1 incompatible frame"],
                         "demand": "M B M^T = B (1e-8), flag, det > 0 on request"})
    nb = 4 if q else 5
    ctx.product("orthogonalize-batch", "checks.c18:case_orth_batch", batch_cases(nb, m_rows, seed, False),
                domains={"shapes": SHAPES_R2, "units": 5, "nmax": nb}, chunk=64)
    ctx.product("find_isometry-batch", "checks.c18:case_isometry_batch", batch_cases(nb, m_rows, seed, False),
                domains={"shapes": SHAPES_R2, "units": 5, "nmax": nb}, chunk=64)
    ctx.product("find_definite_isometry", "checks.c18:case_definite_group",
                rowset_groups(nmax, m_rows, seed, True, with_forms=False, nmin=2),
                domains={"n": "2..%d" % nmax, "k": "1..n-1", "force_oriented": [False, True],
                         "ordered row sets": count_rowsets(nmax, m_rows, True, lambda n: 1 if n >= 2 else 0)}, chunk=4)
    ctx.product("find_definite_isometry-batch", "checks.c18:case_definite_batch", definite_batch_cases(nb, m_rows, seed),
                domains={"shapes": SHAPES_R2, "nmax": nb}, chunk=16)
    ctx.product("orthogonal_complement", "checks.c18:case_complement_group",
                rowset_groups(min(nmax, 5), m_rows, seed, True), domains=dom_forms, chunk=4)
    ctx.product("projection", "checks.c18:case_projection",
                [dict(f, rows=L.row_alphabet(f["p"] + f["q"], m_rows(f["p"] + f["q"]), seed)) for f in form_cases(nmax)],
                domains=dom_forms, chunk=4)

    scales = [1.0, 2.5, 0.25]
    ctx.product("diagonalize_form", "checks.c18:case_diagform",
                [dict(f, scale=s) for f in form_cases(nmax) for s in scales],
                domains={"forms": "as above x scale %r" % scales, "order_eigenvalues": ["signed", "minkowski", None],
                         "reverse": [False, True], "with_inverse": [True, False]}, chunk=4)
    bcases = []
    for n in range(1, nmax + 1):
        fl = [f for f in form_cases(n) if f["p"] + f["q"] == n]
        # rotate so that consecutive batch entries have different signatures
        fl = sorted(fl, key=lambda f: (f["conj"], f["p"]))
        fl = fl[seed % len(fl):] + fl[:seed % len(fl)]
        for shape in SHAPES_R2:
            for order in ("signed", "minkowski", None):
                for reverse in (False, True):
                    bcases.append({"forms": fl, "shape": list(shape), "order": order, "reverse": reverse})
    ctx.product("diagonalize_form-batch", "checks.c18:case_diagform_batch", bcases,
                domains={"shapes": SHAPES_R2, "mixed signatures within a batch": True}, chunk=8)
    ctx.product("permute_along_axis", "checks.c18:case_permute",
                [{"n": n, "axis": ax, "shape": list(s)} for n in range(1, 5) for ax in (-1, -2) for s in [()] + SHAPES_R2[:6]],
                domains={"permutations": "all of S_n, n<=4", "axis": [-1, -2]}, chunk=4)

    if q:
        ksa = [(m, n, [-1, 0, 1]) for m in (1, 2, 3) for n in (1, 2, 3)] + [(2, 4, [0, 1])]
    else:
        ksa = ([(m, n, [-1, 0, 1, 2]) for m in (1, 2, 3) for n in (1, 2, 3)] +
               [(2, 4, [-1, 0, 1]), (4, 2, [-1, 0, 1]), (3, 4, [-1, 0, 1]), (4, 4, [0, 1])])
    ctx.product("kernel", "checks.c18:case_kernel", kernel_cases(ksa, 243 if q else 1024),
                domains={"shapes x entry alphabets": [(m, n, a) for m, n, a in ksa], "note": "every integer matrix of each shape over its alphabet"}, chunk=2)
    ctx.product("kernel-batch", "checks.c18:case_kernel_batch", kernel_batch_cases(seed), domains={"shapes": SHAPES_R2}, chunk=8)
    ctx.product("svd_kernel-mixed-rank", "checks.c18:case_svd_kernel_mixed", mixed_rank_cases(), domains={"stacks": 6, "orders": "all"}, chunk=8)

    ctx.product("sphere_through", "checks.c18:case_sphere", sphere_cases(q, seed),
                domains={"d=1": "ordered pairs of 5 points", "d=2": "all ordered triples of a %d-point integer grid" % (16 if q else 25),
                         "d=3,4": "all ordered (d+1)-tuples of a 7..9-point alphabet"}, chunk=8)
    ctx.product("sphere_through-batch", "checks.c18:case_sphere_batch", sphere_batch_cases(seed), domains={"shapes": SHAPES_R2}, chunk=8)

    ctx.assume("mixed numeric kinds: circle_through takes its three points as float64 / float32 / int64 / int32 ndarrays, lists or tuples in any "
               "combination (np.stack semantics); sphere_through takes ndarrays only (a list raises AttributeError: outside the input kind)")
    ctx.tolerances["sphere_through, some float32 input"] = "2e-4 (1 + r + |c|): float32 accuracy accepted (all-float32 input is computed in float32, measured <= 2e-6); a truncated point moves the circle by >= 0.1"
    ctx.product("sphere_through-mixed-kinds", "checks.c18:case_sphere_mixed", list(sphere_mixed_cases(seed)),
                domains={"points": {"integer-valued": MIX_INT, "non-integral (dyadic)": MIX_FRAC}, "triples": "all ordered triples of the 6 points",
                         "kinds of an integer-valued point": MIX_PACKS_INT, "kinds of a non-integral point": MIX_PACKS_FRAC,
                         "assignments": "every assignment of kinds to the three points",
                         "batches": "shapes (2),(3),(2,2),(1,3) with the integer / float32 array in each argument position",
                         "sphere_through": "the integer sets of the batch section (d = 1, 2, 3) as int64 / int32 / float32 ndarrays"}, chunk=4)

    ctx.product("arc-helpers", "checks.c18:case_arcs", arc_cases(seed, q),
                domains={"grid": "25 structured + 4 seed-selected angles per range", "ranks": [0, 1, 2],
                         "short_arc": "(-2pi,2pi)", "right_to_left/arc_include": "[-pi,pi]"}, chunk=1024)
    ctx.product("circle_angles", "checks.c18:case_circle_angles",
                [{"centre": c, "radius": r, "seed": seed} for c in ([0, 0], [1, -2], [-3.5, 0.25]) for r in (1.0, 0.5, 7.0)],
                domains={"centres": 3, "radii": 3, "angles": 29, "batch ranks": [0, 1, 2]}, chunk=1)
